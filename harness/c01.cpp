// C01 harness: runs one line-search solver (gd, 10 cgd variants, lbfgs, 5 quasi-Newton) on the function of the op line with
// the trace hooks of lsearch_t::get / solver_t::done installed and the user function wrapped by an independent
// counting/logging wrapper.
//
//   R ok <status> <wrapper units> <fcalls> <gcalls> <x> <fx> <gx> <fr> <gr> <monitor checked> <monitor bad>
//        T <iterations> <logged> { <d> <converged> <valid> <gtest> <ok> <x after the line search> }*logged
//   A <op line> | <n> <eps> <max_evals> <history> <scaled> <sr1 r> <orthotest> <eta> <total iterations> <logged>
//        I <x0> <f0> <g0> <fcalls> <gcalls>
//        { <x> <g> <f> <d> <t0> <ok> <t> <x'> <g'> <f'> <iter_ok> <fcalls> <gcalls> }*logged
// (fr, gr: the plain function re-evaluated at the returned point; the A line carries the oracle answers the model replays)
//
// family `ls0` (the step-initialisation strategies src/lsearch0/*.cpp and the glue lsearch_t::get, src/solver/lsearch.cpp):
//   ls0 run  <np0> {<lsearch0 parameter> <value>}*np0 <solver id> <lsearch0> <lsearchk> <np> {…} <function> <x0>
//            a real solver run with the lsearch0 object configured over its parameter domains; every lsearch_t::get is logged
//   ls0 glue <lsearch0> <lsearchk> <np0> {…}*np0 <epsilon> <c1> <c2> <function> <calls> {<x | empty = continue> <d>}*calls
//            a stand-alone lsearch_t (built as solver_t::make_lsearch builds it) used on any sequence of points and directions
//            (non-descent directions, calls after a failed search, … — what a solver run never does)
//   ls0 hist <lsearch0> <np0> {…}*np0 <n> <calls> {<x> <fx> <gx> <d> <last_step_size> <f(trial)>}*calls
//            a stand-alone lsearch0 object fed ANY history (scripted function values: non-finite ones, zero gradients, …)
//   R ok <calls> <logged> {<t0> <ok> <t>}*logged
//   A <op line> | <strategy> <glue 0/1> <epsilon> <constant::t0> <linear::beta> <linear::alpha> <quadratic::beta> <quadratic::alpha>
//        <phi0> <phi1> <phi2> <n> <calls> <logged>
//        { <x> <g> <f> <d> <last> <g.d> <|x|inf> <|g|inf> <|g|^2> <has trial> <trial point> <f(trial)> <t0> <ok> <t> <x'> <g'> <f'> }*logged
// (the four reductions are Eigen's, computed here on copies of the logged vectors; the trial point and its value are what the
//  counting wrapper / the scripted function saw)
#include "c01_common.h"
#include <nano/lsearch0.h>
#include <nano/lsearchk.h>
#include <nano/solver/lsearch.h>
#include <solver/quasi.h>

using namespace vs;

namespace
{
constexpr size_t max_logged = 60;

void put_vec(out_t& out, const double* v, size_t n)
{
    out << static_cast<long long>(n);
    for (size_t i = 0; i < n; ++i)
    {
        out << v[i];
    }
}

// ---- family ls0 ------------------------------------------------------------------------------------------------------------
struct call_rec_t
{
    std::vector<double> x, g, d, trial, x1, g1;
    double              f{0}, last{0}, dgE{0}, xnE{0}, gnE{0}, gsqE{0}, ftrial{0}, t0{0}, t{0}, f1{0};
    int                 has_trial{0}, ok{0};
};

void reductions(call_rec_t& c)
{
    const auto x = vs::to_vector(c.x);
    const auto g = vs::to_vector(c.g);
    const auto d = vs::to_vector(c.d);
    c.dgE        = g.dot(d);
    c.xnE        = x.lpNorm<Eigen::Infinity>();
    c.gnE        = g.lpNorm<Eigen::Infinity>();
    c.gsqE       = g.squaredNorm();
}

void put_call(out_t& a, const call_rec_t& c)
{
    put_vec(a, c.x.data(), c.x.size());
    put_vec(a, c.g.data(), c.g.size());
    a << c.f;
    put_vec(a, c.d.data(), c.d.size());
    a << c.last << c.dgE << c.xnE << c.gnE << c.gsqE << static_cast<long long>(c.has_trial);
    put_vec(a, c.trial.data(), c.trial.size());
    a << c.ftrial << c.t0 << static_cast<long long>(c.ok) << c.t;
    put_vec(a, c.x1.data(), c.x1.size());
    put_vec(a, c.g1.data(), c.g1.size());
    a << c.f1;
}

double l0param(const lsearch0_t& l0, const char* name, double otherwise)
{
    for (const auto& p : l0.parameters())
    {
        if (p.name() == name)
        {
            return p.value<scalar_t>();
        }
    }
    return otherwise;
}

void put_params(out_t& a, const lsearch0_t& l0, const bool glue, const double epsilon, const size_t n, const size_t calls,
                const size_t logged)
{
    a << l0.type_id() << static_cast<long long>(glue ? 1 : 0) << epsilon << l0param(l0, "lsearch0::constant::t0", 1.0)
      << l0param(l0, "lsearch0::linear::beta", 10.0) << l0param(l0, "lsearch0::linear::alpha", 1.01)
      << l0param(l0, "lsearch0::quadratic::beta", 10.0) << l0param(l0, "lsearch0::quadratic::alpha", 1.01)
      << l0param(l0, "lsearch0::cgdescent::phi0", 0.01) << l0param(l0, "lsearch0::cgdescent::phi1", 0.1)
      << l0param(l0, "lsearch0::cgdescent::phi2", 2.0) << static_cast<long long>(n) << static_cast<long long>(calls)
      << static_cast<long long>(logged);
}

rlsearch0_t make_lsearch0(toks_t& t, const std::string& id)
{
    auto l0 = lsearch0_t::all().get(id);
    if (!l0)
    {
        throw bad_op("unknown lsearch0 " + id);
    }
    const auto np0 = t.i64();
    for (int64_t k = 0; k < np0; ++k)
    {
        const auto name    = t.s();
        l0->parameter(name) = t.f();
    }
    return l0;
}

// index into the wrapper's log of the first evaluation made after `units` units had been counted
size_t ev_index(const evlog_t& log, const long units)
{
    long   acc = 0;
    size_t k   = 0;
    while (k < log.evs.size() && acc < units)
    {
        acc += 1 + (log.evs[k].has_g ? 1 : 0);
        ++k;
    }
    return k;
}

// the calls of lsearch_t::get logged by the hooks lsearch.begin / lsearch.end (+ the wrapper's log for the strategy's own evaluation)
std::vector<call_rec_t> calls_of(const std::vector<record_t>& records, const evlog_t& log, const size_t n, const bool cgdescent)
{
    std::vector<call_rec_t> out;
    const record_t*         begin = nullptr;
    for (const auto& rec : records)
    {
        if (rec.tag == "lsearch.begin")
        {
            begin = &rec;
        }
        else if (rec.tag == "lsearch.end" && begin != nullptr)
        {
            const auto& b = begin->v;
            const auto& e = rec.v;
            if (b.size() != 3 * (n + 1) + 2 || e.size() != 3 + 2 * (n + 1) + 1)
            {
                throw bad_op("trace-record-size");
            }
            call_rec_t c;
            c.x.assign(&b[1], &b[1] + n);
            c.g.assign(&b[n + 2], &b[n + 2] + n);
            c.f = b[2 * (n + 1)];
            c.d.assign(&b[2 * (n + 1) + 2], &b[2 * (n + 1) + 2] + n);
            c.last = b[3 * (n + 1) + 1];
            c.t0   = e[0];
            c.ok   = e[1] != 0.0 ? 1 : 0;
            c.t    = e[2];
            c.x1.assign(&e[4], &e[4] + n);
            c.g1.assign(&e[4 + n + 1], &e[4 + n + 1] + n);
            c.f1 = e[4 + 2 * (n + 1) - 1];
            reductions(c);
            // cgdescent.cpp:50-51: one VALUE evaluation (no gradient) before the search, unless last_step_size < 0
            if (cgdescent && !(c.last < 0.0))
            {
                const auto k = ev_index(log, begin->units);
                if (k < log.evs.size() && !log.evs[k].has_g && log.evs[k].x.size() == n)
                {
                    c.has_trial = 1;
                    c.trial     = log.evs[k].x;
                    c.ftrial    = log.evs[k].f;
                }
            }
            out.push_back(std::move(c));
            begin = nullptr;
        }
    }
    return out;
}

std::string finish_ls0(const std::vector<call_rec_t>& calls, const lsearch0_t& l0, const bool glue, const double epsilon,
                       const size_t n, std::string& aug)
{
    const auto logged = std::min(calls.size(), max_logged);
    out_t      res;
    res << "ok" << static_cast<long long>(calls.size()) << static_cast<long long>(logged);
    out_t a;
    a << aug << "|";
    put_params(a, l0, glue, epsilon, n, calls.size(), logged);
    for (size_t k = 0; k < logged; ++k)
    {
        res << calls[k].t0 << static_cast<long long>(calls[k].ok) << calls[k].t;
        put_call(a, calls[k]);
    }
    aug = a.str();
    return res.str();
}

struct sink_guard_t
{
    sink_guard_t(std::vector<record_t>& records, evlog_t& log)
    {
        tls().records             = &records;
        tls().log                 = &log;
        nano::verif::trace_sink() = &sink;
    }
    ~sink_guard_t()
    {
        nano::verif::trace_sink() = nullptr;
        tls().records             = nullptr;
        tls().log                 = nullptr;
    }
};

std::string ls0_run(toks_t& t, std::string& aug)
{
    // the lsearch0 parameters come first; the lsearch0 id is the second token after the solver id
    const auto                                  np0 = t.i64();
    std::vector<std::pair<std::string, double>> p0;
    for (int64_t k = 0; k < np0; ++k)
    {
        const auto name = t.s();
        p0.emplace_back(name, t.f());
    }
    const auto sid    = t.s();
    auto       solver = vs::make_solver(sid);
    if (solver->type() != solver_type::line_search)
    {
        throw bad_op("not a line-search solver");
    }
    vs::configure(t, *solver);
    {
        auto l0 = solver->lsearch0().clone();
        for (const auto& [name, value] : p0)
        {
            l0->parameter(name) = value;
        }
        solver->lsearch0(*l0);
    }
    auto problem = vs::parse_problem(t);
    vs::add_constraints(t, *problem.plain);
    const auto x0 = t.fs();
    if (static_cast<tensor_size_t>(x0.size()) != problem.plain->size())
    {
        throw bad_op("x0 size");
    }
    const auto n   = static_cast<size_t>(problem.plain->size());
    auto       log = std::make_shared<evlog_t>();
    wrap_t     wrapped(*problem.plain, log);

    std::vector<record_t> records;
    const auto            logger = make_null_logger();
    {
        const sink_guard_t guard(records, *log);
        solver->minimize(wrapped, vs::to_vector(x0), logger);
    }
    const auto& l0    = solver->lsearch0();
    const auto  calls = calls_of(records, *log, n, l0.type_id() == "cgdescent");
    return finish_ls0(calls, l0, true, solver->parameter("solver::epsilon").value<scalar_t>(), n, aug);
}

std::string ls0_glue(toks_t& t, std::string& aug)
{
    const auto id0 = t.s();
    const auto idk = t.s();
    auto       l0  = make_lsearch0(t, id0);
    auto       lk  = lsearchk_t::all().get(idk);
    if (!lk)
    {
        throw bad_op("unknown lsearchk " + idk);
    }
    const auto epsilon = t.f();
    const auto c1      = t.f();
    const auto c2      = t.f();
    // solver.cpp:101-106 make_lsearch
    l0->parameter("lsearch0::epsilon")   = epsilon;
    lk->parameter("lsearchk::tolerance") = std::make_tuple(c1, c2);
    auto problem = vs::parse_problem(t);
    vs::add_constraints(t, *problem.plain);
    const auto n     = static_cast<size_t>(problem.plain->size());
    const auto ncall = t.i64();
    auto       log   = std::make_shared<evlog_t>();
    wrap_t     wrapped(*problem.plain, log);
    auto       l0copy = l0->clone();

    std::vector<record_t> records;
    const auto            logger  = make_null_logger();
    const auto            lsearch = lsearch_t{std::move(l0), std::move(lk)};
    {
        const sink_guard_t              guard(records, *log);
        std::unique_ptr<solver_state_t> state;
        for (int64_t k = 0; k < ncall; ++k)
        {
            const auto x = t.fs();
            const auto d = t.fs();
            if ((x.size() != n && !(x.empty() && state)) || d.size() != n)
            {
                throw bad_op("glue sizes");
            }
            if (!x.empty())
            {
                state = std::make_unique<solver_state_t>(wrapped, vs::to_vector(x));
            }
            lsearch.get(*state, vs::to_vector(d), logger);
        }
    }
    const auto calls = calls_of(records, *log, n, id0 == "cgdescent");
    return finish_ls0(calls, *l0copy, true, epsilon, n, aug);
}

// a function whose answers are scripted: (f, g) when the gradient is asked for (the construction of the state), the value of
// the trial point otherwise (the strategy's own evaluation)
struct script_t
{
    double              f{0}, ftrial{0};
    std::vector<double> g, trial;
    int                 trials{0};
};

class scripted_t final : public function_t
{
public:
    scripted_t(tensor_size_t n, std::shared_ptr<script_t> s)
        : function_t("scripted", n)
        , m_s(std::move(s))
    {
        convex(convexity::no);
        smooth(smoothness::yes);
    }

    rfunction_t clone() const override { return std::make_unique<scripted_t>(*this); }

    scalar_t do_vgrad(vector_cmap_t x, vector_map_t gx) const override
    {
        auto& s = *m_s;
        if (gx.size() == x.size())
        {
            for (tensor_size_t i = 0; i < gx.size(); ++i)
            {
                gx(i) = s.g[static_cast<size_t>(i)];
            }
            return s.f;
        }
        s.trial.assign(x.data(), x.data() + x.size());
        ++s.trials;
        return s.ftrial;
    }

private:
    std::shared_ptr<script_t> m_s;
};

std::string ls0_hist(toks_t& t, std::string& aug)
{
    const auto id0   = t.s();
    auto       l0    = make_lsearch0(t, id0);
    const auto n     = static_cast<size_t>(t.i64());
    const auto ncall = t.i64();
    if (n < 1 || n > 64 || ncall < 0)
    {
        throw bad_op("hist sizes");
    }
    auto                    script = std::make_shared<script_t>();
    const scripted_t        function(static_cast<tensor_size_t>(n), script);
    std::vector<call_rec_t> calls;
    for (int64_t k = 0; k < ncall; ++k)
    {
        call_rec_t c;
        c.x    = t.fs();
        c.f    = t.f();
        c.g    = t.fs();
        c.d    = t.fs();
        c.last = t.f();
        const auto ftrial = t.f();
        if (c.x.size() != n || c.g.size() != n || c.d.size() != n)
        {
            throw bad_op("hist vector sizes");
        }
        script->f      = c.f;
        script->g      = c.g;
        script->ftrial = ftrial;
        script->trials = 0;
        const auto state = solver_state_t{function, vs::to_vector(c.x)};
        c.t0             = l0->get(state, vs::to_vector(c.d), c.last);
        if (script->trials > 0)
        {
            c.has_trial = 1;
            c.trial     = script->trial;
            c.ftrial    = ftrial;
        }
        c.ok = 1;
        c.t  = c.last;
        c.x1 = c.x;
        c.g1 = c.g;
        c.f1 = c.f;
        reductions(c);
        calls.push_back(std::move(c));
    }
    return finish_ls0(calls, *l0, false, l0param(*l0, "lsearch0::epsilon", 1e-6), n, aug);
}
} // namespace

std::string vh::execute(toks_t& t, std::string& aug)
{
    const auto fam = t.s();
    const auto op  = t.s();
    if (fam == "solver" && op == "list")
    {
        return vs::list_functions();
    }
    if (fam == "ls0" && op == "run")
    {
        return ls0_run(t, aug);
    }
    if (fam == "ls0" && op == "glue")
    {
        return ls0_glue(t, aug);
    }
    if (fam == "ls0" && op == "hist")
    {
        return ls0_hist(t, aug);
    }
    if (fam != "solver" || op != "run")
    {
        throw bad_op("unknown op");
    }
    auto r = vs::run(t);
    if (r.solver->type() != solver_type::line_search)
    {
        throw bad_op("not a line-search solver");
    }
    const auto  n      = static_cast<size_t>(r.problem.plain->size());
    const auto& solver = *r.solver;

    // effective parameters
    const auto eps       = solver.parameter("solver::epsilon").value<scalar_t>();
    const auto max_evals = solver.parameter("solver::max_evals").value<tensor_size_t>();
    long long  history   = 0;
    long long  scaled    = 0;
    double     sr1r = 0.0, orthotest = 0.0, eta = 0.0;
    if (r.sid == "lbfgs")
    {
        history = solver.parameter("solver::lbfgs::history").value<tensor_size_t>();
    }
    if (r.sid == "bfgs" || r.sid == "dfp" || r.sid == "sr1" || r.sid == "hoshino" || r.sid == "fletcher")
    {
        scaled = solver.parameter("solver::quasi::initialization").value<quasi_initialization>() == quasi_initialization::scaled;
    }
    if (r.sid == "sr1")
    {
        sr1r = solver.parameter("solver::quasi::sr1::r").value<scalar_t>();
    }
    if (r.sid.rfind("cgd-", 0) == 0)
    {
        orthotest = solver.parameter("solver::cgd::orthotest").value<scalar_t>();
    }
    if (r.sid == "cgd-n")
    {
        eta = solver.parameter("solver::cgdN::eta").value<scalar_t>();
    }

    // split the records: done0, (begin, end, done)*
    std::vector<const record_t*> begins, ends, dones;
    for (const auto& rec : r.records)
    {
        if (rec.tag == "lsearch.begin")
        {
            begins.push_back(&rec);
        }
        else if (rec.tag == "lsearch.end")
        {
            ends.push_back(&rec);
        }
        else if (rec.tag == "solver.done")
        {
            dones.push_back(&rec);
        }
    }
    if (dones.empty() || begins.size() != ends.size() || dones.size() != begins.size() + 1)
    {
        return "trace-shape " + std::to_string(begins.size()) + " " + std::to_string(ends.size()) + " " +
               std::to_string(dones.size());
    }
    const auto iters  = begins.size();
    const auto logged = std::min(iters, max_logged);

    // sizes of the records: begin = x(n+1) g(n+1) f d(n+1) tlast ; end = t0 ok t x(n+1) g(n+1) f ;
    // done = iter_ok converged valid fx gtest fcalls gcalls x(n+1) gx(n+1)
    const auto& st = r.state;
    out_t       res;
    res << "ok" << static_cast<long long>(st.status()) << r.log->units << st.fcalls() << st.gcalls();
    put_vec(res, st.x().data(), static_cast<size_t>(st.x().size()));
    res << st.fx();
    put_vec(res, st.gx().data(), static_cast<size_t>(st.gx().size()));
    res << r.fr;
    put_vec(res, r.gr.data(), r.gr.size());
    res << r.monitor_checked << r.monitor_bad;
    res << "T" << static_cast<long long>(iters) << static_cast<long long>(logged);

    out_t a;
    a << aug << "|" << static_cast<long long>(n) << eps << static_cast<long long>(max_evals) << history << scaled << sr1r
      << orthotest << eta << static_cast<long long>(iters) << static_cast<long long>(logged);
    {
        const auto& d0 = dones[0]->v;
        a << "I";
        put_vec(a, &d0[8], n);
        a << d0[3];
        put_vec(a, &d0[8 + n + 1], n);
        a << static_cast<long long>(d0[5]) << static_cast<long long>(d0[6]);
    }
    for (size_t k = 0; k < logged; ++k)
    {
        const auto& b = begins[k]->v;
        const auto& e = ends[k]->v;
        const auto& d = dones[k + 1]->v;
        if (b.size() != 3 * (n + 1) + 2 || e.size() != 3 + 2 * (n + 1) + 1 || d.size() != 7 + 2 * (n + 1))
        {
            return "trace-record-size";
        }
        const double* dir = &b[2 * (n + 1) + 1 + 1];
        put_vec(res, dir, n);
        res << static_cast<long long>(d[1]) << static_cast<long long>(d[2]) << d[4] << static_cast<long long>(e[1]);
        put_vec(res, &e[4], n);

        put_vec(a, &b[1], n);
        put_vec(a, &b[n + 2], n);
        a << b[2 * (n + 1)];
        put_vec(a, dir, n);
        a << e[0] << static_cast<long long>(e[1]) << e[2];
        put_vec(a, &e[4], n);
        put_vec(a, &e[4 + n + 1], n);
        a << e[4 + 2 * (n + 1) - 1];
        a << static_cast<long long>(d[0]) << static_cast<long long>(d[5]) << static_cast<long long>(d[6]);
    }
    aug = a.str();
    return res.str();
}

int main()
{
    return vh::main_loop();
}
