// C01 harness: runs one line-search solver (gd, 10 cgd variants, lbfgs, 5 quasi-Newton) on the function of the op line with
// the trace hooks of lsearch_t::get / solver_t::done installed and the user function wrapped by an independent
// counting/logging wrapper.
//
//   R ok <status> <wrapper units> <fcalls> <gcalls> <x> <fx> <gx> <fr> <gr> <monitor checked> <monitor bad>
//        T <iterations> <logged> { <d> <converged> <valid> <gtest> <ok> <x after the line search> }*logged
//   A <op line> | <n> <eps> <max_evals> <history> <scaled> <sr1 r> <orthotest> <eta> <total iterations> <logged>
//        I <x0> <f0> <g0> <fcalls> <gcalls>
//        { <x> <g> <f> <d> <t0> <ok> <t> <x'> <g'> <f'> <iter_ok> <fcalls> <gcalls> }*logged
// (fr, gr: the plain function re-evaluated at the returned point; the A line carries the oracle answers the model replays)
#include "c01_common.h"
#include <solver/quasi.h>

using namespace vs;

namespace
{
constexpr size_t max_logged = 60;

void put_vec(out_t& out, const double* v, size_t n)
{
    out << static_cast<long long>(n);
    for (size_t i = 0; i < n; ++i)
    {
        out << v[i];
    }
}
} // namespace

std::string vh::execute(toks_t& t, std::string& aug)
{
    const auto fam = t.s();
    const auto op  = t.s();
    if (fam == "solver" && op == "list")
    {
        return vs::list_functions();
    }
    if (fam != "solver" || op != "run")
    {
        throw bad_op("unknown op");
    }
    auto r = vs::run(t);
    if (r.solver->type() != solver_type::line_search)
    {
        throw bad_op("not a line-search solver");
    }
    const auto  n      = static_cast<size_t>(r.problem.plain->size());
    const auto& solver = *r.solver;

    // effective parameters
    const auto eps       = solver.parameter("solver::epsilon").value<scalar_t>();
    const auto max_evals = solver.parameter("solver::max_evals").value<tensor_size_t>();
    long long  history   = 0;
    long long  scaled    = 0;
    double     sr1r = 0.0, orthotest = 0.0, eta = 0.0;
    if (r.sid == "lbfgs")
    {
        history = solver.parameter("solver::lbfgs::history").value<tensor_size_t>();
    }
    if (r.sid == "bfgs" || r.sid == "dfp" || r.sid == "sr1" || r.sid == "hoshino" || r.sid == "fletcher")
    {
        scaled = solver.parameter("solver::quasi::initialization").value<quasi_initialization>() == quasi_initialization::scaled;
    }
    if (r.sid == "sr1")
    {
        sr1r = solver.parameter("solver::quasi::sr1::r").value<scalar_t>();
    }
    if (r.sid.rfind("cgd-", 0) == 0)
    {
        orthotest = solver.parameter("solver::cgd::orthotest").value<scalar_t>();
    }
    if (r.sid == "cgd-n")
    {
        eta = solver.parameter("solver::cgdN::eta").value<scalar_t>();
    }

    // split the records: done0, (begin, end, done)*
    std::vector<const record_t*> begins, ends, dones;
    for (const auto& rec : r.records)
    {
        if (rec.tag == "lsearch.begin")
        {
            begins.push_back(&rec);
        }
        else if (rec.tag == "lsearch.end")
        {
            ends.push_back(&rec);
        }
        else if (rec.tag == "solver.done")
        {
            dones.push_back(&rec);
        }
    }
    if (dones.empty() || begins.size() != ends.size() || dones.size() != begins.size() + 1)
    {
        return "trace-shape " + std::to_string(begins.size()) + " " + std::to_string(ends.size()) + " " +
               std::to_string(dones.size());
    }
    const auto iters  = begins.size();
    const auto logged = std::min(iters, max_logged);

    // sizes of the records: begin = x(n+1) g(n+1) f d(n+1) tlast ; end = t0 ok t x(n+1) g(n+1) f ;
    // done = iter_ok converged valid fx gtest fcalls gcalls x(n+1) gx(n+1)
    const auto& st = r.state;
    out_t       res;
    res << "ok" << static_cast<long long>(st.status()) << r.log->units << st.fcalls() << st.gcalls();
    put_vec(res, st.x().data(), static_cast<size_t>(st.x().size()));
    res << st.fx();
    put_vec(res, st.gx().data(), static_cast<size_t>(st.gx().size()));
    res << r.fr;
    put_vec(res, r.gr.data(), r.gr.size());
    res << r.monitor_checked << r.monitor_bad;
    res << "T" << static_cast<long long>(iters) << static_cast<long long>(logged);

    out_t a;
    a << aug << "|" << static_cast<long long>(n) << eps << static_cast<long long>(max_evals) << history << scaled << sr1r
      << orthotest << eta << static_cast<long long>(iters) << static_cast<long long>(logged);
    {
        const auto& d0 = dones[0]->v;
        a << "I";
        put_vec(a, &d0[8], n);
        a << d0[3];
        put_vec(a, &d0[8 + n + 1], n);
        a << static_cast<long long>(d0[5]) << static_cast<long long>(d0[6]);
    }
    for (size_t k = 0; k < logged; ++k)
    {
        const auto& b = begins[k]->v;
        const auto& e = ends[k]->v;
        const auto& d = dones[k + 1]->v;
        if (b.size() != 3 * (n + 1) + 2 || e.size() != 3 + 2 * (n + 1) + 1 || d.size() != 7 + 2 * (n + 1))
        {
            return "trace-record-size";
        }
        const double* dir = &b[2 * (n + 1) + 1 + 1];
        put_vec(res, dir, n);
        res << static_cast<long long>(d[1]) << static_cast<long long>(d[2]) << d[4] << static_cast<long long>(e[1]);
        put_vec(res, &e[4], n);

        put_vec(a, &b[1], n);
        put_vec(a, &b[n + 2], n);
        a << b[2 * (n + 1)];
        put_vec(a, dir, n);
        a << e[0] << static_cast<long long>(e[1]) << e[2];
        put_vec(a, &e[4], n);
        put_vec(a, &e[4 + n + 1], n);
        a << e[4 + 2 * (n + 1) - 1];
        a << static_cast<long long>(d[0]) << static_cast<long long>(d[5]) << static_cast<long long>(d[6]);
    }
    aug = a.str();
    return res.str();
}

int main()
{
    return vh::main_loop();
}
