// C15 harness: binary serialization (nano::read / nano::write) of tensors, parameters, configurables, features,
// factory objects (solver, loss, splitter, tuner, lsearch0, lsearchk, linear), weak learners and gradient boosting
// models on the real libnano code.
//
// One self-contained op per line (family `codec`):
//   codec obj <spec...>                                   build an object, serialize, re-read, try every strict prefix
//   codec corrupt <type> <rank> <dims> <seed> <mode> [m]  single byte corruptions of a tensor stream
//   codec read <fmt...> x<hex> [extra...]                 read exactly these bytes (the input-level replay op); an extra
//                                                         token `dirty=x<hex>` is a valid stream of the same format that is
//                                                         read into the destination FIRST (previously used destination)
//   codec into <specA...> // <specB...>                   serialize A and B (same format), read B's stream into an object
//                                                         and then A's stream (and every strict prefix of it) into the
//                                                         SAME, used object: the result must be exactly A
//   codec scalar <type> <value>                           nano::write / nano::read / detail::hash of ONE scalar: the
//                                                         endianness / width / sign-extension self-test
// Bytes travel as `x<lowercase hex>`, doubles as the 16 hex digits of their bit pattern (never `nan`).
// In `codec obj` an id token `@<k>` stands for the k-th id (modulo their number) of the factory; the augmented line
// of factory / wlearner / linear objects ends with `id=<resolved id>`, the one of gboost with `ids=<id1>,<id2>,...`.
// A read attempt that kills the process leaves one line `C15-REPLAY codec read <fmt> x<hex>` on stderr.
#include "common.h"

#include <algorithm>
#include <array>
#include <csignal>
#include <cstdlib>
#include <filesystem>
#include <functional>
#include <limits>
#include <memory>
#include <set>
#include <unistd.h>
#include <variant>

#include <nano/configurable.h>
#include <nano/dataset.h>
#include <nano/dataset/iterator.h>
#include <nano/datasource.h>
#include <nano/program/solver.h>
#include <nano/feature.h>
#include <nano/gboost/model.h>
#include <nano/generator/elemwise_identity.h>
#include <nano/linear.h>
#include <nano/loss.h>
#include <nano/lsearch0.h>
#include <nano/lsearchk.h>
#include <nano/machine/params.h>
#include <nano/solver.h>
#include <nano/splitter.h>
#include <nano/tensor/stream.h>
#include <nano/tuner.h>
#include <nano/wlearner.h>
#include <nano/wlearner/affine.h>
#include <nano/wlearner/dtree.h>
#include <nano/wlearner/hinge.h>
#include <nano/wlearner/stump.h>
#include <nano/wlearner/table.h>

#if defined(__SANITIZE_ADDRESS__)
#define C15_ASAN 1
#elif defined(__has_feature)
#if __has_feature(address_sanitizer)
#define C15_ASAN 1
#endif
#endif

#ifdef C15_ASAN
#include <sanitizer/common_interface_defs.h>
#endif

using namespace nano;
using vh::bad_op;
using vh::toks_t;

namespace
{
// ---- access to private members with the explicit-instantiation idiom (standard conforming) ---------------------------
template <class ttag, typename ttag::type tmember>
struct rob_t
{
    friend typename ttag::type steal(ttag) { return tmember; }
};

struct learner_inputs_tag
{
    using type = features_t learner_t::*;
    friend type steal(learner_inputs_tag);
};

struct learner_target_tag
{
    using type = feature_t learner_t::*;
    friend type steal(learner_target_tag);
};

struct param_storage_tag
{
    using type = parameter_t::storage_t parameter_t::*;
    friend type steal(param_storage_tag);
};

template struct rob_t<learner_inputs_tag, &learner_t::m_inputs>;
template struct rob_t<learner_target_tag, &learner_t::m_target>;
template struct rob_t<param_storage_tag, &parameter_t::m_storage>;

// ---- crash replay --------------------------------------------------------------------------------------------------
// the read attempt in progress (format text + bytes); read by the signal handlers / sanitizer death callback only
const char* volatile          g_fmt    = nullptr;
volatile size_t               g_fmtlen = 0U;
const unsigned char* volatile g_bytes  = nullptr;
volatile size_t               g_nbytes = 0U;
volatile sig_atomic_t         g_reading = 0;
volatile sig_atomic_t         g_printed = 0;

void write_all(const char* data, size_t size) noexcept
{
    while (size > 0U)
    {
        const auto ret = ::write(2, data, size);
        if (ret <= 0)
        {
            return;
        }
        data += ret;
        size -= static_cast<size_t>(ret);
    }
}

// async-signal-safe: only write(2) and stack buffers
void print_replay() noexcept
{
    if (g_reading == 0 || g_printed != 0)
    {
        return;
    }
    g_printed = 1;

    static const char head[] = "C15-REPLAY codec read ";
    write_all(head, sizeof(head) - 1U);
    write_all(g_fmt, g_fmtlen);
    write_all(" x", 2U);

    static const char    digits[] = "0123456789abcdef";
    char                 buffer[1024];
    size_t               used  = 0U;
    const unsigned char* bytes = g_bytes;
    const size_t         size  = g_nbytes;
    for (size_t i = 0U; i < size; ++i)
    {
        buffer[used++] = digits[bytes[i] >> 4U];
        buffer[used++] = digits[bytes[i] & 15U];
        if (used == sizeof(buffer))
        {
            write_all(buffer, used);
            used = 0U;
        }
    }
    write_all(buffer, used);
    write_all("\n", 1U);
}

extern "C" void on_fatal_signal(int sig)
{
    print_replay();
    ::signal(sig, SIG_DFL);
    if (sig == SIGABRT)
    {
        ::_exit(134);
    }
    ::raise(sig);
}

#ifdef C15_ASAN
extern "C" void on_sanitizer_death()
{
    print_replay();
}
#endif

void install_handlers()
{
    static std::array<char, 1U << 16U> altstack;

    stack_t ss{};
    ss.ss_sp   = altstack.data();
    ss.ss_size = altstack.size();
    ::sigaltstack(&ss, nullptr);

    struct sigaction sa
    {
    };
    sa.sa_handler = on_fatal_signal;
    sa.sa_flags   = SA_ONSTACK;
    ::sigemptyset(&sa.sa_mask);

    ::sigaction(SIGABRT, &sa, nullptr);
#ifdef C15_ASAN
    // the sanitizer runtime owns SIGSEGV/SIGBUS/SIGFPE (it prints its report and then calls the death callback)
    __sanitizer_set_death_callback(on_sanitizer_death);
#else
    ::sigaction(SIGSEGV, &sa, nullptr);
    ::sigaction(SIGFPE, &sa, nullptr);
    ::sigaction(SIGBUS, &sa, nullptr);
#endif
}

struct replay_guard_t
{
    replay_guard_t(const std::string& fmt, const std::string& bytes)
    {
        g_fmt     = fmt.data();
        g_fmtlen  = fmt.size();
        g_bytes   = reinterpret_cast<const unsigned char*>(bytes.data()); // NOLINT
        g_nbytes  = bytes.size();
        g_reading = 1;
    }

    replay_guard_t(const replay_guard_t&)            = delete;
    replay_guard_t& operator=(const replay_guard_t&) = delete;

    ~replay_guard_t()
    {
        g_reading = 0;
        g_fmt     = nullptr;
        g_fmtlen  = 0U;
        g_bytes   = nullptr;
        g_nbytes  = 0U;
    }
};

// ---- scratch directory for the log files ml::tune writes (std::filesystem::temp_directory_path honours TMPDIR) ------
std::string g_tmpdir;

void ensure_tmpdir()
{
    if (!g_tmpdir.empty())
    {
        return;
    }
    auto templ = (std::filesystem::temp_directory_path() / "c15h-XXXXXX").string();
    if (::mkdtemp(templ.data()) == nullptr)
    {
        throw std::logic_error("cannot create the scratch directory");
    }
    g_tmpdir = templ;
    ::setenv("TMPDIR", g_tmpdir.c_str(), 1);
}

void clean_tmpdir()
{
    if (g_tmpdir.empty())
    {
        return;
    }
    std::error_code ec;
    for (const auto& entry : std::filesystem::directory_iterator(g_tmpdir, ec))
    {
        std::error_code ec2;
        std::filesystem::remove_all(entry.path(), ec2);
    }
}

void remove_tmpdir()
{
    if (!g_tmpdir.empty())
    {
        std::error_code ec;
        std::filesystem::remove_all(g_tmpdir, ec);
        g_tmpdir.clear();
    }
}

// ---- small utilities -----------------------------------------------------------------------------------------------
struct rng_t
{
    explicit rng_t(const uint64_t seed)
        : m_state(seed)
    {
    }

    uint64_t next() // splitmix64
    {
        m_state += 0x9e3779b97f4a7c15ULL;
        uint64_t z = m_state;
        z          = (z ^ (z >> 30U)) * 0xbf58476d1ce4e5b9ULL;
        z          = (z ^ (z >> 27U)) * 0x94d049bb133111ebULL;
        return z ^ (z >> 31U);
    }

    uint64_t below(const uint64_t n) { return n == 0U ? 0U : next() % n; }

    int64_t range(const int64_t lo, const int64_t hi) // inclusive
    {
        const auto width = static_cast<uint64_t>(hi) - static_cast<uint64_t>(lo) + 1U;
        return static_cast<int64_t>(static_cast<uint64_t>(lo) + (width == 0U ? next() : below(width)));
    }

    double unit() { return static_cast<double>(next() >> 11U) * 0x1.0p-53; } // [0, 1)

    double uniform(const double lo, const double hi) { return lo + (hi - lo) * unit(); }

    bool chance(const uint64_t one_in) { return below(one_in) == 0U; }

    uint64_t m_state;
};

const char* const hex_digits = "0123456789abcdef";

std::string xhex(const void* data, const size_t size)
{
    std::string ret;
    ret.reserve(1U + 2U * size);
    ret.push_back('x');
    const auto* bytes = static_cast<const unsigned char*>(data);
    for (size_t i = 0U; i < size; ++i)
    {
        ret.push_back(hex_digits[bytes[i] >> 4U]);
        ret.push_back(hex_digits[bytes[i] & 15U]);
    }
    return ret;
}

std::string xhex(const std::string& bytes)
{
    return xhex(bytes.data(), bytes.size());
}

int hexval(const char c)
{
    if (c >= '0' && c <= '9')
    {
        return c - '0';
    }
    if (c >= 'a' && c <= 'f')
    {
        return c - 'a' + 10;
    }
    if (c >= 'A' && c <= 'F')
    {
        return c - 'A' + 10;
    }
    return -1;
}

std::string unhex(const std::string& token)
{
    if (token.empty() || token[0] != 'x' || (token.size() % 2U) != 1U)
    {
        throw bad_op("bad byte string");
    }
    std::string ret;
    ret.reserve(token.size() / 2U);
    for (size_t i = 1U; i < token.size(); i += 2U)
    {
        const auto hi = hexval(token[i]);
        const auto lo = hexval(token[i + 1U]);
        if (hi < 0 || lo < 0)
        {
            throw bad_op("bad byte string");
        }
        ret.push_back(static_cast<char>(hi * 16 + lo));
    }
    return ret;
}

std::string h16(const uint64_t value)
{
    char buffer[32];
    std::snprintf(buffer, sizeof(buffer), "%016llx", static_cast<unsigned long long>(value));
    return buffer;
}

std::string dbits(const double value)
{
    uint64_t bits = 0U;
    std::memcpy(&bits, &value, sizeof(bits));
    return h16(bits);
}

uint64_t fnv64(const void* data, const size_t size)
{
    uint64_t    hash  = 0xcbf29ce484222325ULL;
    const auto* bytes = static_cast<const unsigned char*>(data);
    for (size_t i = 0U; i < size; ++i)
    {
        hash ^= bytes[i];
        hash *= 0x100000001b3ULL;
    }
    return hash;
}

struct dump_t
{
    dump_t& t(const std::string& token)
    {
        if (!m_text.empty())
        {
            m_text.push_back(' ');
        }
        m_text += token;
        return *this;
    }

    dump_t& t(const char* token) { return t(std::string(token)); }

    template <class tint, std::enable_if_t<std::is_integral_v<tint>, bool> = true>
    dump_t& i(const tint value)
    {
        if constexpr (std::is_signed_v<tint>)
        {
            return t(std::to_string(static_cast<long long>(value)));
        }
        else
        {
            return t(std::to_string(static_cast<unsigned long long>(value)));
        }
    }

    dump_t& d(const double value) { return t(dbits(value)); }

    dump_t& b(const std::string& bytes) { return t(xhex(bytes)); }

    std::string m_text;
};

int64_t to_seed(toks_t& toks)
{
    return toks.i64();
}

uint64_t mix_seed(const int64_t seed, const uint64_t salt)
{
    return static_cast<uint64_t>(seed) * 0x9e3779b97f4a7c15ULL + salt;
}

// ---- dumps (the same functions are used for the original and for the re-read object) ------------------------------
template <template <class, size_t> class tstorage, class tscalar, size_t trank>
void dump_tensor(dump_t& out, const tensor_t<tstorage, tscalar, trank>& tensor)
{
    out.t("T").i(trank);
    for (const auto dim : tensor.dims())
    {
        out.i(dim);
    }
    const auto size   = tensor.size();
    const auto nbytes = static_cast<long long>(size) * static_cast<long long>(sizeof(tscalar));
    out.i(nbytes);
    out.t(h16(fnv64(tensor.data(), nbytes > 0 ? static_cast<size_t>(nbytes) : 0U)));
}

int flag(const LEorLT& comp)
{
    return std::holds_alternative<LE_t>(comp) ? 1 : 0;
}

void dump_param(dump_t& out, const parameter_t& param)
{
    out.t("P").b(param.name());
    std::visit(overloaded{[&](const std::monostate&) { out.i(-1); },
                          [&](const parameter_t::enum_t& p)
                          {
                              out.i(0).b(p.m_value).i(p.m_domain.size());
                              for (const auto& value : p.m_domain)
                              {
                                  out.b(value);
                              }
                          },
                          [&](const parameter_t::irange_t& p)
                          { out.i(1).i(p.m_value).i(p.m_min).i(p.m_max).i(flag(p.m_mincomp)).i(flag(p.m_maxcomp)); },
                          [&](const parameter_t::frange_t& p)
                          { out.i(2).d(p.m_value).d(p.m_min).d(p.m_max).i(flag(p.m_mincomp)).i(flag(p.m_maxcomp)); },
                          [&](const parameter_t::iprange_t& p)
                          {
                              out.i(3).i(p.m_value1).i(p.m_value2).i(p.m_min).i(p.m_max);
                              out.i(flag(p.m_mincomp)).i(flag(p.m_maxcomp)).i(flag(p.m_valcomp));
                          },
                          [&](const parameter_t::fprange_t& p)
                          {
                              out.i(4).d(p.m_value1).d(p.m_value2).d(p.m_min).d(p.m_max);
                              out.i(flag(p.m_mincomp)).i(flag(p.m_maxcomp)).i(flag(p.m_valcomp));
                          },
                          [&](const string_t& p) { out.i(5).b(p); }},
               param.storage());
}

void dump_config(dump_t& out, const configurable_t& config)
{
    out.t("C").i(config.major_version()).i(config.minor_version()).i(config.patch_version());
    out.i(config.parameters().size());
    for (const auto& param : config.parameters())
    {
        dump_param(out, param);
    }
}

void dump_feature(dump_t& out, const feature_t& feature)
{
    const auto dims = feature.dims();
    out.t("E").i(static_cast<int>(feature.type())).i(dims[0]).i(dims[1]).i(dims[2]).b(feature.name());
    out.i(feature.labels().size());
    for (const auto& label : feature.labels())
    {
        out.b(label);
    }
}

void dump_learner(dump_t& out, const learner_t& learner)
{
    const auto& inputs = learner.*steal(learner_inputs_tag{});
    const auto& target = learner.*steal(learner_target_tag{});

    out.t("L");
    dump_config(out, learner);
    out.i(inputs.size());
    for (const auto& feature : inputs)
    {
        dump_feature(out, feature);
    }
    dump_feature(out, target);
}

void dump_wlearner(dump_t& out, const wlearner_t& wlearner)
{
    out.t("W").b(wlearner.type_id());
    if (const auto* const affine = dynamic_cast<const affine_wlearner_t*>(&wlearner); affine != nullptr)
    {
        out.t("A");
        dump_learner(out, *affine);
        out.i(affine->feature());
        dump_tensor(out, affine->tables());
    }
    else if (const auto* const stump = dynamic_cast<const stump_wlearner_t*>(&wlearner); stump != nullptr)
    {
        out.t("S");
        dump_learner(out, *stump);
        out.i(stump->feature());
        dump_tensor(out, stump->tables());
        out.d(stump->threshold());
    }
    else if (const auto* const hinge = dynamic_cast<const hinge_wlearner_t*>(&wlearner); hinge != nullptr)
    {
        out.t("H");
        dump_learner(out, *hinge);
        out.i(hinge->feature());
        dump_tensor(out, hinge->tables());
        out.d(hinge->threshold());
        out.i(static_cast<int>(hinge->hinge()));
    }
    else if (const auto* const table = dynamic_cast<const table_wlearner_t*>(&wlearner); table != nullptr)
    {
        out.t("B");
        dump_learner(out, *table);
        out.i(table->feature());
        dump_tensor(out, table->tables());
        dump_tensor(out, table->hashes());
        dump_tensor(out, table->hash2tables());
    }
    else if (const auto* const dtree = dynamic_cast<const dtree_wlearner_t*>(&wlearner); dtree != nullptr)
    {
        out.t("D");
        dump_learner(out, *dtree);
        out.i(dtree->nodes().size());
        for (const auto& node : dtree->nodes())
        {
            out.i(node.m_feature).d(node.m_threshold).i(node.m_next).i(node.m_table);
        }
        dump_tensor(out, dtree->features()); // NB: returns exactly the private member `m_features`
        dump_tensor(out, dtree->tables());
    }
    else
    {
        throw std::logic_error("unknown weak learner type");
    }
}

void dump_wlearners(dump_t& out, const rwlearners_t& wlearners)
{
    out.i(wlearners.size());
    for (const auto& wlearner : wlearners)
    {
        if (wlearner)
        {
            dump_wlearner(out, *wlearner);
        }
        else
        {
            out.t("NULL");
        }
    }
}

void dump_gboost(dump_t& out, const gboost_model_t& model)
{
    out.t("G");
    dump_learner(out, model);
    dump_tensor(out, model.bias());
    dump_wlearners(out, model.wlearners());
    dump_wlearners(out, model.prototypes());
}

bool same_params(const configurable_t& lhs, const configurable_t& rhs)
{
    const auto& lparams = lhs.parameters();
    const auto& rparams = rhs.parameters();
    if (lparams.size() != rparams.size())
    {
        return false;
    }
    for (size_t i = 0U; i < lparams.size(); ++i)
    {
        if (!(lparams[i] == rparams[i]))
        {
            return false;
        }
    }
    return true;
}

// ---- type-erased serializable values --------------------------------------------------------------------------------
struct value_i
{
    value_i()                          = default;
    value_i(const value_i&)            = delete;
    value_i& operator=(const value_i&) = delete;
    virtual ~value_i()                 = default;

    virtual void read(std::istream&)        = 0;
    virtual void write(std::ostream&) const = 0;
    virtual void dump(dump_t&) const        = 0;
    virtual bool equal(const value_i&) const = 0;

    // false for a null factory object (never dumped: that case is "reject")
    virtual bool valid() const { return true; }

    // returns the learner to evaluate predictions with (if any)
    virtual const learner_t* learner() const { return nullptr; }
};

using rvalue_t = std::unique_ptr<value_i>;

template <class tscalar, size_t trank>
struct tensor_value_t final : value_i
{
    void read(std::istream& stream) override { ::nano::read(stream, m_tensor); }

    void write(std::ostream& stream) const override { ::nano::write(stream, m_tensor); }

    void dump(dump_t& out) const override { dump_tensor(out, m_tensor); }

    bool equal(const value_i& other) const override
    {
        const auto* const rhs = dynamic_cast<const tensor_value_t*>(&other);
        if (rhs == nullptr || m_tensor.dims() != rhs->m_tensor.dims())
        {
            return false;
        }
        const auto size = m_tensor.size();
        return size <= 0 ||
               std::memcmp(m_tensor.data(), rhs->m_tensor.data(), static_cast<size_t>(size) * sizeof(tscalar)) == 0;
    }

    tensor_mem_t<tscalar, trank> m_tensor;
};

struct param_value_t final : value_i
{
    void read(std::istream& stream) override { m_param.read(stream); }

    void write(std::ostream& stream) const override { m_param.write(stream); }

    void dump(dump_t& out) const override { dump_param(out, m_param); }

    bool equal(const value_i& other) const override
    {
        const auto* const rhs = dynamic_cast<const param_value_t*>(&other);
        return rhs != nullptr && m_param == rhs->m_param;
    }

    parameter_t m_param;
};

struct config_value_t final : value_i
{
    void read(std::istream& stream) override { m_config.read(stream); }

    void write(std::ostream& stream) const override { m_config.write(stream); }

    void dump(dump_t& out) const override { dump_config(out, m_config); }

    bool equal(const value_i& other) const override
    {
        const auto* const rhs = dynamic_cast<const config_value_t*>(&other);
        return rhs != nullptr && same_params(m_config, rhs->m_config);
    }

    configurable_t m_config;
};

struct feature_value_t final : value_i
{
    void read(std::istream& stream) override { m_feature.read(stream); }

    void write(std::ostream& stream) const override { m_feature.write(stream); }

    void dump(dump_t& out) const override { dump_feature(out, m_feature); }

    bool equal(const value_i& other) const override
    {
        const auto* const rhs = dynamic_cast<const feature_value_t*>(&other);
        return rhs != nullptr && m_feature == rhs->m_feature;
    }

    feature_t m_feature;
};

// `nano::read/write(std::string)` and `std::vector<std::string>` (core/stream.h) on their own
struct string_value_t final : value_i
{
    void read(std::istream& stream) override { ::nano::read(stream, m_string); }

    void write(std::ostream& stream) const override { ::nano::write(stream, m_string); }

    void dump(dump_t& out) const override { out.t("STR").b(m_string); }

    bool equal(const value_i& other) const override
    {
        const auto* const rhs = dynamic_cast<const string_value_t*>(&other);
        return rhs != nullptr && m_string == rhs->m_string;
    }

    std::string m_string;
};

struct strings_value_t final : value_i
{
    void read(std::istream& stream) override { ::nano::read(stream, m_strings); }

    void write(std::ostream& stream) const override { ::nano::write(stream, m_strings); }

    void dump(dump_t& out) const override
    {
        out.t("STRS").i(m_strings.size());
        for (const auto& string : m_strings)
        {
            out.b(string);
        }
    }

    bool equal(const value_i& other) const override
    {
        const auto* const rhs = dynamic_cast<const strings_value_t*>(&other);
        return rhs != nullptr && m_strings == rhs->m_strings;
    }

    strings_t m_strings;
};

template <class tobject>
struct factory_value_t final : value_i
{
    void read(std::istream& stream) override { ::nano::read(stream, m_object); }

    void write(std::ostream& stream) const override { ::nano::write(stream, m_object); }

    bool valid() const override { return static_cast<bool>(m_object); }

    void dump(dump_t& out) const override
    {
        if constexpr (std::is_same_v<tobject, wlearner_t>)
        {
            dump_wlearner(out, *m_object);
        }
        else
        {
            out.t("F").b(m_object->type_id());
            if constexpr (std::is_same_v<tobject, linear_t>)
            {
                out.t("LIN");
                dump_learner(out, *m_object);
                dump_tensor(out, m_object->bias());
                dump_tensor(out, m_object->weights());
            }
            else
            {
                dump_config(out, *m_object);
            }
        }
    }

    bool equal(const value_i& other) const override
    {
        const auto* const rhs = dynamic_cast<const factory_value_t*>(&other);
        return rhs != nullptr && m_object && rhs->m_object && same_params(*m_object, *rhs->m_object);
    }

    const learner_t* learner() const override
    {
        if constexpr (std::is_base_of_v<learner_t, tobject>)
        {
            return m_object.get();
        }
        else
        {
            return nullptr;
        }
    }

    std::unique_ptr<tobject> m_object;
};

struct gboost_value_t final : value_i
{
    void read(std::istream& stream) override { m_model.read(stream); }

    void write(std::ostream& stream) const override { m_model.write(stream); }

    void dump(dump_t& out) const override { dump_gboost(out, m_model); }

    bool equal(const value_i& other) const override
    {
        const auto* const rhs = dynamic_cast<const gboost_value_t*>(&other);
        return rhs != nullptr && same_params(m_model, rhs->m_model);
    }

    const learner_t* learner() const override { return &m_model; }

    gboost_model_t m_model;
};

// ---- dispatch over the 50 tensor instantiations and the factories ---------------------------------------------------
template <class tscalar, size_t trank>
struct ttag_t
{
    using scalar                 = tscalar;
    static constexpr size_t rank = trank;
};

template <class tscalar, class tfun>
auto with_rank(const int64_t rank, const tfun& fun)
{
    switch (rank)
    {
    case 1: return fun(ttag_t<tscalar, 1>{});
    case 2: return fun(ttag_t<tscalar, 2>{});
    case 3: return fun(ttag_t<tscalar, 3>{});
    case 4: return fun(ttag_t<tscalar, 4>{});
    case 5: return fun(ttag_t<tscalar, 5>{});
    default: throw bad_op("tensor rank");
    }
}

template <class tfun>
auto with_tensor(const std::string& type, const int64_t rank, const tfun& fun)
{
    if (type == "i8") return with_rank<int8_t>(rank, fun);
    if (type == "i16") return with_rank<int16_t>(rank, fun);
    if (type == "i32") return with_rank<int32_t>(rank, fun);
    if (type == "i64") return with_rank<int64_t>(rank, fun);
    if (type == "u8") return with_rank<uint8_t>(rank, fun);
    if (type == "u16") return with_rank<uint16_t>(rank, fun);
    if (type == "u32") return with_rank<uint32_t>(rank, fun);
    if (type == "u64") return with_rank<uint64_t>(rank, fun);
    if (type == "f32") return with_rank<float>(rank, fun);
    if (type == "f64") return with_rank<double>(rank, fun);
    throw bad_op("tensor type");
}

template <class tobject>
struct otag_t
{
    using object = tobject;
};

template <class tfun>
auto with_factory(const std::string& which, const tfun& fun)
{
    if (which == "solver") return fun(otag_t<solver_t>{});
    if (which == "loss") return fun(otag_t<loss_t>{});
    if (which == "splitter") return fun(otag_t<splitter_t>{});
    if (which == "tuner") return fun(otag_t<tuner_t>{});
    if (which == "lsearch0") return fun(otag_t<lsearch0_t>{});
    if (which == "lsearchk") return fun(otag_t<lsearchk_t>{});
    if (which == "linear") return fun(otag_t<linear_t>{});
    if (which == "datasource") return fun(otag_t<datasource_t>{});
    throw bad_op("unknown factory " + which);
}

// ---- format descriptors --------------------------------------------------------------------------------------------
struct fmt_t
{
    std::string               m_text;  ///< the descriptor with the real id list of the factory
    std::function<rvalue_t()> m_fresh; ///< a fresh default-constructed object to read into
};

fmt_t make_tensor_fmt(const std::string& type, const int64_t rank)
{
    fmt_t fmt;
    fmt.m_text  = "tensor " + type + " " + std::to_string(rank);
    fmt.m_fresh = with_tensor(type, rank,
                              [](const auto tag) -> std::function<rvalue_t()>
                              {
                                  using ttag = decltype(tag);
                                  return []() -> rvalue_t
                                  { return std::make_unique<tensor_value_t<typename ttag::scalar, ttag::rank>>(); };
                              });
    return fmt;
}

template <class tvalue>
fmt_t make_simple_fmt(const std::string& text)
{
    fmt_t fmt;
    fmt.m_text  = text;
    fmt.m_fresh = []() -> rvalue_t { return std::make_unique<tvalue>(); };
    return fmt;
}

fmt_t make_factory_fmt(const std::string& which)
{
    fmt_t fmt;
    fmt.m_fresh = with_factory(which,
                               [&](const auto tag) -> std::function<rvalue_t()>
                               {
                                   using tobject  = typename decltype(tag)::object;
                                   const auto ids = tobject::all().ids();
                                   fmt.m_text     = "factory " + which + " " + std::to_string(ids.size());
                                   for (const auto& id : ids)
                                   {
                                       if (id.empty() || id.find_first_of(" \t\r\n") != std::string::npos)
                                       {
                                           throw bad_op("factory id with spaces");
                                       }
                                       fmt.m_text += " " + id;
                                   }
                                   return []() -> rvalue_t { return std::make_unique<factory_value_t<tobject>>(); };
                               });
    return fmt;
}

fmt_t make_wlearner_fmt()
{
    return make_simple_fmt<factory_value_t<wlearner_t>>("wlearner");
}

fmt_t parse_fmt(toks_t& toks)
{
    const auto kind = toks.s();
    if (kind == "tensor")
    {
        const auto type = toks.s();
        const auto rank = toks.i64();
        return make_tensor_fmt(type, rank);
    }
    if (kind == "param")
    {
        return make_simple_fmt<param_value_t>("param");
    }
    if (kind == "configurable")
    {
        return make_simple_fmt<config_value_t>("configurable");
    }
    if (kind == "feature")
    {
        return make_simple_fmt<feature_value_t>("feature");
    }
    if (kind == "string")
    {
        return make_simple_fmt<string_value_t>("string");
    }
    if (kind == "strings")
    {
        return make_simple_fmt<strings_value_t>("strings");
    }
    if (kind == "factory")
    {
        const auto which = toks.s();
        const auto count = toks.i64();
        if (count < 0 || count > 10000)
        {
            throw bad_op("factory id count");
        }
        for (int64_t i = 0; i < count; ++i)
        {
            toks.s(); // the id list of the input line is informative only
        }
        return make_factory_fmt(which);
    }
    if (kind == "wlearner")
    {
        return make_wlearner_fmt();
    }
    if (kind == "gboost")
    {
        return make_simple_fmt<gboost_value_t>("gboost");
    }
    throw bad_op("unknown format " + kind);
}

// ---- one read attempt: fresh object (or a used one: `dirty` is a valid stream of the same format that is read into the
// destination first), istringstream over exactly the given bytes ------------------------------------------------------
// set by try_read when the reader left the stream good but the factory object null
bool g_null_accepted = false;

rvalue_t try_read(const fmt_t& fmt, const std::string& bytes, const std::string* dirty = nullptr)
{
    g_null_accepted = false;
    auto value      = fmt.m_fresh();
    if (dirty != nullptr)
    {
        std::istringstream stream(*dirty);
        try
        {
            value->read(stream);
        }
        catch (const std::exception&)
        {
            throw bad_op("the dirty stream is not readable");
        }
        if (!static_cast<bool>(stream) || !value->valid())
        {
            throw bad_op("the dirty stream is not readable");
        }
    }

    const replay_guard_t guard{fmt.m_text, bytes};
    std::istringstream   stream(bytes);
    try
    {
        value->read(stream);
    }
    catch (const std::exception&)
    {
        return nullptr;
    }
    if (static_cast<bool>(stream) && !value->valid())
    {
        // a good stream and a null factory object: NOT a reported failure (stream.h:168-172 must set failbit)
        g_null_accepted = true;
        return nullptr;
    }
    if (!static_cast<bool>(stream))
    {
        return nullptr;
    }
    return value;
}

std::string serialize(const value_i& value)
{
    std::ostringstream stream;
    value.write(stream);
    if (!stream)
    {
        throw std::logic_error("failed to serialize");
    }
    return stream.str();
}

// ---- random material ------------------------------------------------------------------------------------------------
const std::string name_alphabet  = "abcdefghijklmnopqrstuvwxyz:_0123456789";
const std::string label_alphabet = "abcdefghijklmnopqrstuvwxyzABCDEFGHIJKLMNOPQRSTUVWXYZ0123456789-_";

std::string rand_name(rng_t& rng, const uint64_t maxlen)
{
    std::string name(static_cast<size_t>(rng.below(maxlen + 1U)), ' ');
    for (auto& c : name)
    {
        c = name_alphabet[static_cast<size_t>(rng.below(name_alphabet.size()))];
    }
    return name;
}

std::string rand_label(rng_t& rng, const uint64_t maxlen)
{
    std::string label(static_cast<size_t>(rng.below(maxlen + 1U)), ' ');
    const auto  any_byte = rng.chance(4U);
    for (auto& c : label)
    {
        c = any_byte ? static_cast<char>(rng.below(256U))
                     : label_alphabet[static_cast<size_t>(rng.below(label_alphabet.size()))];
    }
    return label;
}

std::string rand_bytes(rng_t& rng, const uint64_t maxlen)
{
    std::string bytes(static_cast<size_t>(rng.below(maxlen + 1U)), ' ');
    for (auto& c : bytes)
    {
        c = static_cast<char>(rng.below(256U));
    }
    return bytes;
}

int64_t rand_i64(rng_t& rng) // |value| < 2^62, all magnitudes
{
    const auto bits  = 1U + rng.below(62U);
    const auto value = static_cast<int64_t>(rng.next() & ((uint64_t{1} << bits) - 1U));
    return rng.chance(2U) ? value : -value;
}

double rand_f64(rng_t& rng) // finite, all magnitudes in 2^[-20, 20], sometimes zero
{
    if (rng.chance(16U))
    {
        return rng.chance(2U) ? 0.0 : -0.0;
    }
    const auto value = std::ldexp(1.0 + rng.unit(), static_cast<int>(rng.below(41U)) - 20);
    return rng.chance(2U) ? value : -value;
}

template <class tscalar, size_t tcount, class tgenerator>
std::array<tscalar, tcount> sorted_distinct(rng_t& rng, const tgenerator& generator)
{
    std::array<tscalar, tcount> values{};
    for (int trial = 0; trial < 100; ++trial)
    {
        for (auto& value : values)
        {
            value = generator(rng);
        }
        std::sort(values.begin(), values.end());
        if (std::adjacent_find(values.begin(), values.end()) == values.end())
        {
            return values;
        }
    }
    for (size_t i = 0U; i < tcount; ++i)
    {
        values[i] = static_cast<tscalar>(i) - static_cast<tscalar>(2);
    }
    return values;
}

LEorLT rand_comp(rng_t& rng)
{
    return rng.chance(2U) ? LEorLT{LE} : LEorLT{LT};
}

bool is_le(const LEorLT& comp)
{
    return std::holds_alternative<LE_t>(comp);
}

const std::array<const char*, 7> param_variants = {"none", "enum", "irange", "frange", "iprange", "fprange", "string"};

// a parameter of the given kind: random domain and a random value inside the domain (the constructors check)
parameter_t make_param(rng_t& rng, const std::string& variant, const std::string& name)
{
    if (variant == "none")
    {
        // NB: a monostate parameter can be named only by reading it from a stream
        return parameter_t{};
    }
    if (variant == "enum")
    {
        const auto          count = 1U + rng.below(4U);
        strings_t           domain;
        std::set<string_t>  used;
        while (domain.size() < count)
        {
            auto label = rand_label(rng, 6U);
            if (used.insert(label).second)
            {
                domain.push_back(std::move(label));
            }
        }
        auto value = domain[static_cast<size_t>(rng.below(domain.size()))];

        // NB: the public interface builds enumeration parameters only from C++ enumerations
        auto param                         = parameter_t::make_string(name, "");
        param.*steal(param_storage_tag{}) = parameter_t::enum_t{std::move(value), std::move(domain)};
        return param;
    }
    // a single-point domain (min == value == max with <= on every side) is a valid parameter: it can be built, written and must
    // be read back (seeded change C15-h1: a 'corrupted stream' guard min >= max in the readers)
    if ((variant == "irange" || variant == "frange" || variant == "iprange" || variant == "fprange") && rng.chance(8U))
    {
        const auto le = ::nano::LE;
        if (variant == "irange")
        {
            const auto v = rand_i64(rng);
            return parameter_t::make_integer(name, v, le, v, le, v);
        }
        if (variant == "frange")
        {
            const auto v = rand_f64(rng);
            return parameter_t::make_scalar(name, v, le, v, le, v);
        }
        if (variant == "iprange")
        {
            const auto v = rand_i64(rng);
            return parameter_t::make_integer_pair(name, v, le, v, le, v, le, v);
        }
        const auto v = rand_f64(rng);
        return parameter_t::make_scalar_pair(name, v, le, v, le, v, le, v);
    }
    if (variant == "irange")
    {
        const auto mincomp = rand_comp(rng);
        const auto maxcomp = rand_comp(rng);
        const auto values  = sorted_distinct<int64_t, 3>(rng, rand_i64);
        auto       value   = values[1];
        if (is_le(mincomp) && rng.chance(4U))
        {
            value = values[0];
        }
        else if (is_le(maxcomp) && rng.chance(4U))
        {
            value = values[2];
        }
        return parameter_t::make_integer(name, values[0], mincomp, value, maxcomp, values[2]);
    }
    if (variant == "frange")
    {
        const auto mincomp = rand_comp(rng);
        const auto maxcomp = rand_comp(rng);
        const auto values  = sorted_distinct<double, 3>(rng, rand_f64);
        auto       min     = values[0];
        auto       max     = values[2];
        auto       value   = values[1];
        if (is_le(mincomp) && rng.chance(4U))
        {
            value = min;
        }
        else if (is_le(maxcomp) && rng.chance(4U))
        {
            value = max;
        }
        if (value != min && rng.chance(8U))
        {
            min = -std::numeric_limits<double>::infinity();
        }
        if (value != max && rng.chance(8U))
        {
            max = +std::numeric_limits<double>::infinity();
        }
        return parameter_t::make_scalar(name, min, mincomp, value, maxcomp, max);
    }
    if (variant == "iprange" || variant == "fprange")
    {
        const auto mincomp = rand_comp(rng);
        const auto valcomp = rand_comp(rng);
        const auto maxcomp = rand_comp(rng);

        const auto make = [&](auto values, const auto& maker)
        {
            auto min    = values[0];
            auto value1 = values[1];
            auto value2 = values[2];
            auto max    = values[3];
            if (is_le(mincomp) && rng.chance(4U))
            {
                value1 = min;
            }
            if (is_le(valcomp) && rng.chance(4U))
            {
                value2 = value1;
            }
            if (is_le(maxcomp) && rng.chance(4U))
            {
                max = value2;
            }
            return maker(min, value1, value2, max);
        };

        if (variant == "iprange")
        {
            return make(sorted_distinct<int64_t, 4>(rng, rand_i64),
                        [&](const int64_t min, const int64_t value1, const int64_t value2, const int64_t max) {
                            return parameter_t::make_integer_pair(name, min, mincomp, value1, valcomp, value2, maxcomp,
                                                                  max);
                        });
        }
        return make(sorted_distinct<double, 4>(rng, rand_f64),
                    [&](const double min, const double value1, const double value2, const double max)
                    { return parameter_t::make_scalar_pair(name, min, mincomp, value1, valcomp, value2, maxcomp, max); });
    }
    if (variant == "string")
    {
        return parameter_t::make_string(name, rand_bytes(rng, 20U));
    }
    throw bad_op("unknown parameter variant " + variant);
}

// assign a random valid value inside its domain to every parameter with probability 1/2
void random_config(configurable_t& config, rng_t& rng, const std::set<string_t>& skip = {})
{
    strings_t names;
    for (const auto& param : config.parameters())
    {
        names.push_back(param.name());
    }

    for (const auto& name : names)
    {
        const auto assign = rng.chance(2U);
        auto       lrng   = rng_t{rng.next()}; // NB: a fixed number of draws per parameter from the main generator
        if (!assign || skip.count(name) != 0U)
        {
            continue;
        }

        auto& param = config.parameter(name);
        try
        {
            std::visit(
                overloaded{[&](const std::monostate&) {},
                           [&](const parameter_t::enum_t& p)
                           {
                               if (!p.m_domain.empty())
                               {
                                   const auto value = p.m_domain[static_cast<size_t>(lrng.below(p.m_domain.size()))];
                                   param            = value;
                               }
                           },
                           [&](const parameter_t::irange_t& p)
                           {
                               const auto lo = is_le(p.m_mincomp) ? p.m_min : (p.m_min + 1);
                               const auto hi = is_le(p.m_maxcomp) ? p.m_max : (p.m_max - 1);
                               if (lo <= hi)
                               {
                                   const auto pick  = lrng.below(4U);
                                   const auto value = pick == 0U ? lo : pick == 1U ? hi : lrng.range(lo, hi);
                                   param            = value;
                               }
                           },
                           [&](const parameter_t::frange_t& p)
                           {
                               const auto pick  = lrng.below(8U);
                               auto       value = lrng.uniform(p.m_min, p.m_max);
                               if (pick == 0U && is_le(p.m_mincomp))
                               {
                                   value = p.m_min;
                               }
                               else if (pick == 1U && is_le(p.m_maxcomp))
                               {
                                   value = p.m_max;
                               }
                               const auto ok_min = is_le(p.m_mincomp) ? (p.m_min <= value) : (p.m_min < value);
                               const auto ok_max = is_le(p.m_maxcomp) ? (value <= p.m_max) : (value < p.m_max);
                               if (std::isfinite(value) && ok_min && ok_max)
                               {
                                   param = value;
                               }
                           },
                           [&](const parameter_t::iprange_t& p)
                           {
                               const auto lo = is_le(p.m_mincomp) ? p.m_min : (p.m_min + 1);
                               const auto hi = is_le(p.m_maxcomp) ? p.m_max : (p.m_max - 1);
                               if (lo <= hi)
                               {
                                   auto value1 = lrng.range(lo, hi);
                                   auto value2 = lrng.range(lo, hi);
                                   if (value1 > value2)
                                   {
                                       std::swap(value1, value2);
                                   }
                                   if (value1 < value2 || is_le(p.m_valcomp))
                                   {
                                       param = std::make_tuple(value1, value2);
                                   }
                               }
                           },
                           [&](const parameter_t::fprange_t& p)
                           {
                               auto value1 = lrng.uniform(p.m_min, p.m_max);
                               auto value2 = lrng.uniform(p.m_min, p.m_max);
                               if (value1 > value2)
                               {
                                   std::swap(value1, value2);
                               }
                               const auto ok_min = is_le(p.m_mincomp) ? (p.m_min <= value1) : (p.m_min < value1);
                               const auto ok_val = is_le(p.m_valcomp) ? (value1 <= value2) : (value1 < value2);
                               const auto ok_max = is_le(p.m_maxcomp) ? (value2 <= p.m_max) : (value2 < p.m_max);
                               if (std::isfinite(value1) && std::isfinite(value2) && ok_min && ok_val && ok_max)
                               {
                                   param = std::make_tuple(value1, value2);
                               }
                           },
                           [&](const string_t&) { param = rand_bytes(lrng, 12U); }},
                parameter_t::storage_t{param.storage()});
        }
        catch (const std::exception&)
        {
            // keep the default value
        }
    }
}

void set_random_enum(configurable_t& config, const char* name, rng_t& rng)
{
    auto& param = config.parameter(name);
    if (const auto* const penum = std::get_if<parameter_t::enum_t>(&param.storage()); penum != nullptr)
    {
        const auto value = penum->m_domain.at(static_cast<size_t>(rng.below(penum->m_domain.size())));
        param            = value;
    }
    else
    {
        throw std::logic_error("not an enumeration parameter");
    }
}

// ---- tiny in-memory datasets ---------------------------------------------------------------------------------------
class tiny_datasource_t final : public datasource_t
{
public:
    tiny_datasource_t(const tensor_size_t samples, const bool mixed, const uint64_t seed)
        : datasource_t("c15")
        , m_samples(samples)
        , m_mixed(mixed)
        , m_seed(seed)
    {
    }

    rdatasource_t clone() const override { return std::make_unique<tiny_datasource_t>(*this); }

private:
    void do_load() override
    {
        auto rng = rng_t{m_seed};

        features_t features;
        if (m_mixed)
        {
            features.push_back(feature_t{"s0"}.sclass(strings_t{"a", "b", "c"}));
            features.push_back(feature_t{"s1"}.sclass(strings_t{"u", "v"}));
            features.push_back(feature_t{"m0"}.mclass(strings_t{"p", "q", "r"}));
        }
        features.push_back(feature_t{"x0"}.scalar(feature_type::float64));
        features.push_back(feature_t{"x1"}.scalar(feature_type::float32));
        features.push_back(feature_t{"x2"}.scalar(feature_type::float64));
        features.push_back(feature_t{"y"}.scalar(feature_type::float64));

        const auto itarget = static_cast<tensor_size_t>(features.size()) - 1;
        resize(m_samples, features, static_cast<size_t>(itarget));

        // NB: ~10% of the feature values are missing in the mixed dataset (the target is always given)
        const auto given = [&]() { return !m_mixed || !rng.chance(10U); };

        for (tensor_size_t sample = 0; sample < m_samples; ++sample)
        {
            auto          target   = 0.3;
            tensor_size_t ifeature = 0;
            if (m_mixed)
            {
                const auto s0 = static_cast<int64_t>(rng.below(3U));
                if (given())
                {
                    set(sample, ifeature, s0);
                    target += 0.5 * static_cast<double>(s0);
                }
                ++ifeature;

                const auto s1 = static_cast<int64_t>(rng.below(2U));
                if (given())
                {
                    set(sample, ifeature, s1);
                }
                ++ifeature;

                tensor_mem_t<int8_t, 1> m0(3);
                for (tensor_size_t i = 0; i < 3; ++i)
                {
                    m0(i) = static_cast<int8_t>(rng.below(2U));
                }
                if (given())
                {
                    set(sample, ifeature, m0);
                    target += 0.25 * static_cast<double>(m0(0));
                }
                ++ifeature;
            }

            const auto x0 = rng.uniform(-1.0, +1.0);
            if (given())
            {
                set(sample, ifeature, x0);
                target += 0.8 * x0;
            }
            ++ifeature;

            const auto x1 = static_cast<double>(static_cast<float>(rng.uniform(-1.0, +1.0)));
            if (given())
            {
                set(sample, ifeature, x1);
                target += m_mixed ? (x1 < 0.1 ? -1.0 : +1.5) : (-0.5 * x1);
            }
            ++ifeature;

            const auto x2 = rng.uniform(-2.0, +2.0);
            if (given())
            {
                set(sample, ifeature, x2);
                target += m_mixed ? 0.0 : (0.1 * x2);
            }
            ++ifeature;

            target += 0.05 * rng.uniform(-1.0, +1.0);
            set(sample, itarget, target);
        }
    }

    tensor_size_t m_samples{0};
    bool          m_mixed{true};
    uint64_t      m_seed{0U};
};

struct world_t
{
    world_t(const tensor_size_t samples, const bool mixed, const uint64_t seed)
        : m_datasource(samples, mixed, seed)
    {
        m_datasource.load();

        // NB: a single thread, so that all reductions are sequential and thus reproducible
        m_dataset = std::make_unique<dataset_t>(m_datasource, size_t{1});
        if (mixed)
        {
            m_dataset->add<sclass_identity_generator_t>();
            m_dataset->add<mclass_identity_generator_t>();
        }
        m_dataset->add<scalar_identity_generator_t>();
    }

    world_t(const world_t&)            = delete;
    world_t& operator=(const world_t&) = delete;

    const dataset_t& dataset() const { return *m_dataset; }

    indices_t all_samples() const { return arange(0, m_dataset->samples()); }

    tiny_datasource_t          m_datasource;
    std::unique_ptr<dataset_t> m_dataset;
};

tensor_size_t parse_samples(toks_t& toks)
{
    const auto samples = toks.i64();
    if (samples != 0 && (samples < 10 || samples > 500))
    {
        throw bad_op("samples must be 0 or in [10, 500]");
    }
    return static_cast<tensor_size_t>(samples);
}

rloss_t make_mse()
{
    auto loss = loss_t::all().get("mse");
    if (!loss)
    {
        throw std::logic_error("no mse loss");
    }
    return loss;
}

rsplitter_t make_kfold()
{
    auto splitter = splitter_t::all().get("k-fold");
    if (!splitter)
    {
        throw std::logic_error("no k-fold splitter");
    }
    splitter->parameter("splitter::seed")  = 42;
    splitter->parameter("splitter::folds") = 2;
    return splitter;
}

// ---- builders ----------------------------------------------------------------------------------------------------
struct built_t
{
    fmt_t                    m_fmt;
    rvalue_t                 m_value;
    std::shared_ptr<world_t> m_world;         ///< the dataset the object was fitted on (if any)
    bool                     m_fitted{false}; ///< predictions can be evaluated
    std::string              m_info;          ///< extra info token of the augmented line (the resolved factory ids)
};

// an id token of the form `@<k>` stands for the id at index k modulo the number of ids registered in the factory
template <class tobject>
std::string resolve_id(const std::string& token)
{
    if (token.empty() || token[0] != '@')
    {
        return token;
    }
    if (token.size() < 2U || token.find_first_not_of("0123456789", 1U) != std::string::npos || token.size() > 19U)
    {
        throw bad_op("bad id index " + token);
    }
    const auto ids = tobject::all().ids();
    if (ids.empty())
    {
        throw bad_op("empty factory");
    }
    return ids[static_cast<size_t>(std::stoull(token.substr(1U)) % ids.size())];
}

template <size_t trank>
tensor_dims_t<trank> to_dims(const std::vector<int64_t>& dims)
{
    tensor_dims_t<trank> ret;
    for (size_t i = 0; i < trank; ++i)
    {
        ret[i] = static_cast<tensor_size_t>(dims[i]);
    }
    return ret;
}

// reads `<type> <rank> <d1> ... <dr> <seed>`
built_t build_tensor(toks_t& toks)
{
    const auto type = toks.s();
    const auto rank = toks.i64();
    if (rank < 1 || rank > 5)
    {
        throw bad_op("tensor rank");
    }
    std::vector<int64_t> dims;
    int64_t              size = 1;
    for (int64_t i = 0; i < rank; ++i)
    {
        const auto dim = toks.i64();
        if (dim < 0 || dim > (1 << 20))
        {
            throw bad_op("tensor dimension");
        }
        dims.push_back(dim);
        size *= dim;
        if (size > (1 << 20))
        {
            throw bad_op("tensor too large");
        }
    }
    const auto seed = to_seed(toks);

    built_t built;
    built.m_fmt   = make_tensor_fmt(type, rank);
    built.m_value = with_tensor(type, rank,
                                [&](const auto tag) -> rvalue_t
                                {
                                    using ttag    = decltype(tag);
                                    using tscalar = typename ttag::scalar;

                                    auto value      = std::make_unique<tensor_value_t<tscalar, ttag::rank>>();
                                    value->m_tensor = tensor_mem_t<tscalar, ttag::rank>(to_dims<ttag::rank>(dims));

                                    // random raw bytes (floating point values may be NaN patterns)
                                    auto       rng    = rng_t{mix_seed(seed, 1U)};
                                    auto*      data   = reinterpret_cast<unsigned char*>(value->m_tensor.data()); // NOLINT
                                    const auto nbytes = static_cast<size_t>(value->m_tensor.size()) * sizeof(tscalar);
                                    for (size_t i = 0U; i < nbytes; i += 8U)
                                    {
                                        const auto word = rng.next();
                                        std::memcpy(data + i, &word, std::min<size_t>(8U, nbytes - i));
                                    }
                                    return value;
                                });
    return built;
}

built_t build_param(toks_t& toks)
{
    const auto variant = toks.s();
    const auto seed    = to_seed(toks);

    auto rng   = rng_t{mix_seed(seed, 2U)};
    auto value = std::make_unique<param_value_t>();
    auto name  = rand_name(rng, 12U);
    value->m_param = make_param(rng, variant, name);

    built_t built;
    built.m_fmt   = make_simple_fmt<param_value_t>("param");
    built.m_value = std::move(value);
    return built;
}

built_t build_configurable(toks_t& toks)
{
    const auto nparams = toks.i64();
    const auto seed    = to_seed(toks);
    if (nparams < 0 || nparams > 64)
    {
        throw bad_op("number of parameters");
    }

    auto rng   = rng_t{mix_seed(seed, 3U)};
    auto value = std::make_unique<config_value_t>();

    std::set<string_t> used;
    for (int64_t i = 0; i < nparams; ++i)
    {
        std::string variant = param_variants.at(static_cast<size_t>(rng.below(param_variants.size())));
        if (variant == "none" && used.count(string_t{}) != 0U)
        {
            variant = "irange";
        }

        string_t name;
        if (variant != "none")
        {
            name = rand_name(rng, 12U);
            for (int trial = 0; trial < 20 && used.count(name) != 0U; ++trial)
            {
                name = rand_name(rng, 12U);
            }
            if (used.count(name) != 0U)
            {
                name = "p" + std::to_string(i) + "_" + std::to_string(used.size());
            }
        }
        used.insert(name);
        value->m_config.register_parameter(make_param(rng, variant, name));
    }

    built_t built;
    built.m_fmt   = make_simple_fmt<config_value_t>("configurable");
    built.m_value = std::move(value);
    return built;
}

built_t build_feature(toks_t& toks)
{
    const auto seed = to_seed(toks);

    auto rng     = rng_t{mix_seed(seed, 4U)};
    auto value   = std::make_unique<feature_value_t>();
    auto feature = feature_t{rand_name(rng, 10U)};

    const auto kind = rng.below(3U);
    if (kind < 2U)
    {
        strings_t  labels;
        const auto count = rng.below(6U);
        for (uint64_t i = 0U; i < count; ++i)
        {
            labels.push_back(rand_label(rng, 6U));
        }
        if (kind == 0U)
        {
            feature.sclass(std::move(labels));
        }
        else
        {
            feature.mclass(std::move(labels));
        }
    }
    else
    {
        const auto type = static_cast<feature_type>(rng.below(10U)); // NB: the continuous types
        const auto dim0 = static_cast<tensor_size_t>(1U + rng.below(4U));
        const auto dim1 = static_cast<tensor_size_t>(1U + rng.below(4U));
        const auto dim2 = static_cast<tensor_size_t>(1U + rng.below(4U));
        feature.scalar(type, make_dims(dim0, dim1, dim2));
    }
    value->m_feature = std::move(feature);

    built_t built;
    built.m_fmt   = make_simple_fmt<feature_value_t>("feature");
    built.m_value = std::move(value);
    return built;
}

// `<length> <seed>`: a string of exactly that many arbitrary bytes
built_t build_string(toks_t& toks)
{
    const auto length = toks.i64();
    const auto seed   = to_seed(toks);
    if (length < 0 || length > (1 << 20))
    {
        throw bad_op("string length");
    }
    auto rng   = rng_t{mix_seed(seed, 21U)};
    auto value = std::make_unique<string_value_t>();
    value->m_string.resize(static_cast<size_t>(length));
    for (auto& c : value->m_string)
    {
        c = static_cast<char>(rng.below(256U));
    }

    built_t built;
    built.m_fmt   = make_simple_fmt<string_value_t>("string");
    built.m_value = std::move(value);
    return built;
}

// `<count> <maxlen> <seed>`
built_t build_strings(toks_t& toks)
{
    const auto count  = toks.i64();
    const auto maxlen = toks.i64();
    const auto seed   = to_seed(toks);
    if (count < 0 || count > 4096 || maxlen < 0 || maxlen > (1 << 16))
    {
        throw bad_op("strings");
    }
    auto rng   = rng_t{mix_seed(seed, 22U)};
    auto value = std::make_unique<strings_value_t>();
    for (int64_t i = 0; i < count; ++i)
    {
        std::string string(static_cast<size_t>(rng.below(static_cast<uint64_t>(maxlen) + 1U)), ' ');
        for (auto& c : string)
        {
            c = static_cast<char>(rng.below(256U));
        }
        value->m_strings.push_back(std::move(string));
    }

    built_t built;
    built.m_fmt   = make_simple_fmt<strings_value_t>("strings");
    built.m_value = std::move(value);
    return built;
}

// `<seed>`: the (non-factory) configurable `program::solver_t` with its registered parameters randomly set
built_t build_program_solver(toks_t& toks)
{
    const auto seed = to_seed(toks);

    auto rng   = rng_t{mix_seed(seed, 23U)};
    auto value = std::make_unique<config_value_t>();
    {
        auto solver = program::solver_t{};
        random_config(solver, rng);
        // the registered parameters (and their values) travel through the plain configurable
        std::ostringstream ostream;
        solver.write(ostream);
        std::istringstream istream(ostream.str());
        value->m_config.read(istream);
        if (!istream)
        {
            throw std::logic_error("program::solver_t is not readable as a configurable");
        }
    }

    built_t built;
    built.m_fmt   = make_simple_fmt<config_value_t>("configurable");
    built.m_value = std::move(value);
    return built;
}

built_t build_factory(toks_t& toks)
{
    const auto which = toks.s();
    const auto token = toks.s();
    const auto seed  = to_seed(toks);

    built_t built;
    built.m_fmt   = make_factory_fmt(which);
    built.m_value = with_factory(which,
                                 [&](const auto tag) -> rvalue_t
                                 {
                                     using tobject = typename decltype(tag)::object;

                                     const auto id   = resolve_id<tobject>(token);
                                     built.m_info    = "id=" + id;
                                     auto value      = std::make_unique<factory_value_t<tobject>>();
                                     value->m_object = tobject::all().get(id);
                                     if (!value->m_object)
                                     {
                                         throw bad_op("unknown " + which + " id " + id);
                                     }
                                     auto rng = rng_t{mix_seed(seed, 5U)};
                                     random_config(*value->m_object, rng);
                                     return value;
                                 });
    return built;
}

tensor4d_t make_residuals(const dataset_t& dataset, const loss_t& loss)
{
    const auto samples  = arange(0, dataset.samples());
    const auto iterator = targets_iterator_t{dataset, samples};

    tensor4d_t targets(cat_dims(dataset.samples(), dataset.target_dims()));
    iterator.loop([&](const tensor_range_t range, size_t, tensor4d_cmap_t values) { targets.slice(range) = values; });

    const auto outputs = make_full_tensor<scalar_t>(targets.dims(), 0.0);

    tensor4d_t residuals(outputs.dims());
    loss.vgrad(targets, outputs, residuals);
    return residuals;
}

built_t build_wlearner(toks_t& toks)
{
    const auto id      = resolve_id<wlearner_t>(toks.s());
    const auto samples = parse_samples(toks);
    const auto seed    = to_seed(toks);

    auto value      = std::make_unique<factory_value_t<wlearner_t>>();
    value->m_object = wlearner_t::all().get(id);
    if (!value->m_object)
    {
        throw bad_op("unknown wlearner id " + id);
    }
    auto& wlearner = *value->m_object;
    auto  rng      = rng_t{mix_seed(seed, 6U)};

    built_t built;
    built.m_fmt  = make_wlearner_fmt();
    built.m_info = "id=" + id;
    if (samples == 0)
    {
        random_config(wlearner, rng);
    }
    else
    {
        set_random_enum(wlearner, "wlearner::criterion", rng);
        if (wlearner.parameter_if("wlearner::dtree::max_depth") != nullptr)
        {
            wlearner.parameter("wlearner::dtree::max_depth") = rng.range(1, 3);
            wlearner.parameter("wlearner::dtree::min_split") = rng.range(1, 10);
        }

        // fit exactly like check_fit in test/fixture/wlearner.h
        built.m_world       = std::make_shared<world_t>(samples, true, mix_seed(seed, 7U));
        const auto& dataset = built.m_world->dataset();

        const auto loss      = make_mse();
        const auto residuals = make_residuals(dataset, *loss);
        const auto cut       = arange(1 * dataset.samples() / 10, 9 * dataset.samples() / 10);
        const auto score     = wlearner.fit(dataset, cut, residuals);

        built.m_fitted = score != wlearner_t::no_fit_score();
    }
    built.m_value = std::move(value);
    return built;
}

built_t build_linear(toks_t& toks)
{
    const auto id      = resolve_id<linear_t>(toks.s());
    const auto samples = parse_samples(toks);
    const auto seed    = to_seed(toks);

    auto value      = std::make_unique<factory_value_t<linear_t>>();
    value->m_object = linear_t::all().get(id);
    if (!value->m_object)
    {
        throw bad_op("unknown linear id " + id);
    }
    auto& model = *value->m_object;
    auto  rng   = rng_t{mix_seed(seed, 8U)};

    built_t built;
    built.m_fmt  = make_factory_fmt("linear");
    built.m_info = "id=" + id;
    if (samples == 0)
    {
        random_config(model, rng);
    }
    else
    {
        set_random_enum(model, "linear::scaling", rng);
        model.parameter("linear::batch") = rng.range(10, 64);

        built.m_world       = std::make_shared<world_t>(samples, false, mix_seed(seed, 9U));
        const auto& dataset = built.m_world->dataset();

        auto solver = solver_t::all().get("lbfgs");
        if (!solver)
        {
            throw std::logic_error("no lbfgs solver");
        }
        solver->parameter("solver::epsilon")   = 1e-6;
        solver->parameter("solver::max_evals") = 100;

        const auto loss       = make_mse();
        const auto splitter   = make_kfold();
        const auto fit_params = ml::params_t{}.splitter(splitter).solver(solver).logger(make_null_logger());

        ensure_tmpdir();
        try
        {
            model.fit(dataset, built.m_world->all_samples(), *loss, fit_params);
        }
        catch (...)
        {
            clean_tmpdir();
            throw;
        }
        clean_tmpdir();

        built.m_fitted = true;
    }
    built.m_value = std::move(value);
    return built;
}

built_t build_gboost(toks_t& toks)
{
    const auto samples = parse_samples(toks);
    const auto rounds  = toks.i64();
    const auto seed    = to_seed(toks);
    const auto nprotos = toks.i64();
    if (rounds < 1 || rounds > 100)
    {
        throw bad_op("rounds must be in [1, 100]");
    }
    if (nprotos < 0 || nprotos > 16 || (samples > 0 && nprotos == 0))
    {
        throw bad_op("number of prototypes");
    }

    auto rng = rng_t{mix_seed(seed, 10U)};

    std::string  info = "ids=";
    rwlearners_t prototypes;
    for (int64_t i = 0; i < nprotos; ++i)
    {
        const auto id        = resolve_id<wlearner_t>(toks.s());
        auto       prototype = wlearner_t::all().get(id);
        info += (i == 0 ? "" : ",") + id;
        if (!prototype)
        {
            throw bad_op("unknown wlearner id " + id);
        }
        if (prototype->parameter_if("wlearner::dtree::max_depth") != nullptr)
        {
            prototype->parameter("wlearner::dtree::max_depth") = rng.range(1, 2);
        }
        prototypes.emplace_back(std::move(prototype));
    }

    auto  value = std::make_unique<gboost_value_t>();
    auto& model = value->m_model;
    model.prototypes(std::move(prototypes));

    // NB: the domain of `gboost::max_rounds` is [10, 1e+6], so fewer boosting rounds cannot be requested through the
    //     public interface: the requested number of rounds is forced only while fitting
    //     and the serialized parameter holds a valid value.
    const auto valid_rounds                = std::max<int64_t>(rounds, 10);
    model.parameter("gboost::max_rounds")  = valid_rounds;
    model.parameter("gboost::patience")    = rng.range(1, 10);
    model.parameter("gboost::seed")        = rng.range(0, 1024);
    set_random_enum(model, "gboost::wscale", rng);

    built_t built;
    built.m_fmt  = make_simple_fmt<gboost_value_t>("gboost");
    built.m_info = info;
    if (samples > 0)
    {
        built.m_world       = std::make_shared<world_t>(samples, true, mix_seed(seed, 11U));
        const auto& dataset = built.m_world->dataset();

        const auto force_rounds = [&](const int64_t forced)
        {
            auto& storage = model.parameter("gboost::max_rounds").*steal(param_storage_tag{});
            std::get<parameter_t::irange_t>(storage).m_value = forced;
        };

        // fit like check_gbooster in test/fixture/gboost.h
        const auto loss       = make_mse();
        const auto splitter   = make_kfold();
        const auto fit_params = ml::params_t{}.splitter(splitter).logger(make_null_logger());

        ensure_tmpdir();
        force_rounds(rounds);
        try
        {
            model.fit(dataset, built.m_world->all_samples(), *loss, fit_params);
        }
        catch (...)
        {
            clean_tmpdir();
            throw;
        }
        clean_tmpdir();
        force_rounds(valid_rounds);

        built.m_fitted = true;
    }
    built.m_value = std::move(value);
    return built;
}

built_t build(toks_t& toks)
{
    const auto kind = toks.s();
    if (kind == "tensor")
    {
        return build_tensor(toks);
    }
    if (kind == "param")
    {
        return build_param(toks);
    }
    if (kind == "configurable")
    {
        return build_configurable(toks);
    }
    if (kind == "feature")
    {
        return build_feature(toks);
    }
    if (kind == "string")
    {
        return build_string(toks);
    }
    if (kind == "strings")
    {
        return build_strings(toks);
    }
    if (kind == "program-solver")
    {
        return build_program_solver(toks);
    }
    if (kind == "factory")
    {
        return build_factory(toks);
    }
    if (kind == "wlearner")
    {
        return build_wlearner(toks);
    }
    if (kind == "linear")
    {
        return build_linear(toks);
    }
    if (kind == "gboost")
    {
        return build_gboost(toks);
    }
    throw bad_op("unknown object kind " + kind);
}

std::string join_from(const toks_t& toks, const size_t begin)
{
    std::string text;
    for (size_t i = begin; i < toks.t.size(); ++i)
    {
        if (!text.empty())
        {
            text.push_back(' ');
        }
        text += toks.t[i];
    }
    return text;
}

bool same_bits(const tensor4d_t& lhs, const tensor4d_t& rhs)
{
    return lhs.dims() == rhs.dims() &&
           (lhs.size() <= 0 ||
            std::memcmp(lhs.data(), rhs.data(), static_cast<size_t>(lhs.size()) * sizeof(scalar_t)) == 0);
}

// ---- ops ---------------------------------------------------------------------------------------------------------
std::string op_obj(toks_t& toks, std::string& aug)
{
    const auto spec_begin = toks.i;
    const auto built      = build(toks);
    if (!toks.done())
    {
        throw bad_op("trailing tokens");
    }
    const auto  spec = join_from(toks, spec_begin);
    const auto& fmt  = built.m_fmt;
    const auto& orig = *built.m_value;

    const auto S = serialize(orig);

    // predictions of the original object (if fitted)
    auto       pred_evaluated = false;
    tensor4d_t orig_outputs;
    if (built.m_fitted && built.m_world && orig.learner() != nullptr)
    {
        try
        {
            orig_outputs   = orig.learner()->predict(built.m_world->dataset(), built.m_world->all_samples());
            pred_evaluated = true;
        }
        catch (const std::exception&)
        {
            pred_evaluated = false;
        }
    }

    {
        dump_t dump;
        orig.dump(dump);
        aug = "codec obj " + fmt.m_text + " " + xhex(S) + " # " + dump.m_text + " # " + spec +
              " pred=" + (pred_evaluated ? "ev" : "na") + " fitted=" + (built.m_fitted ? "1" : "0") +
              (built.m_info.empty() ? "" : " " + built.m_info);
    }

    // re-read the full stream
    const auto reread = try_read(fmt, S);
    if (!reread)
    {
        return "reject-full";
    }
    const auto S2 = serialize(*reread);
    const auto eq = orig.equal(*reread);

    auto pred = true;
    if (pred_evaluated)
    {
        try
        {
            const auto outputs = reread->learner()->predict(built.m_world->dataset(), built.m_world->all_samples());
            pred               = same_bits(orig_outputs, outputs);
        }
        catch (const std::exception&)
        {
            pred = false;
        }
    }

    // every strict prefix must be rejected
    std::vector<size_t> accepted;
    for (size_t k = 0U; k < S.size(); ++k)
    {
        if (try_read(fmt, S.substr(0U, k)) || g_null_accepted)
        {
            accepted.push_back(k);
        }
    }

    dump_t out;
    out.t("ok").t(xhex(S2)).i(eq ? 1 : 0).i(pred ? 1 : 0).i(accepted.size());
    for (const auto k : accepted)
    {
        out.i(k);
    }
    reread->dump(out);
    return out.m_text;
}

std::string op_corrupt(toks_t& toks, std::string& aug)
{
    const auto spec_begin = toks.i;
    const auto built      = build_tensor(toks);
    const auto mode       = toks.s();
    int64_t    mask       = 0;
    if (mode == "xor")
    {
        mask = toks.i64();
        if (mask < 1 || mask > 255)
        {
            throw bad_op("mask");
        }
    }
    else if (mode != "all" && mode != "bits")
    {
        throw bad_op("unknown corruption mode " + mode);
    }
    if (!toks.done())
    {
        throw bad_op("trailing tokens");
    }

    const auto& fmt  = built.m_fmt;
    const auto  S    = serialize(*built.m_value);
    const auto  rank = std::stoll(toks.t.at(spec_begin + 1U));

    aug = "codec corrupt " + fmt.m_text + " " + xhex(S) + " " + mode + (mode == "xor" ? " " + std::to_string(mask) : "") +
          " # " + join_from(toks, spec_begin);

    dump_t accepted;
    size_t naccepted = 0U;

    const auto attempt = [&](const size_t p, const unsigned value)
    {
        auto bytes = S;
        bytes[p]   = static_cast<char>(static_cast<unsigned char>(value));
        if (const auto tensor = try_read(fmt, bytes); tensor)
        {
            ++naccepted;
            accepted.i(p).i(value);
            tensor->dump(accepted);
        }
    };

    for (size_t p = 0U; p < S.size(); ++p)
    {
        const auto original = static_cast<unsigned>(static_cast<unsigned char>(S[p]));
        if (mode == "all")
        {
            for (unsigned value = 0U; value < 256U; ++value)
            {
                if (value != original)
                {
                    attempt(p, value);
                }
            }
        }
        else if (mode == "bits")
        {
            for (unsigned bit = 0U; bit < 8U; ++bit)
            {
                attempt(p, original ^ (1U << bit));
            }
        }
        else
        {
            attempt(p, original ^ static_cast<unsigned>(mask));
        }
    }

    dump_t out;
    out.t("ok").i(4 + 4 + 4 * rank + 4 + 8).i(naccepted);
    if (naccepted > 0U)
    {
        out.t(accepted.m_text);
    }
    return out.m_text;
}

std::string op_read(toks_t& toks, std::string& aug)
{
    const auto fmt   = parse_fmt(toks);
    const auto token = toks.s();
    const auto bytes = unhex(token);
    const auto extra = join_from(toks, toks.i);

    aug = "codec read " + fmt.m_text + " " + xhex(bytes) + " #" + (extra.empty() ? "" : " " + extra);

    std::string dirty;
    auto        has_dirty = false;
    for (size_t i = toks.i; i < toks.t.size(); ++i)
    {
        if (toks.t[i].rfind("dirty=", 0) == 0)
        {
            dirty     = unhex(toks.t[i].substr(6U));
            has_dirty = true;
        }
    }

    const auto value = try_read(fmt, bytes, has_dirty ? &dirty : nullptr);
    if (!value)
    {
        return g_null_accepted ? "null-object" : "reject";
    }
    dump_t out;
    out.t("ok");
    value->dump(out);
    return out.m_text;
}

// the destination of a read is an object that was used before: what it held must not matter
std::string op_into(toks_t& toks, std::string& aug)
{
    const auto spec_begin = toks.i;
    const auto built      = build(toks);
    if (toks.s() != "//")
    {
        throw bad_op("expected //");
    }
    const auto other = build(toks);
    if (!toks.done())
    {
        throw bad_op("trailing tokens");
    }
    const auto  spec = join_from(toks, spec_begin);
    const auto& fmt  = built.m_fmt;
    if (fmt.m_text != other.m_fmt.m_text)
    {
        throw bad_op("the two objects have different formats");
    }
    const auto& orig = *built.m_value;

    const auto S = serialize(orig);
    const auto D = serialize(*other.m_value);

    {
        dump_t dump;
        orig.dump(dump);
        aug = "codec into " + fmt.m_text + " " + xhex(S) + " # " + dump.m_text + " # dirty=" + xhex(D) + " " + spec;
    }

    const auto reread = try_read(fmt, S, &D);
    if (!reread)
    {
        return "reject-full";
    }
    const auto S2 = serialize(*reread);
    const auto eq = orig.equal(*reread);

    std::vector<size_t> accepted;
    for (size_t k = 0U; k < S.size(); ++k)
    {
        if (try_read(fmt, S.substr(0U, k), &D) || g_null_accepted)
        {
            accepted.push_back(k);
        }
    }

    dump_t out;
    out.t("ok").t(xhex(S2)).i(eq ? 1 : 0).i(accepted.size());
    for (const auto k : accepted)
    {
        out.i(k);
    }
    reread->dump(out);
    return out.m_text;
}

// one scalar through nano::write, nano::read and detail::hash: the platform assumptions of the model
// (little endian, two's complement, the widths, sign extension of signed integers in the hash) observed directly
template <class tscalar>
std::string scalar_selftest(const tscalar value)
{
    static_assert(sizeof(tensor_size_t) == 8, "tensor_size_t is int64_t on the wire (feature dims, indices)");
    static_assert(sizeof(tensor3d_dims_t) == 24, "feature dims travel as 24 raw bytes");
    static_assert(sizeof(scalar_t) == 8 && std::numeric_limits<scalar_t>::is_iec559, "IEEE doubles");

    std::ostringstream ostream;
    ::nano::write(ostream, value);
    const auto bytes = ostream.str();

    tscalar            reread{};
    std::istringstream istream(bytes);
    ::nano::read(istream, reread);
    const auto same = static_cast<bool>(istream) && std::memcmp(&reread, &value, sizeof(tscalar)) == 0;

    // a one-element tensor: its stream is the header + the same bytes, its hash field is hash_combine(0, value)
    tensor_mem_t<tscalar, 1> tensor(make_dims(1));
    tensor(0) = value;
    std::ostringstream tstream;
    ::nano::write(tstream, tensor);
    const auto tbytes = tstream.str();

    dump_t out;
    out.t("ok").t(xhex(bytes)).t(h16(detail::hash(&value, 1))).i(sizeof(tscalar)).i(same ? 1 : 0).t(xhex(tbytes));
    return out.m_text;
}

std::string op_scalar(toks_t& toks, std::string& aug)
{
    const auto type  = toks.s();
    const auto token = toks.s();
    if (!toks.done())
    {
        throw bad_op("trailing tokens");
    }
    aug = "codec scalar " + type + " " + token + " #";

    const auto bits = [&](const size_t digits) -> uint64_t
    {
        if (token.size() != digits || token.find_first_not_of("0123456789abcdef") != std::string::npos)
        {
            throw bad_op("bit pattern");
        }
        return std::stoull(token, nullptr, 16);
    };
    const auto sint = [&](const int64_t min, const int64_t max) -> int64_t
    {
        size_t     pos   = 0;
        const auto value = std::stoll(token, &pos);
        if (pos != token.size() || value < min || value > max)
        {
            throw bad_op("integer out of range");
        }
        return value;
    };
    const auto uint = [&](const uint64_t max) -> uint64_t
    {
        size_t pos = 0;
        if (token.empty() || token[0] == '-')
        {
            throw bad_op("integer out of range");
        }
        const auto value = std::stoull(token, &pos);
        if (pos != token.size() || value > max)
        {
            throw bad_op("integer out of range");
        }
        return value;
    };

    if (type == "i8") return scalar_selftest(static_cast<int8_t>(sint(-128, 127)));
    if (type == "i16") return scalar_selftest(static_cast<int16_t>(sint(-32768, 32767)));
    if (type == "i32") return scalar_selftest(static_cast<int32_t>(sint(-2147483648LL, 2147483647LL)));
    if (type == "i64")
        return scalar_selftest(sint(std::numeric_limits<int64_t>::min(), std::numeric_limits<int64_t>::max()));
    if (type == "u8") return scalar_selftest(static_cast<uint8_t>(uint(255U)));
    if (type == "u16") return scalar_selftest(static_cast<uint16_t>(uint(65535U)));
    if (type == "u32") return scalar_selftest(static_cast<uint32_t>(uint(4294967295ULL)));
    if (type == "u64") return scalar_selftest(uint(std::numeric_limits<uint64_t>::max()));
    if (type == "f32")
    {
        const auto pattern = static_cast<uint32_t>(bits(8U));
        float      value   = 0.0F;
        std::memcpy(&value, &pattern, sizeof(value));
        return scalar_selftest(value);
    }
    if (type == "f64")
    {
        const auto pattern = bits(16U);
        double     value   = 0.0;
        std::memcpy(&value, &pattern, sizeof(value));
        return scalar_selftest(value);
    }
    throw bad_op("scalar type");
}
} // namespace

std::string vh::execute(toks_t& toks, std::string& aug)
{
    const auto family = toks.s();
    if (family != "codec")
    {
        throw bad_op("family");
    }
    const auto op = toks.s();
    if (op == "obj")
    {
        return op_obj(toks, aug);
    }
    if (op == "corrupt")
    {
        return op_corrupt(toks, aug);
    }
    if (op == "read")
    {
        return op_read(toks, aug);
    }
    if (op == "into")
    {
        return op_into(toks, aug);
    }
    if (op == "scalar")
    {
        return op_scalar(toks, aug);
    }
    throw bad_op("unknown op " + op);
}

int main()
{
    install_handlers();
    const auto ret = vh::main_loop();
    remove_tmpdir();
    return ret;
}
