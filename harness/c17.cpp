// C17 harness: one scenario per op line on the real thread pool (include/nano/core/parallel.h, src/core/parallel.cpp).
//
//   pool run <size-asked> <delay permille> <delay-max-us> <spurious permille> <seed> <predestroy-us> <type> <S> {<K> {call}}
//   call = m <elements> <chunk (0: per-element overload)> <raise> <work-us> <nthrow> {throwing positions}
//        | e <raise (get vs wait)> <work-us> <throws> <waitmode 0: at once, 1: at the end of the submitter, 2: after ~pool_t>
//
// S submitter programs run concurrently on the same pool (S == 1: in the scenario thread itself), then the pool is
// destroyed, then the futures with waitmode 2 are waited. The hook observer (H1, -DNANO_VERIF) logs every
// synchronisation event (global atomic sequence number, thread, kind, a, b) into a preallocated buffer and injects
// seeded yields / sleeps / spurious notify_all's at every event (schedule fuzzing). The operators log pseudo-events
// through the same counter. `A` = op line + pool size + raw trace; `R` = canonical summary of the direct monitors
// (never raw timing) — the part before ` | ` is what the Lean model recomputes from the trace.
// A scenario that does not finish within the watchdog's timeout terminates the process (`hang`, exit code 3).
//
// <size-asked> = 1000: the pool is built by the DEFAULT constructor. <type> = integer type (0: int64_t, 1: size_t, 2: int)
// + 10 * directed mode. Directed modes use the hook as a schedule point: a worker that has just evaluated its wait
// predicate to false (it holds the mutex and has not blocked yet) is PARKED there until
//   bit 1: the destructor arrives (its pre_lock: it then blocks on the mutex until the worker waits; with a destructor
//          that writes m_stop without the mutex its stop_set + notify_all pass while the worker is parked = lost wake-up),
//   bit 2: a client arrives with a push (enqueue / map),
// or a timeout expires. The monitor part reports how often each interleaving was reached (`d1=`, `d2=`; `d1x=`/`d2x=`:
// the other thread got PAST the mutex while the worker was parked - impossible with the lock discipline).
#include "common.h"
#include <algorithm>
#include <atomic>
#include <chrono>
#include <condition_variable>
#include <cstdlib>
#include <future>
#include <memory>
#include <mutex>
#include <nano/core/parallel.h>
#include <thread>
#include <unistd.h>

using vh::bad_op;
using vh::toks_t;
using namespace nano::parallel;

namespace
{
constexpr uint64_t CAP    = 30000;      // trace records kept (an `A` line stays below ~350 kB; the model check is quadratic)
constexpr int64_t  BROKEN = 1000000000; // result code: an exception that is not a task's own (broken_promise)
constexpr int64_t  OTHER  = 999999999;
constexpr int      MAXT   = 64;

enum : int
{
    ev_pre_lock    = 0,
    ev_push        = 3,
    ev_notify_one  = 4,
    ev_notify_all  = 5,
    ev_pred        = 6,
    ev_stop_set    = 12,
    ev_call_enq    = 20,
    ev_call_map    = 21,
    ev_op_begin    = 22,
    ev_op_arg      = 23,
    ev_op_end      = 24,
    ev_call_ret    = 25,
    ev_call_destroy = 26
};

// the exception of a throwing operator. The catching thread never reads the object: it identifies the exception by
// the identity of its std::exception_ptr (kept alive in the call's registry until the scenario is over), because the
// reference count of exception objects lives in the uninstrumented libstdc++ and ThreadSanitizer would otherwise
// report the reader in the caller against the release of the last reference in the worker (a false positive).
struct task_exc
{
    int     call;
    int64_t pos;
};

// the same, as a member of the std::exception hierarchy (thrown at odd operator positions): code that catches a task's
// exception by `const std::exception&` and stores a copy hands the caller another object (a sliced std::exception)
struct task_std_exc final : std::exception
{
    task_std_exc(const int call_, const int64_t pos_)
        : call(call_)
        , pos(pos_)
    {
    }

    const char* what() const noexcept override { return "task_std_exc"; }

    int     call;
    int64_t pos;
};

struct rec_t
{
    int32_t tid;
    int32_t kind;
    int64_t a;
    int64_t b;
};

struct call_t
{
    // parameters
    int                  id{0};
    bool                 is_map{true};
    int64_t              n{0}, c{0};
    bool                 raise{true};
    int64_t              work_us{0};
    std::vector<int64_t> throws;
    int                  waitmode{0};
    // expectations computed here, independently of the pool
    int64_t nops{0};
    // monitors
    std::unique_ptr<std::atomic<int>[]> cnt;   // per operator position
    std::unique_ptr<std::atomic<int>[]> cover; // per element
    std::atomic<int64_t>                inv{0}, fin{0}, oob{0}, misal{0}, badtnum{0}, excl{0}, late{0};
    std::atomic<int64_t>                minlen{INT64_MAX}, maxlen{0}, maxtnum{-1};
    std::atomic<bool>                   inuse[MAXT];
    std::atomic<bool>                   returned{false};
    std::atomic<int>                    nraw{0};
    std::pair<int64_t, int64_t>         raw[MAXT];
    int64_t                             res{-1}, fin_at_return{-1};
    future_t                            future;
    std::vector<std::exception_ptr>     eptrs; // one slot per entry of `throws`, written by the throwing operator

    call_t()
    {
        for (auto& f : inuse)
        {
            f.store(false);
        }
    }
};

struct ctx_t
{
    std::vector<rec_t>     buf;
    std::atomic<uint64_t>  seq{0};
    std::atomic<int>       next_tid{10};
    uint64_t               gen{0};
    int64_t                dprob{0}, dmax{1}, spur{0};
    uint64_t               seed{0};
    std::atomic<const void*> queue{nullptr};
    std::atomic<int64_t>   qmis{0}, sleeps{0}, spurs{0};
    std::atomic<uint64_t>  tmask{0};
    size_t                 size{0};
    std::vector<std::unique_ptr<call_t>> calls;
    std::atomic<int>       phase{0}; // 0 construct, 1 calls, 2 destroy, 3 deferred waits, 4 done
    // directed schedules
    int                    dir{0};
    std::atomic<int>       parks{0}, d1{0}, d2{0}, d1x{0}, d2x{0};
    std::atomic<int64_t>   destroy_prelock{0}, destroy_stop{0}, destroy_notified{0}, client_prelocks{0}, client_pushes{0},
        client_notifies{0};
    std::atomic<bool>      parked{false}, want_park{false};
};

std::atomic<ctx_t*> g_ctx{nullptr};

struct tls_t
{
    uint64_t gen{~0ULL};
    int      tid{-1};
    uint64_t rng{0};
};
thread_local tls_t tls;

uint64_t next_rng(uint64_t& s)
{
    s += 0x9E3779B97F4A7C15ULL;
    uint64_t z = s;
    z          = (z ^ (z >> 30)) * 0xBF58476D1CE4E5B9ULL;
    z          = (z ^ (z >> 27)) * 0x94D049BB133111EBULL;
    return z ^ (z >> 31);
}

void bind_thread(ctx_t* c, int tid)
{
    tls.gen = c->gen;
    tls.tid = tid;
    tls.rng = c->seed * 0x9E3779B97F4A7C15ULL + static_cast<uint64_t>(tid + 1) * 0xD1B54A32D192ED03ULL;
}

inline void ensure_bound(ctx_t* c)
{
    if (tls.gen != c->gen)
    {
        bind_thread(c, c->next_tid.fetch_add(1)); // a thread of the pool
    }
}

inline void record(ctx_t* c, int kind, int64_t a, int64_t b)
{
    const auto k = c->seq.fetch_add(1, std::memory_order_acq_rel);
    if (k < CAP)
    {
        c->buf[k] = rec_t{tls.tid, kind, a, b};
    }
}

inline void perturb(ctx_t* c)
{
    if (c->dprob > 0 && static_cast<int64_t>(next_rng(tls.rng) % 1000) < c->dprob)
    {
        const auto r = next_rng(tls.rng);
        if ((r & 3) == 0)
        {
            std::this_thread::yield();
        }
        else
        {
            std::this_thread::sleep_for(std::chrono::microseconds(1 + static_cast<int64_t>((r >> 8) % static_cast<uint64_t>(c->dmax))));
        }
    }
}

int64_t now_us()
{
    return std::chrono::duration_cast<std::chrono::microseconds>(std::chrono::steady_clock::now().time_since_epoch()).count();
}

// directed schedules (see the header): bookkeeping of what the client threads do + the park of a worker at pred(false)
void directed(ctx_t* c, int event, long long a)
{
    const bool client = tls.tid < 10;
    if (client)
    {
        const bool destroying = c->phase.load() == 2;
        if (event == ev_pre_lock)
        {
            (destroying ? c->destroy_prelock : c->client_prelocks).fetch_add(1);
        }
        else if (event == ev_stop_set)
        {
            c->destroy_stop.fetch_add(1);
            if (c->parked.load())
            {
                c->d1x.fetch_add(1); // m_stop written while a worker is between its predicate and its wait
            }
        }
        else if (event == ev_push)
        {
            c->client_pushes.fetch_add(1);
            if (c->parked.load())
            {
                c->d2x.fetch_add(1); // a task pushed while a worker is between its predicate and its wait
            }
        }
        else if (event == ev_notify_all || event == ev_notify_one)
        {
            (destroying ? c->destroy_notified : c->client_notifies).fetch_add(1);
        }
        return;
    }
    if (event != ev_pred || a != 0 || (c->parks.load() >= 12 && !c->want_park.load()) || c->parks.load() >= 40)
    {
        return;
    }
    // this worker holds the mutex, its predicate was false, it has not blocked yet
    c->parks.fetch_add(1);
    const auto t0      = now_us();
    const auto pre0    = c->client_prelocks.load();
    const auto push0   = c->client_pushes.load();
    const auto notif0  = c->client_notifies.load();
    const auto limit   = c->want_park.load() ? 4000 : 600;
    bool       hit     = false;
    c->parked.store(true);
    while (now_us() - t0 < limit)
    {
        if ((c->dir & 1) != 0 && c->destroy_stop.load() > 0)
        {
            // only without the lock discipline: let the notification pass as well, so that the wake-up is really lost
            const auto t1 = now_us();
            while (c->destroy_notified.load() == 0 && now_us() - t1 < 2000)
            {
                std::this_thread::sleep_for(std::chrono::microseconds(20));
            }
            hit = true;
            break;
        }
        if ((c->dir & 2) != 0 && c->client_pushes.load() != push0)
        {
            const auto t1 = now_us();
            while (c->client_notifies.load() == notif0 && now_us() - t1 < 2000)
            {
                std::this_thread::sleep_for(std::chrono::microseconds(20));
            }
            hit = true;
            break;
        }
        if ((c->dir & 1) != 0 && c->destroy_prelock.load() > 0)
        {
            c->d1.fetch_add(1);
            hit = true;
            break;
        }
        if ((c->dir & 2) != 0 && c->client_prelocks.load() != pre0)
        {
            c->d2.fetch_add(1);
            hit = true;
            break;
        }
        std::this_thread::sleep_for(std::chrono::microseconds(20));
    }
    if (hit)
    {
        // give the other thread the time to block on the mutex (or, without the lock discipline, to finish)
        std::this_thread::sleep_for(std::chrono::microseconds(150));
    }
    c->parked.store(false);
}

// directed schedules: the client makes a sleeping worker re-evaluate its predicate (a spurious wake-up) and waits until a
// worker is parked there, so that the client's next step (push / destruction) arrives in exactly that window
void stimulate(ctx_t* c, int64_t limit_us)
{
    c->want_park.store(true);
    const auto t0 = now_us();
    while (!c->parked.load() && now_us() - t0 < limit_us)
    {
        if (const auto* q = c->queue.load(); q != nullptr)
        {
            static_cast<const queue_t*>(q)->m_condition.notify_all();
        }
        std::this_thread::sleep_for(std::chrono::microseconds(40));
    }
    c->want_park.store(false);
}

// the observer installed into nano::verif::pool_hook()
void hook(int event, const void* queue, long long a, long long b)
{
    auto* c = g_ctx.load(std::memory_order_acquire);
    if (c == nullptr)
    {
        return;
    }
    ensure_bound(c);
    const void* expected = nullptr;
    if (!c->queue.compare_exchange_strong(expected, queue) && expected != queue)
    {
        c->qmis.fetch_add(1);
    }
    record(c, event, a, b);
    if (event == ev_pred && a == 0)
    {
        c->sleeps.fetch_add(1);
    }
    if (c->dir != 0)
    {
        directed(c, event, a);
    }
    perturb(c);
    if (c->spur > 0 && static_cast<int64_t>(next_rng(tls.rng) % 1000) < c->spur)
    {
        // spurious wake-up of every waiting worker (queue_t's members are public)
        static_cast<const queue_t*>(queue)->m_condition.notify_all();
        c->spurs.fetch_add(1);
    }
}

// pseudo-events of the harness
void plog(int kind, int64_t a, int64_t b)
{
    auto* c = g_ctx.load(std::memory_order_acquire);
    ensure_bound(c);
    record(c, kind, a, b);
    perturb(c);
}

void atomic_max(std::atomic<int64_t>& x, int64_t v)
{
    auto cur = x.load();
    while (cur < v && !x.compare_exchange_weak(cur, v))
    {
    }
}

void atomic_min(std::atomic<int64_t>& x, int64_t v)
{
    auto cur = x.load();
    while (cur > v && !x.compare_exchange_weak(cur, v))
    {
    }
}

// the operator of every task: direct monitors of the property
void do_op(ctx_t* c, call_t& m, int64_t begin, int64_t end, size_t tnum)
{
    plog(ev_op_begin, m.id, static_cast<int64_t>(tnum));
    plog(ev_op_arg, begin, end);
    m.inv.fetch_add(1);
    const bool tnum_ok = tnum < c->size && tnum < static_cast<size_t>(MAXT);
    if (!tnum_ok)
    {
        m.badtnum.fetch_add(1);
    }
    else
    {
        if (m.inuse[tnum].exchange(true))
        {
            m.excl.fetch_add(1); // the same tnum is in use by another task of this call right now
        }
        c->tmask.fetch_or(1ULL << tnum);
    }
    atomic_max(m.maxtnum, static_cast<int64_t>(tnum));
    if (m.returned.load())
    {
        m.late.fetch_add(1);
    }
    if (begin < 0 || end > m.n || begin >= end)
    {
        m.oob.fetch_add(1);
    }
    atomic_min(m.minlen, end - begin);
    atomic_max(m.maxlen, end - begin);
    int64_t pos = begin;
    if (m.c > 0)
    {
        if (begin % m.c != 0)
        {
            m.misal.fetch_add(1);
        }
        pos = begin / m.c;
    }
    if (pos >= 0 && pos < m.nops)
    {
        m.cnt[pos].fetch_add(1);
    }
    for (int64_t i = std::max<int64_t>(begin, 0); i < std::min(end, m.n); ++i)
    {
        m.cover[i].fetch_add(1);
    }
    if (const auto k = m.nraw.fetch_add(1); k < MAXT)
    {
        m.raw[k] = {begin, end};
    }
    if (m.work_us > 0)
    {
        std::this_thread::sleep_for(std::chrono::microseconds(m.work_us));
    }
    const auto it     = std::find(m.throws.begin(), m.throws.end(), pos);
    const bool throws = it != m.throws.end();
    plog(ev_op_end, m.id, throws ? 1 : 0);
    if (tnum_ok)
    {
        m.inuse[tnum].store(false);
    }
    m.fin.fetch_add(1);
    if (throws)
    {
        auto ep = (pos % 2 == 1) ? std::make_exception_ptr(task_std_exc{m.id, pos}) : std::make_exception_ptr(task_exc{m.id, pos});
        m.eptrs[static_cast<size_t>(it - m.throws.begin())] = ep;
        std::rethrow_exception(ep);
    }
}

template <class tcall>
void guarded(call_t& m, const tcall& call)
{
    try
    {
        call();
        m.res = 0;
    }
    catch (const std::future_error&)
    {
        m.res = BROKEN;
    }
    catch (...)
    {
        m.res          = OTHER;
        const auto cur = std::current_exception();
        for (size_t k = 0; k < m.eptrs.size(); ++k)
        {
            if (m.eptrs[k] != nullptr && m.eptrs[k] == cur)
            {
                m.res = 1 + m.throws[k];
            }
        }
    }
    m.fin_at_return = m.fin.load();
    m.returned.store(true);
    plog(ev_call_ret, m.id, m.res);
}

template <class tsize>
void run_map(ctx_t* c, pool_t& pool, call_t& m)
{
    plog(ev_call_map, m.id, m.raise ? 1 : 0);
    guarded(m,
            [&]
            {
                if (m.c == 0)
                {
                    pool.map(
                        static_cast<tsize>(m.n), [&](tsize index, size_t tnum)
                        { do_op(c, m, static_cast<int64_t>(index), static_cast<int64_t>(index) + 1, tnum); }, m.raise);
                }
                else
                {
                    pool.map(
                        static_cast<tsize>(m.n), static_cast<tsize>(m.c), [&](tsize begin, tsize end, size_t tnum)
                        { do_op(c, m, static_cast<int64_t>(begin), static_cast<int64_t>(end), tnum); }, m.raise);
                }
            });
}

void wait_future(call_t& m)
{
    guarded(m,
            [&]
            {
                if (m.raise)
                {
                    m.future.get();
                }
                else
                {
                    m.future.wait();
                }
            });
}

void run_program(ctx_t* c, pool_t& pool, const std::vector<call_t*>& prog, int type)
{
    for (auto* m : prog)
    {
        if ((c->dir & 2) != 0)
        {
            stimulate(c, 2000);
        }
        if (m->is_map)
        {
            switch (type)
            {
            case 1: run_map<size_t>(c, pool, *m); break;
            case 2: run_map<int>(c, pool, *m); break;
            default: run_map<int64_t>(c, pool, *m); break;
            }
        }
        else
        {
            plog(ev_call_enq, m->id, 0);
            m->future = pool.enqueue([c, m](size_t tnum) { do_op(c, *m, 0, 1, tnum); });
            if (m->waitmode == 0)
            {
                wait_future(*m);
            }
        }
    }
    for (auto* m : prog)
    {
        if (!m->is_map && m->waitmode == 1)
        {
            wait_future(*m);
        }
    }
}

// watchdog: a scenario that does not finish is a hang (lost wake-up, deadlock on destruction)
std::atomic<int64_t> g_deadline_ms{0}; // 0: no scenario running
std::atomic<bool>    g_watchdog_started{false};

int64_t now_ms()
{
    return std::chrono::duration_cast<std::chrono::milliseconds>(std::chrono::steady_clock::now().time_since_epoch()).count();
}

void watchdog()
{
    for (;;)
    {
        std::this_thread::sleep_for(std::chrono::milliseconds(50));
        const auto d = g_deadline_ms.load();
        if (d != 0 && now_ms() > d)
        {
            auto*              c = g_ctx.load();
            std::ostringstream os;
            os << "hang: scenario did not finish; phase=" << (c ? c->phase.load() : -1) << " unreturned calls:";
            if (c != nullptr)
            {
                for (const auto& m : c->calls)
                {
                    if (!m->returned.load())
                    {
                        os << ' ' << m->id << "(inv=" << m->inv.load() << "/" << m->nops << ")";
                    }
                }
                const auto n = std::min<uint64_t>(c->seq.load(), CAP);
                os << " events=" << c->seq.load() << " last:";
                for (uint64_t k = (n > 12 ? n - 12 : 0); k < n; ++k)
                {
                    os << ' ' << c->buf[k].tid << ':' << c->buf[k].kind << ':' << c->buf[k].a << ':' << c->buf[k].b;
                }
            }
            std::cerr << os.str() << std::endl;
            _exit(3);
        }
    }
}

std::string rle(const std::atomic<int>* v, int64_t n)
{
    if (n <= 0)
    {
        return "-";
    }
    std::ostringstream os;
    int64_t            i = 0;
    bool               first = true;
    while (i < n)
    {
        int64_t    j = i;
        const auto x = v[i].load();
        while (j < n && v[j].load() == x)
        {
            ++j;
        }
        os << (first ? "" : ",") << x << '*' << (j - i);
        first = false;
        i     = j;
    }
    return os.str();
}

std::string code(int64_t res)
{
    return res < 0 ? "-" : (res == BROKEN ? "X" : std::to_string(res));
}
} // namespace

std::string vh::execute(toks_t& t, std::string& aug)
{
    if (t.s() != "pool" || t.s() != "run")
    {
        throw bad_op("unknown op");
    }
    const auto asked      = t.i64();
    auto       ctx        = std::make_unique<ctx_t>();
    auto*      c          = ctx.get();
    c->dprob              = t.i64();
    c->dmax               = std::max<int64_t>(1, t.i64());
    c->spur               = t.i64();
    c->seed               = static_cast<uint64_t>(t.i64());
    const auto predestroy = t.i64();
    const auto type_dir   = t.i64();
    const auto type       = static_cast<int>(type_dir % 10);
    c->dir                = static_cast<int>(type_dir / 10);
    const auto S          = t.i64();
    if (asked < 0 || (asked > 64 && asked != 1000) || S < 1 || S > 8 || type_dir < 0 || type > 2 || c->dir > 3)
    {
        throw bad_op("bad scenario");
    }
    std::vector<std::vector<call_t*>> progs(static_cast<size_t>(S));
    for (auto& prog : progs)
    {
        const auto K = t.i64();
        for (int64_t k = 0; k < K; ++k)
        {
            auto m  = std::make_unique<call_t>();
            m->id   = static_cast<int>(c->calls.size());
            const auto kind = t.s();
            if (kind == "m")
            {
                m->is_map  = true;
                m->n       = t.i64();
                m->c       = t.i64();
                m->raise   = t.i64() != 0;
                m->work_us = t.i64();
                m->throws  = t.ints();
                if (m->n < 0 || m->n > 100000 || m->c < 0)
                {
                    throw bad_op("bad map call");
                }
                m->nops = m->c == 0 ? m->n : (m->n + m->c - 1) / m->c;
            }
            else if (kind == "e")
            {
                m->is_map   = false;
                m->n        = 1;
                m->c        = 0;
                m->raise    = t.i64() != 0;
                m->work_us  = t.i64();
                if (t.i64() != 0)
                {
                    m->throws.push_back(0);
                }
                m->waitmode = static_cast<int>(t.i64());
                m->nops     = 1;
            }
            else
            {
                throw bad_op("bad call kind");
            }
            std::sort(m->throws.begin(), m->throws.end());
            m->throws.erase(std::unique(m->throws.begin(), m->throws.end()), m->throws.end());
            m->eptrs.resize(m->throws.size());
            m->cnt   = std::make_unique<std::atomic<int>[]>(static_cast<size_t>(std::max<int64_t>(m->nops, 1)));
            m->cover = std::make_unique<std::atomic<int>[]>(static_cast<size_t>(std::max<int64_t>(m->n, 1)));
            for (int64_t i = 0; i < m->nops; ++i)
            {
                m->cnt[i].store(0);
            }
            for (int64_t i = 0; i < m->n; ++i)
            {
                m->cover[i].store(0);
            }
            prog.push_back(m.get());
            c->calls.push_back(std::move(m));
        }
    }
    if (!t.done())
    {
        throw bad_op("trailing tokens");
    }

    static uint64_t generation = 0;
    c->gen                     = ++generation;
    c->buf.resize(CAP);
    if (!g_watchdog_started.exchange(true))
    {
        std::thread(watchdog).detach();
    }
    const char* tmo = std::getenv("C17_HANG_MS");
    nano::verif::pool_hook().store(&hook);
    g_ctx.store(c, std::memory_order_release);
    bind_thread(c, 0);
#ifdef __SANITIZE_THREAD__
    constexpr long long default_timeout_ms = 60000;
#else
    constexpr long long default_timeout_ms = 20000;
#endif
    g_deadline_ms.store(now_ms() + (tmo != nullptr ? std::atoll(tmo) : default_timeout_ms));

    {
        auto pool = asked == 1000 ? std::make_unique<pool_t>() : std::make_unique<pool_t>(static_cast<size_t>(asked));
        c->size   = pool->size();
        c->phase.store(1);
        if (S == 1)
        {
            run_program(c, *pool, progs[0], type);
        }
        else
        {
            std::atomic<int64_t>     ready{0};
            std::vector<std::thread> threads;
            for (int64_t s = 0; s < S; ++s)
            {
                threads.emplace_back(
                    [&, s]
                    {
                        bind_thread(c, static_cast<int>(1 + s));
                        ready.fetch_add(1);
                        while (ready.load() < S)
                        {
                            std::this_thread::yield();
                        }
                        run_program(c, *pool, progs[static_cast<size_t>(s)], type);
                    });
            }
            for (auto& th : threads)
            {
                th.join();
            }
        }
        if (predestroy > 0)
        {
            std::this_thread::sleep_for(std::chrono::microseconds(predestroy));
        }
        if ((c->dir & 1) != 0)
        {
            stimulate(c, 5000);
        }
        c->phase.store(2);
        plog(ev_call_destroy, 0, 0);
        pool.reset();
    }
    c->phase.store(3);
    for (auto& m : c->calls)
    {
        if (!m->is_map && m->waitmode == 2)
        {
            wait_future(*m);
        }
    }
    c->phase.store(4);
    g_deadline_ms.store(0);
    g_ctx.store(nullptr, std::memory_order_release);
    nano::verif::pool_hook().store(nullptr);

    // augmented op: pool size + raw trace
    const auto nev = c->seq.load();
    {
        std::string s = aug;
        s += " size " + std::to_string(c->size) + " max " + std::to_string(pool_t::max_size());
        if (nev > CAP)
        {
            s += " notrace";
        }
        else
        {
            s.reserve(s.size() + nev * 10 + 32);
            s += " trace " + std::to_string(nev);
            char tmp[96];
            for (uint64_t k = 0; k < nev; ++k)
            {
                const auto& r = c->buf[k];
                std::snprintf(tmp, sizeof(tmp), " %d %d %lld %lld", r.tid, r.kind, static_cast<long long>(r.a),
                              static_cast<long long>(r.b));
                s += tmp;
            }
        }
        aug = std::move(s);
    }

    // canonical summary of the monitors
    int64_t queued = 0, execs = 0, ran_queued = 0, maxtnum = -1;
    std::string res;
    for (const auto& m : c->calls)
    {
        // expectation of the path, from the documented condition (not from the pool's trace)
        const bool seq = m->is_map && (c->size == 1 || (m->c == 0 ? m->n <= 1 : m->c >= m->n));
        execs += m->inv.load();
        if (!seq)
        {
            queued += m->nops;
            ran_queued += m->inv.load();
        }
        maxtnum = std::max(maxtnum, m->maxtnum.load());
        res += (res.empty() ? "" : ",") + code(m->res);
    }
    std::ostringstream os;
    os << "ok size=" << c->size << " calls=" << c->calls.size() << " queued=" << queued << " execs=" << execs
       << " dropped=" << (queued - ran_queued) << " maxtnum=" << (maxtnum < 0 ? std::string("-") : std::to_string(maxtnum))
       << " workers=" << __builtin_popcountll(c->tmask.load()) << " res=" << (res.empty() ? "none" : res)
       << " path=1 lock=1 quiet=1 mon=1 szok=1";
    os << " | maxsize=" << pool_t::max_size() << " sleeps=" << c->sleeps.load() << " spur=" << c->spurs.load()
       << " qmis=" << c->qmis.load() << " events=" << nev << " parks=" << c->parks.load() << " d1=" << c->d1.load()
       << " d2=" << c->d2.load() << " d1x=" << c->d1x.load() << " d2x=" << c->d2x.load();
    for (const auto& m : c->calls)
    {
        os << " ; c" << m->id << ' ' << (m->is_map ? "m" : "e") << " nops=" << m->nops << " inv=" << m->inv.load()
           << " fin=" << m->fin_at_return << " cnt=" << rle(m->cnt.get(), m->nops) << " cover=" << rle(m->cover.get(), m->n)
           << " minlen=" << (m->inv.load() == 0 ? 0 : m->minlen.load()) << " maxlen=" << m->maxlen.load() << " oob=" << m->oob.load()
           << " misal=" << m->misal.load() << " badtnum=" << m->badtnum.load() << " excl=" << m->excl.load()
           << " late=" << m->late.load() << " maxtnum=" << m->maxtnum.load() << " res=" << code(m->res) << " ranges=";
        const auto nraw = m->nraw.load();
        if (nraw > MAXT)
        {
            os << "many";
        }
        else if (nraw == 0)
        {
            os << "-";
        }
        else
        {
            std::vector<std::pair<int64_t, int64_t>> rs(m->raw, m->raw + nraw);
            std::sort(rs.begin(), rs.end());
            for (int k = 0; k < nraw; ++k)
            {
                os << (k ? "," : "") << rs[static_cast<size_t>(k)].first << ':' << rs[static_cast<size_t>(k)].second;
            }
        }
    }
    return os.str();
}

int main()
{
    return vh::main_loop();
}
