// C12 harness: k-fold / random splitters, samplers with and without replacement (uniform, weighted), the gboost sampler
// and sample_from_ball on the real library. Every op is self-contained. The oracle answers of the C++ standard library
// the Lean model takes as inputs (the permutation(s) of std::shuffle, the drawn positions, the normal draws) are
// reproduced here with the same library and the same generator (make_rng(seed)) and appended to the op line (`aug`).
#include "common.h"
#include <algorithm>
#include <nano/core/random.h>
#include <nano/core/sampling.h>
#include <nano/gboost/sampler.h>
#include <nano/splitter.h>
#include <random>

using namespace nano;
using vh::bad_op;
using vh::out_t;
using vh::toks_t;

namespace
{
indices_t to_indices(const std::vector<int64_t>& v)
{
    indices_t idx(static_cast<tensor_size_t>(v.size()));
    for (size_t i = 0; i < v.size(); ++i)
    {
        idx(static_cast<tensor_size_t>(i)) = v[i];
    }
    return idx;
}

void put(out_t& out, const indices_t& idx)
{
    out << static_cast<long long>(idx.size());
    for (tensor_size_t i = 0; i < idx.size(); ++i)
    {
        out << static_cast<long long>(idx(i));
    }
}

void put(out_t& out, const std::vector<int64_t>& v)
{
    out.ilist(v);
}

bool same_indices(const indices_t& a, const indices_t& b)
{
    return a.size() == b.size() && std::equal(std::begin(a), std::end(a), std::begin(b));
}

bool same_splits(const splitter_t::splits_t& a, const splitter_t::splits_t& b)
{
    if (a.size() != b.size())
    {
        return false;
    }
    for (size_t i = 0; i < a.size(); ++i)
    {
        if (a[i].first.size() != b[i].first.size() || a[i].second.size() != b[i].second.size() ||
            !std::equal(std::begin(a[i].first), std::end(a[i].first), std::begin(b[i].first)) ||
            !std::equal(std::begin(a[i].second), std::end(a[i].second), std::begin(b[i].second)))
        {
            return false;
        }
    }
    return true;
}

rsplitter_t make_splitter(const std::string& id, int64_t folds, int64_t seed, int64_t train_per)
{
    auto splitter = splitter_t::all().get(id);
    if (!splitter)
    {
        throw bad_op("no such splitter");
    }
    splitter->parameter("splitter::seed")  = seed;
    splitter->parameter("splitter::folds") = folds;
    if (id == "random")
    {
        splitter->parameter("splitter::random::train_per") = train_per;
    }
    return splitter;
}

// split + "equal seeds give equal splits": a second, independently configured object, a clone and a repeated call
std::string op_split(const std::string& id, const std::vector<int64_t>& samples, int64_t folds, int64_t seed,
                     int64_t train_per)
{
    const auto idx      = to_indices(samples);
    const auto splitter = make_splitter(id, folds, seed, train_per);
    const auto splits   = splitter->split(idx);
    const auto other    = make_splitter(id, folds, seed, train_per);
    const auto same     = same_splits(splits, other->split(idx)) && same_splits(splits, splitter->clone()->split(idx)) &&
                      same_splits(splits, splitter->split(idx));
    out_t out;
    out << "ok" << (same ? 1 : 0) << static_cast<long long>(splits.size());
    for (const auto& [train, valid] : splits)
    {
        put(out, train);
        put(out, valid);
    }
    return out.str();
}

gboost_subsample to_mode(const std::string& s)
{
    if (s == "off") return gboost_subsample::off;
    if (s == "subsample") return gboost_subsample::subsample;
    if (s == "bootstrap") return gboost_subsample::bootstrap;
    if (s == "wei_loss_bootstrap") return gboost_subsample::wei_loss_bootstrap;
    if (s == "wei_grad_bootstrap") return gboost_subsample::wei_grad_bootstrap;
    throw bad_op("mode");
}
} // namespace

std::string vh::execute(toks_t& toks, std::string& aug)
{
    const auto fam = toks.s();
    if (fam != "split")
    {
        throw bad_op("family");
    }
    const auto op = toks.s();
    out_t      extra; // the oracle answers appended to the op line

    if (op == "kfold" || op == "random")
    {
        const auto samples   = toks.ints();
        const auto folds     = toks.i64();
        const auto seed      = toks.i64();
        const auto train_per = (op == "random") ? toks.i64() : int64_t{0};
        if (seed < 0 || folds < 0 || folds > 200)
        {
            throw bad_op("seed/folds");
        }
        // what std::shuffle does to the samples with make_rng(seed): once (k-fold) or once per fold with the same
        // generator, in place (random)
        auto copy = samples;
        auto rng  = make_rng(static_cast<uint64_t>(seed));
        if (op == "kfold")
        {
            std::shuffle(copy.begin(), copy.end(), rng);
            put(extra, copy);
        }
        else
        {
            extra << static_cast<long long>(folds);
            for (int64_t fold = 0; fold < folds; ++fold)
            {
                std::shuffle(copy.begin(), copy.end(), rng);
                put(extra, copy);
            }
        }
        aug += " " + extra.str();
        return op_split(op == "kfold" ? "k-fold" : "random", samples, folds, seed, train_per);
    }

    if (op == "without")
    {
        const auto samples = toks.ints();
        const auto count   = toks.i64();
        const auto seed    = static_cast<uint64_t>(toks.i64());
        if (count < 0 || count > static_cast<int64_t>(samples.size()))
        {
            throw bad_op("count (assert)");
        }
        auto copy = samples;
        auto rrng = make_rng(seed); // the generator after the reproduced standard-library call
        std::shuffle(copy.begin(), copy.end(), rrng);
        put(extra, copy);
        aug += " " + extra.str();

        const auto idx  = to_indices(samples);
        auto       rng  = make_rng(seed);
        const auto sel  = sample_without_replacement(idx, count, rng);
        auto       rng2 = make_rng(seed);
        const auto sel2 = sample_without_replacement(idx, count, rng2);
        out_t      out;
        out << ((same_indices(sel, sel2) && rng == rng2 && rng == rrng) ? "ok" : "not-a-function-of-the-generator");
        put(out, sel);
        return out.str();
    }

    if (op == "with")
    {
        const auto samples = toks.ints();
        const auto count   = toks.i64();
        const auto seed    = static_cast<uint64_t>(toks.i64());
        if (count < 0 || samples.empty())
        {
            throw bad_op("count/samples (assert)");
        }
        auto rrng = make_rng(seed); // the generator after the reproduced standard-library calls
        {
            auto                 udist = make_udist<tensor_size_t>(0, static_cast<tensor_size_t>(samples.size()) - 1);
            std::vector<int64_t> draws(static_cast<size_t>(count));
            std::generate(draws.begin(), draws.end(), [&]() { return udist(rrng); });
            put(extra, draws);
            aug += " " + extra.str();
        }
        const auto idx  = to_indices(samples);
        auto       rng  = make_rng(seed);
        const auto sel  = sample_with_replacement(idx, count, rng);
        auto       rng2 = make_rng(seed);
        const auto sel2 = sample_with_replacement(idx, count, rng2);
        out_t      out;
        out << ((same_indices(sel, sel2) && rng == rng2 && rng == rrng) ? "ok" : "not-a-function-of-the-generator");
        put(out, sel);
        return out.str();
    }

    if (op == "wwith")
    {
        const auto samples = toks.ints();
        const auto weights = toks.fs();
        const auto count   = toks.i64();
        const auto seed    = static_cast<uint64_t>(toks.i64());
        // the two asserts of the weighted overload are compiled out (NDEBUG). Negative, NaN, all-zero weights and a weight
        // vector shorter than the samples have a defined behaviour (libstdc++'s discrete_distribution as coded) and are
        // executed; weights longer than the samples would read outside the tensor and are refused here.
        if (count < 0 || samples.empty() || weights.size() > samples.size())
        {
            throw bad_op("weights (reads outside)");
        }
        auto rrng = make_rng(seed); // the generator after the reproduced standard-library calls
        {
            auto wdist = std::discrete_distribution<tensor_size_t>(weights.begin(), weights.end());
            std::vector<int64_t> draws(static_cast<size_t>(count));
            std::generate(draws.begin(), draws.end(), [&]() { return wdist(rrng); });
            put(extra, draws);
            aug += " " + extra.str();
        }
        const auto idx = to_indices(samples);
        tensor1d_t w(static_cast<tensor_size_t>(weights.size()));
        for (size_t i = 0; i < weights.size(); ++i)
        {
            w(static_cast<tensor_size_t>(i)) = weights[i];
        }
        auto       rng = make_rng(seed);
        const auto sel = sample_with_replacement(idx, w, count, rng);
        // a function of the generator state: the same state again gives the same answer, and the generator has advanced
        // exactly as the reproduced standard-library calls did
        auto       rng2 = make_rng(seed);
        const auto sel2 = sample_with_replacement(idx, w, count, rng2);
        out_t      out;
        out << ((same_indices(sel, sel2) && rng == rng2 && rng == rrng) ? "ok" : "not-a-function-of-the-generator");
        put(out, sel);
        return out.str();
    }

    if (op == "gboost")
    {
        const auto smode   = toks.s();
        const auto mode    = to_mode(smode);
        const auto samples = toks.ints();
        const auto seed    = static_cast<uint64_t>(toks.i64());
        const auto ratio   = toks.f();
        const auto calls   = toks.i64();
        const auto total   = toks.i64();
        const auto gdim    = toks.i64();
        const auto values  = toks.fs();
        if (samples.empty() || calls < 0 || calls > 8 || total < 1 || gdim < 1 ||
            static_cast<int64_t>(values.size()) != total * gdim || !(ratio > 0.0) || !(ratio <= 1.0))
        {
            throw bad_op("gboost arguments");
        }
        for (const auto s : samples)
        {
            if (s < 0 || s >= total)
            {
                throw bad_op("sample out of the tensors");
            }
        }
        // errors_losses(1, sample) and gradients(sample, :, 0, 0) carry the given values
        tensor2d_t errors_losses(2, total);
        tensor4d_t gradients(total, gdim, 1, 1);
        errors_losses.zero();
        for (int64_t i = 0; i < total; ++i)
        {
            errors_losses(1, i) = values[static_cast<size_t>(i * gdim)];
            for (int64_t g = 0; g < gdim; ++g)
            {
                gradients(i, g, 0, 0) = values[static_cast<size_t>(i * gdim + g)];
            }
        }
        const auto idx = to_indices(samples);
        const auto n   = static_cast<int64_t>(samples.size());

        // the weights as sampler.cpp computes them
        std::vector<double> weights(samples.size(), 0.0);
        if (mode == gboost_subsample::wei_loss_bootstrap || mode == gboost_subsample::wei_grad_bootstrap)
        {
            double wmax = 0.0;
            for (int64_t i = 0; i < n; ++i)
            {
                const auto w = (mode == gboost_subsample::wei_loss_bootstrap) ? errors_losses(1, idx(i))
                                                                               : gradients.vector(idx(i)).lpNorm<2>();
                if (w < 0.0)
                {
                    throw bad_op("negative weight (assert)");
                }
                weights[static_cast<size_t>(i)] = w;
                wmax                            = std::max(wmax, w);
            }
            if (wmax <= 0.0)
            {
                throw bad_op("all-zero weights");
            }
        }

        // reproduce the standard-library calls of the sampler, one generator for all calls
        {
            const auto count = static_cast<int64_t>(ratio * static_cast<double>(n));
            auto       rng   = make_rng(seed);
            for (int64_t call = 0; call < calls; ++call)
            {
                if (mode == gboost_subsample::subsample)
                {
                    auto copy = samples;
                    std::shuffle(copy.begin(), copy.end(), rng);
                    put(extra, copy);
                }
                else if (mode == gboost_subsample::bootstrap)
                {
                    auto                 udist = make_udist<tensor_size_t>(0, n - 1);
                    std::vector<int64_t> draws(static_cast<size_t>(count));
                    std::generate(draws.begin(), draws.end(), [&]() { return udist(rng); });
                    put(extra, draws);
                }
                else if (mode != gboost_subsample::off)
                {
                    auto wdist = std::discrete_distribution<tensor_size_t>(weights.begin(), weights.end());
                    std::vector<int64_t> draws(static_cast<size_t>(count));
                    std::generate(draws.begin(), draws.end(), [&]() { return wdist(rng); });
                    put(extra, draws);
                }
            }
            if (!extra.str().empty())
            {
                aug += " " + extra.str();
            }
        }

        auto  sampler = gboost::sampler_t{idx, mode, seed, ratio};
        out_t out;
        out << "ok" << static_cast<long long>(calls);
        for (int64_t call = 0; call < calls; ++call)
        {
            put(out, sampler.sample(errors_losses, gradients));
        }
        return out.str();
    }

    if (op == "ball")
    {
        const auto x0v    = toks.fs();
        const auto radius = toks.f();
        const auto seed   = static_cast<uint64_t>(toks.i64());
        if (x0v.empty() || !(radius > 0.0))
        {
            throw bad_op("ball arguments (assert)");
        }
        const auto n = static_cast<tensor_size_t>(x0v.size());
        vector_t   x0(n);
        for (tensor_size_t i = 0; i < n; ++i)
        {
            x0(i) = x0v[static_cast<size_t>(i)];
        }
        // the draws of sample_from_ball, same distributions in the same order
        {
            auto rng          = make_rng(seed);
            auto sign_dist    = std::discrete_distribution({1, 1});
            auto epsilon_dist = std::normal_distribution<scalar_t>{0.5, 2.0};
            auto scale_dist   = std::uniform_real_distribution<scalar_t>(0.0, 1.0);
            vector_t u(n);
            for (tensor_size_t k = 0; k < n; ++k)
            {
                u(k) = epsilon_dist(rng) * (sign_dist(rng) == 0 ? -1.0 : +1.0);
            }
            const auto z = std::pow(scale_dist(rng), 1.0 / static_cast<scalar_t>(n));
            const auto s = u.lpNorm<2>();
            extra << static_cast<long long>(n);
            for (tensor_size_t k = 0; k < n; ++k)
            {
                extra << static_cast<double>(u(k));
            }
            extra << static_cast<double>(z) << static_cast<double>(s);
            aug += " " + extra.str();
        }
        auto       rng = make_rng(seed);
        const auto x   = sample_from_ball(x0, radius, rng);
        out_t      out;
        out << "ok" << static_cast<long long>(x.size());
        for (tensor_size_t i = 0; i < x.size(); ++i)
        {
            out << static_cast<double>(x(i));
        }
        return out.str();
    }

    if (op == "sampler")
    {
        // split sampler <mode> <samples> <seed> <ratio> <total> <gdim> <calls> (<values of the call: total*gdim>)^calls
        // one gboost::sampler_t object, `calls` consecutive sample() calls, each with its own losses / gradients
        // (errors_losses(1, i) = values[i*gdim], gradients(i, g, 0, 0) = values[i*gdim + g]); any value is allowed
        // (zero, negative, NaN, infinite: the asserts are compiled out and the behaviour is defined)
        const auto smode   = toks.s();
        const auto mode    = to_mode(smode);
        const auto samples = toks.ints();
        const auto seed    = static_cast<uint64_t>(toks.i64());
        const auto ratio   = toks.f();
        const auto total   = toks.i64();
        const auto gdim    = toks.i64();
        const auto calls   = toks.i64();
        if (calls < 0 || calls > 16 || total < 1 || gdim < 1 || !(ratio > 0.0) || !(ratio <= 1.0))
        {
            throw bad_op("sampler arguments");
        }
        if (samples.empty() && mode != gboost_subsample::off && mode != gboost_subsample::subsample)
        {
            throw bad_op("no sample to draw from (reads outside)");
        }
        for (const auto s : samples)
        {
            if (s < 0 || s >= total)
            {
                throw bad_op("sample out of the tensors");
            }
        }
        std::vector<tensor2d_t> losses;
        std::vector<tensor4d_t> grads;
        for (int64_t call = 0; call < calls; ++call)
        {
            const auto values = toks.fs();
            if (static_cast<int64_t>(values.size()) != total * gdim)
            {
                throw bad_op("values");
            }
            tensor2d_t errors_losses(2, total);
            tensor4d_t gradients(total, gdim, 1, 1);
            errors_losses.zero();
            for (int64_t i = 0; i < total; ++i)
            {
                errors_losses(1, i) = values[static_cast<size_t>(i * gdim)];
                for (int64_t g = 0; g < gdim; ++g)
                {
                    gradients(i, g, 0, 0) = values[static_cast<size_t>(i * gdim + g)];
                }
            }
            losses.push_back(errors_losses);
            grads.push_back(gradients);
        }
        const auto idx   = to_indices(samples);
        const auto n     = static_cast<int64_t>(samples.size());
        const auto count = static_cast<int64_t>(ratio * static_cast<double>(n));

        // the answers of the two standard-library calls that stay oracles of the model, one generator for all calls;
        // the weighted modes need none (the model computes the draws from the seed)
        {
            auto rng = make_rng(seed);
            for (int64_t call = 0; call < calls; ++call)
            {
                if (mode == gboost_subsample::subsample)
                {
                    auto copy = samples;
                    std::shuffle(copy.begin(), copy.end(), rng);
                    put(extra, copy);
                }
                else if (mode == gboost_subsample::bootstrap)
                {
                    auto                 udist = make_udist<tensor_size_t>(0, n - 1);
                    std::vector<int64_t> draws(static_cast<size_t>(count));
                    std::generate(draws.begin(), draws.end(), [&]() { return udist(rng); });
                    put(extra, draws);
                }
            }
            if (!extra.str().empty())
            {
                aug += " " + extra.str();
            }
        }

        // the object under test, a second one built from the same arguments (it must give the same answers: the object is a
        // function of its constructor arguments and its call history), and a copy taken after the first call, which must
        // continue exactly like the original
        auto sampler = gboost::sampler_t{idx, mode, seed, ratio};
        auto twin    = gboost::sampler_t{idx, mode, seed, ratio};
        bool same    = true;
        std::vector<indices_t> answers;
        for (int64_t call = 0; call < calls; ++call)
        {
            answers.push_back(sampler.sample(losses[static_cast<size_t>(call)], grads[static_cast<size_t>(call)]));
        }
        for (int64_t call = 0; call < calls; ++call)
        {
            const auto again = twin.sample(losses[static_cast<size_t>(call)], grads[static_cast<size_t>(call)]);
            same             = same && same_indices(again, answers[static_cast<size_t>(call)]);
        }
        out_t out;
        out << "ok" << (same ? 1 : 0) << static_cast<long long>(calls);
        for (const auto& a : answers)
        {
            put(out, a);
        }
        return out.str();
    }

    if (op == "hist")
    {
        // split hist <kfold|random> <K> cmd_1 … cmd_K   with cmd = set <slot> <folds|seed|train_per> <v> | split <slot> <samples>
        // | clone <slot>. Slot 0 is a fresh object of the factory, every clone appends a slot. For every `split` the harness
        // appends the shuffles a NEW generator make_rng(seed) produces (seed and folds read back from the object), and
        // compares the answer with the split of a fresh factory object given the same parameter values.
        const auto skind = toks.s();
        if (skind != "kfold" && skind != "random")
        {
            throw bad_op("kind");
        }
        const auto id = std::string(skind == "kfold" ? "k-fold" : "random");
        const auto K  = toks.i64();
        if (K < 0 || K > 64)
        {
            throw bad_op("K");
        }
        std::vector<rsplitter_t> objs;
        objs.push_back(splitter_t::all().get(id));
        out_t out;
        out << "ok" << static_cast<long long>(K);
        for (int64_t k = 0; k < K; ++k)
        {
            const auto cmd  = toks.s();
            const auto slot = toks.i64();
            if (cmd == "set")
            {
                const auto name  = toks.s();
                const auto value = toks.i64();
                const auto pname = name == "folds" ? "splitter::folds" :
                                   name == "seed"  ? "splitter::seed" :
                                   name == "train_per" ? "splitter::random::train_per" : "";
                if (pname[0] == 0)
                {
                    throw bad_op("parameter name");
                }
                if (slot < 0 || slot >= static_cast<int64_t>(objs.size()))
                {
                    out << "bad-slot";
                    continue;
                }
                try
                {
                    objs[static_cast<size_t>(slot)]->parameter(pname) = value;
                    out << "ok";
                }
                catch (const std::runtime_error&)
                {
                    out << "refused";
                }
            }
            else if (cmd == "clone")
            {
                if (slot < 0 || slot >= static_cast<int64_t>(objs.size()))
                {
                    out << "bad-slot";
                    continue;
                }
                objs.push_back(objs[static_cast<size_t>(slot)]->clone());
                out << "ok";
            }
            else if (cmd == "split")
            {
                const auto samples = toks.ints();
                if (slot < 0 || slot >= static_cast<int64_t>(objs.size()))
                {
                    out << "bad-slot";
                    continue;
                }
                const auto& obj   = *objs[static_cast<size_t>(slot)];
                const auto  seed  = obj.parameter("splitter::seed").value<uint64_t>();
                const auto  folds = obj.parameter("splitter::folds").value<int64_t>();
                // the record for the model
                {
                    auto copy = samples;
                    auto rng  = make_rng(seed);
                    const auto nperm = (skind == "kfold") ? int64_t{1} : folds;
                    extra << static_cast<long long>(nperm);
                    for (int64_t f = 0; f < nperm; ++f)
                    {
                        std::shuffle(copy.begin(), copy.end(), rng);
                        put(extra, copy);
                    }
                }
                const auto idx    = to_indices(samples);
                const auto splits = obj.split(idx);
                // a fresh object with the same parameter values
                const auto tp    = (skind == "random") ? obj.parameter("splitter::random::train_per").value<int64_t>() : 0;
                const auto fresh = make_splitter(id, folds, static_cast<int64_t>(seed), tp);
                const auto same  = same_splits(splits, fresh->split(idx));
                out << "S" << (same ? 1 : 0) << static_cast<long long>(splits.size());
                for (const auto& [train, valid] : splits)
                {
                    put(out, train);
                    put(out, valid);
                }
            }
            else
            {
                throw bad_op("history command");
            }
        }
        if (!extra.str().empty())
        {
            aug += " " + extra.str();
        }
        return out.str();
    }

    if (op == "unseeded")
    {
        // the overloads without a generator argument: make_rng() reads std::random_device, so there is nothing to hand to
        // the model; the answer goes to the property oracle only (the set structure must hold for every stream)
        const auto which = toks.s();
        out_t      out;
        out << "ok";
        if (which == "without")
        {
            const auto samples = toks.ints();
            const auto count   = toks.i64();
            if (count < 0 || count > static_cast<int64_t>(samples.size()))
            {
                throw bad_op("count (assert)");
            }
            put(out, sample_without_replacement(to_indices(samples), count));
        }
        else if (which == "with")
        {
            const auto samples = toks.ints();
            const auto count   = toks.i64();
            if (count < 0 || samples.empty())
            {
                throw bad_op("count/samples (assert)");
            }
            put(out, sample_with_replacement(to_indices(samples), count));
        }
        else if (which == "wwith")
        {
            const auto samples = toks.ints();
            const auto weights = toks.fs();
            const auto count   = toks.i64();
            if (count < 0 || samples.empty() || weights.size() != samples.size())
            {
                throw bad_op("weights");
            }
            tensor1d_t w(static_cast<tensor_size_t>(weights.size()));
            for (size_t i = 0; i < weights.size(); ++i)
            {
                w(static_cast<tensor_size_t>(i)) = weights[i];
            }
            put(out, sample_with_replacement(to_indices(samples), w, count));
        }
        else if (which == "ball" || which == "ballmap")
        {
            const auto x0v    = toks.fs();
            const auto radius = toks.f();
            if (x0v.empty() || !(radius > 0.0))
            {
                throw bad_op("ball arguments (assert)");
            }
            const auto n = static_cast<tensor_size_t>(x0v.size());
            vector_t   x0(n);
            for (tensor_size_t i = 0; i < n; ++i)
            {
                x0(i) = x0v[static_cast<size_t>(i)];
            }
            vector_t x(n);
            if (which == "ball")
            {
                x = sample_from_ball(x0, radius);
            }
            else
            {
                sample_from_ball(x0, radius, x);
            }
            out << static_cast<long long>(x.size());
            for (tensor_size_t i = 0; i < x.size(); ++i)
            {
                out << static_cast<double>(x(i));
            }
        }
        else
        {
            throw bad_op("unseeded overload");
        }
        return out.str();
    }

    throw bad_op("unknown op " + op);
}

int main()
{
    return vh::main_loop();
}
