// Shared by harness/c01.cpp and harness/c02.cpp: objective functions given on the op line, an independent counting and
// logging wrapper around the user function, the thread-local trace sink (hook H2) and one function that runs a solver.
//
// op line:   <family> run <solver id> <lsearch0|-> <lsearchk|-> <np> {<name> <f|i|s|p> <value…>}*np <function> <x0 list>
// function:  quad <n> <A: n*n list> <a: n list>            f(x) = 0.5 x'Ax + a'x
//            pwl <n> <m> <W: m*n list> <b: m list>         f(x) = max_i (W_i.x + b_i)   (convex, non-smooth)
//            bench <id> <dims> <summands>                  function_t::all().get(id)->make(dims, summands)
//            each followed by  <nc> {box <lo> <hi> | ball <r> | lineq <q list> <r> | linle <q list> <r>}*nc
#pragma once

#include "common.h"
#include <cstring>
#include <map>
#include <memory>
#include <nano/function.h>
#include <nano/solver.h>
#include <nano/solver/augmented.h>
#include <nano/solver/penalty.h>
#include <nano/verif.h>
#include <unordered_map>

namespace vs
{
using namespace nano;
using vh::bad_op;
using vh::out_t;
using vh::toks_t;

// ---- objective functions defined by the op line ---------------------------------------------------------------------
class quad_t final : public function_t
{
public:
    quad_t(matrix_t A, vector_t a)
        : function_t("quad", a.size())
        , m_A(std::move(A))
        , m_a(std::move(a))
    {
        convex(convexity::yes);
        smooth(smoothness::yes);
    }

    rfunction_t clone() const override { return std::make_unique<quad_t>(*this); }

    scalar_t do_vgrad(vector_cmap_t x, vector_map_t gx) const override
    {
        // plain loops: no Eigen reduction, the same order as the python oracle
        const auto n  = size();
        scalar_t   fx = 0.0;
        for (tensor_size_t i = 0; i < n; ++i)
        {
            scalar_t Ax = 0.0;
            for (tensor_size_t j = 0; j < n; ++j)
            {
                Ax += m_A(i, j) * x(j);
            }
            if (gx.size() == n)
            {
                gx(i) = Ax + m_a(i);
            }
            fx += x(i) * (0.5 * Ax + m_a(i));
        }
        return fx;
    }

private:
    matrix_t m_A;
    vector_t m_a;
};

class pwl_t final : public function_t
{
public:
    pwl_t(matrix_t W, vector_t b)
        : function_t("pwl", W.cols())
        , m_W(std::move(W))
        , m_b(std::move(b))
    {
        convex(convexity::yes);
        smooth(smoothness::no);
    }

    rfunction_t clone() const override { return std::make_unique<pwl_t>(*this); }

    scalar_t do_vgrad(vector_cmap_t x, vector_map_t gx) const override
    {
        const auto     n    = size();
        tensor_size_t  best = 0;
        scalar_t       fx   = 0.0;
        for (tensor_size_t i = 0; i < m_W.rows(); ++i)
        {
            scalar_t v = m_b(i);
            for (tensor_size_t j = 0; j < n; ++j)
            {
                v += m_W(i, j) * x(j);
            }
            if (i == 0 || v > fx)
            {
                fx   = v;
                best = i;
            }
        }
        if (gx.size() == n)
        {
            for (tensor_size_t j = 0; j < n; ++j)
            {
                gx(j) = m_W(best, j);
            }
        }
        return fx;
    }

private:
    matrix_t m_W;
    vector_t m_b;
};

// ---- the independent wrapper: counts and logs every evaluation ------------------------------------------------------
struct evlog_t
{
    struct ev_t
    {
        std::vector<double> x, g;
        double              f{0};
        bool                has_g{false};
    };

    std::vector<ev_t>                              evs;
    std::unordered_map<uint64_t, std::vector<size_t>> index; // hash of the bits of x -> evaluations at that x
    long                                           units{0}; // value evaluations + gradient evaluations
    long                                           fevals{0};
    long                                           gevals{0};

    static uint64_t hash(const double* x, size_t n)
    {
        uint64_t h = 1469598103934665603ULL;
        for (size_t i = 0; i < n; ++i)
        {
            uint64_t u;
            double   v = x[i] == 0.0 ? 0.0 : x[i]; // -0 == +0
            std::memcpy(&u, &v, 8);
            h ^= u;
            h *= 1099511628211ULL;
        }
        return h;
    }

    static bool same(double a, double b) { return a == b || (std::isnan(a) && std::isnan(b)); }

    // is (x, f [, g]) one of the logged evaluations? (bitwise, NaN == NaN)
    bool contains(const double* x, size_t n, double f, const double* g) const
    {
        const auto it = index.find(hash(x, n));
        if (it == index.end())
        {
            return false;
        }
        for (const auto k : it->second)
        {
            const auto& e = evs[k];
            if (e.x.size() != n || !same(e.f, f))
            {
                continue;
            }
            bool ok = true;
            for (size_t i = 0; i < n && ok; ++i)
            {
                ok = same(e.x[i], x[i]);
            }
            if (ok && g != nullptr)
            {
                ok = e.has_g;
                for (size_t i = 0; i < n && ok; ++i)
                {
                    ok = same(e.g[i], g[i]);
                }
            }
            if (ok)
            {
                return true;
            }
        }
        return false;
    }
};

class wrap_t final : public function_t
{
public:
    wrap_t(const function_t& f, std::shared_ptr<evlog_t> log)
        : function_t("wrap", f.size())
        , m_f(f.clone())
        , m_log(std::move(log))
    {
        convex(f.convex() ? convexity::yes : convexity::no);
        smooth(f.smooth() ? smoothness::yes : smoothness::no);
        strong_convexity(f.strong_convexity());
    }

    wrap_t(const wrap_t& o)
        : function_t(o)
        , m_f(o.m_f->clone())
        , m_log(o.m_log)
    {
    }

    rfunction_t clone() const override { return std::make_unique<wrap_t>(*this); }

    scalar_t do_vgrad(vector_cmap_t x, vector_map_t gx) const override
    {
        const auto with_g = gx.size() == x.size();
        const auto fx     = m_f->vgrad(x, gx);
        auto&      log    = *m_log;
        log.units += 1 + (with_g ? 1 : 0);
        log.fevals += 1;
        log.gevals += with_g ? 1 : 0;
        evlog_t::ev_t e;
        e.x.assign(x.data(), x.data() + x.size());
        e.f     = fx;
        e.has_g = with_g;
        if (with_g)
        {
            e.g.assign(gx.data(), gx.data() + gx.size());
        }
        log.index[evlog_t::hash(e.x.data(), e.x.size())].push_back(log.evs.size());
        log.evs.push_back(std::move(e));
        return fx;
    }

private:
    rfunction_t              m_f;
    std::shared_ptr<evlog_t> m_log;
};

// ---- trace sink ------------------------------------------------------------------------------------------------------
struct record_t
{
    std::string         tag;
    std::vector<double> v;
    long                units{0}; // evaluations counted by the wrapper when the record was emitted
};

struct tls_t
{
    std::vector<record_t>* records{nullptr};
    evlog_t*               log{nullptr};
};

inline tls_t& tls()
{
    static thread_local tls_t t;
    return t;
}

inline void sink(const char* tag, const double* values, size_t count)
{
    auto& t = tls();
    if (t.records != nullptr)
    {
        record_t r;
        r.tag = tag;
        r.v.assign(values, values + count);
        r.units = t.log != nullptr ? t.log->units : 0;
        t.records->push_back(std::move(r));
    }
}

// ---- parsing ---------------------------------------------------------------------------------------------------------
inline vector_t to_vector(const std::vector<double>& v)
{
    vector_t x(static_cast<tensor_size_t>(v.size()));
    for (size_t i = 0; i < v.size(); ++i)
    {
        x(static_cast<tensor_size_t>(i)) = v[i];
    }
    return x;
}

struct problem_t
{
    rfunction_t plain;      // the function of the op line (with its constraints), never handed to a solver
    std::string kind;       // quad | pwl | bench
    bool        smooth{false};
    bool        convex{false};
    int         constraints{0};
};

inline void add_constraints(toks_t& t, function_t& f)
{
    const auto nc = t.i64();
    for (int64_t c = 0; c < nc; ++c)
    {
        const auto kind = t.s();
        bool       ok   = false;
        if (kind == "box")
        {
            const auto lo = t.f();
            const auto hi = t.f();
            ok            = f.constrain(lo, hi);
        }
        else if (kind == "ball")
        {
            const auto r = t.f();
            ok           = f.constrain(constraint::euclidean_ball_inequality_t{vector_t::zero(f.size()), r});
        }
        else if (kind == "lineq")
        {
            const auto q = t.fs();
            const auto r = t.f();
            ok           = f.constrain(constraint::linear_equality_t{to_vector(q), r});
        }
        else if (kind == "linle")
        {
            const auto q = t.fs();
            const auto r = t.f();
            ok           = f.constrain(constraint::linear_inequality_t{to_vector(q), r});
        }
        else
        {
            throw bad_op("unknown constraint " + kind);
        }
        if (!ok)
        {
            throw bad_op("incompatible constraint " + kind);
        }
    }
}

inline problem_t parse_problem(toks_t& t)
{
    problem_t p;
    p.kind = t.s();
    if (p.kind == "quad")
    {
        const auto n = t.i64();
        const auto A = t.fs();
        const auto a = t.fs();
        if (n < 1 || static_cast<int64_t>(A.size()) != n * n || static_cast<int64_t>(a.size()) != n)
        {
            throw bad_op("quad sizes");
        }
        matrix_t Am(n, n);
        for (int64_t i = 0; i < n; ++i)
        {
            for (int64_t j = 0; j < n; ++j)
            {
                Am(i, j) = A[static_cast<size_t>(i * n + j)];
            }
        }
        p.plain = std::make_unique<quad_t>(std::move(Am), to_vector(a));
    }
    else if (p.kind == "pwl")
    {
        const auto n = t.i64();
        const auto m = t.i64();
        const auto W = t.fs();
        const auto b = t.fs();
        if (n < 1 || m < 1 || static_cast<int64_t>(W.size()) != n * m || static_cast<int64_t>(b.size()) != m)
        {
            throw bad_op("pwl sizes");
        }
        matrix_t Wm(m, n);
        for (int64_t i = 0; i < m; ++i)
        {
            for (int64_t j = 0; j < n; ++j)
            {
                Wm(i, j) = W[static_cast<size_t>(i * n + j)];
            }
        }
        p.plain = std::make_unique<pwl_t>(std::move(Wm), to_vector(b));
    }
    else if (p.kind == "bench")
    {
        const auto id       = t.s();
        const auto dims     = t.i64();
        const auto summands = t.i64();
        auto       proto    = function_t::all().get(id);
        if (!proto)
        {
            throw bad_op("unknown function " + id);
        }
        p.plain = proto->make(dims, summands);
        if (!p.plain)
        {
            throw bad_op("cannot make " + id);
        }
    }
    else
    {
        throw bad_op("unknown function kind " + p.kind);
    }
    p.smooth = p.plain->smooth();
    p.convex = p.plain->convex();
    return p;
}

inline rsolver_t make_solver(const std::string& id)
{
    if (id == "linear-penalty")
    {
        return std::make_unique<solver_linear_penalty_t>();
    }
    if (id == "quadratic-penalty")
    {
        return std::make_unique<solver_quadratic_penalty_t>();
    }
    if (id == "augmented-lagrangian")
    {
        return std::make_unique<solver_augmented_lagrangian_t>();
    }
    auto s = solver_t::all().get(id);
    if (!s)
    {
        throw bad_op("unknown solver " + id);
    }
    return s;
}

inline void configure(toks_t& t, solver_t& solver)
{
    const auto ls0 = t.s();
    const auto lsk = t.s();
    if (ls0 != "-")
    {
        solver.lsearch0(ls0);
    }
    if (lsk != "-")
    {
        solver.lsearchk(lsk);
    }
    const auto np = t.i64();
    for (int64_t k = 0; k < np; ++k)
    {
        const auto name = t.s();
        const auto kind = t.s();
        if (kind == "f")
        {
            solver.parameter(name) = t.f();
        }
        else if (kind == "i")
        {
            solver.parameter(name) = t.i64();
        }
        else if (kind == "s")
        {
            solver.parameter(name) = t.s();
        }
        else if (kind == "p")
        {
            const auto a           = t.f();
            const auto b           = t.f();
            solver.parameter(name) = std::make_tuple(a, b);
        }
        else
        {
            throw bad_op("parameter kind " + kind);
        }
    }
}

// `<family> list`: ids of the function registry with their convex / smooth flags
inline std::string list_functions()
{
    out_t out;
    out << "ok";
    for (const auto& id : function_t::all().ids())
    {
        const auto f = function_t::all().get(id);
        out << (id + ":" + std::to_string(f->convex() ? 1 : 0) + ":" + std::to_string(f->smooth() ? 1 : 0));
    }
    return out.str();
}

// ---- one run ---------------------------------------------------------------------------------------------------------
struct run_t
{
    std::string              sid;
    rsolver_t                solver;
    problem_t                problem;
    std::vector<double>      x0;
    std::shared_ptr<evlog_t> log;
    std::vector<record_t>    records;
    solver_state_t           state;
    double                   f0{0};   // value and gradient at x0, evaluated on the plain function before the run
    std::vector<double>      g0;
    double                   fr{0};   // value and gradient at the returned point, evaluated on the plain function after the run
    std::vector<double>      gr;
    long                     monitor_checked{0}; // records compared with the wrapper's log
    long                     monitor_bad{0};     // … that are not an evaluation of the wrapper's log
    std::string              monitor_first;      // tag of the first offender
};

inline bool has_param(const solver_t& s, const std::string& name)
{
    for (const auto& p : s.parameters())
    {
        if (p.name() == name)
        {
            return true;
        }
    }
    return false;
}

inline run_t run(toks_t& t)
{
    run_t r;
    r.sid    = t.s();
    r.solver = make_solver(r.sid);
    configure(t, *r.solver);
    r.problem = parse_problem(t);
    add_constraints(t, *r.problem.plain);
    r.problem.constraints = static_cast<int>(r.problem.plain->constraints().size());
    r.x0                  = t.fs();
    if (static_cast<tensor_size_t>(r.x0.size()) != r.problem.plain->size())
    {
        throw bad_op("x0 size");
    }
    if (!t.done() && t.s() != "#") // `# …` = bookkeeping of the generator (e.g. the minimiser of the quadratic), not read here
    {
        throw bad_op("trailing tokens");
    }

    const auto n  = r.problem.plain->size();
    const auto x0 = to_vector(r.x0);
    {
        vector_t g(n);
        r.f0 = r.problem.plain->vgrad(x0, g);
        r.g0.assign(g.data(), g.data() + n);
    }

    r.log = std::make_shared<evlog_t>();
    wrap_t wrapped(*r.problem.plain, r.log);
    // the constraints live on the function handed to the solver
    for (const auto& c : r.problem.plain->constraints())
    {
        auto copy = c;
        wrapped.constrain(std::move(copy));
    }

    // the function object handed to the solver has been evaluated BEFORE the call (as a caller computing f(x0) would): the counts
    // a solver reports are those of its own call; the wrapper's log is emptied again afterwards (seeded change C02-e2: constrained
    // solvers no longer clearing the statistics)
    {
        vector_t g(n);
        wrapped.vgrad(x0, g);
        wrapped.vgrad(x0);
        wrapped.vgrad(x0, g);
        *r.log = evlog_t{};
    }

    const auto logger       = make_null_logger();
    tls().records           = &r.records;
    tls().log               = r.log.get();
    nano::verif::trace_sink() = &sink;
    try
    {
        r.state = r.solver->minimize(wrapped, x0, logger);
    }
    catch (...)
    {
        nano::verif::trace_sink() = nullptr;
        tls().records             = nullptr;
        tls().log                 = nullptr;
        throw;
    }
    nano::verif::trace_sink() = nullptr;
    tls().records             = nullptr;
    tls().log                 = nullptr;

    if (r.state.x().size() == n)
    {
        vector_t g(n);
        r.fr = r.problem.plain->vgrad(r.state.x(), g);
        r.gr.assign(g.data(), g.data() + n);
    }

    // runtime monitor of the per-solver plumbing: every triple handed to update_if_better, every state a line search
    // leaves behind and every state shown to solver_t::done by an unconstrained solver must be an evaluation the
    // wrapper has seen (value always; gradient where the solver passes the gradient of that point)
    const auto un   = static_cast<size_t>(n);
    const auto osga = r.sid == "osga"; // update_if_better(x, fx) keeps the old gradient by design
    const auto cons = r.solver->type() == solver_type::constrained;
    for (const auto& rec : r.records)
    {
        const double* x = nullptr;
        const double* g = nullptr;
        double        f = 0.0;
        if (rec.tag == "state.update_if_better" && !cons)
        {
            // fx, m_fx, x, gx
            f = rec.v[0];
            x = &rec.v[3];
            g = osga ? nullptr : &rec.v[3 + un + 1];
        }
        else if (rec.tag == "lsearch.end" && !cons)
        {
            // t0, ok, t, x, gx, fx
            x = &rec.v[4];
            g = &rec.v[4 + un + 1];
            f = rec.v[4 + un + 1 + un];
        }
        else if (rec.tag == "solver.done" && !cons)
        {
            // iter_ok, converged, valid, fx, gradient test, fcalls, gcalls, x, gx
            f = rec.v[3];
            x = &rec.v[8];
            g = r.solver->type() == solver_type::line_search ? &rec.v[8 + un + 1] : nullptr;
        }
        else
        {
            continue;
        }
        ++r.monitor_checked;
        if (!r.log->contains(x, un, f, g))
        {
            if (r.monitor_bad++ == 0)
            {
                r.monitor_first = rec.tag;
            }
        }
    }
    return r;
}
} // namespace vs
