// C07 harness: one call of lsearchk_t::get on the real library per op line, observed WITHOUT any hook in /repo:
//  * the objective is wrapped in a function_t subclass that logs every evaluation (point, value, gradient);
//  * the trial step of an evaluation is read from the line search's own log line (`lsearchk_t::update` writes
//    "]: t=<step>,f=…" to the logger; the logger writes to a stream we own, set to std::hexfloat => exact) and is
//    cross-checked against the step reconstructed from the evaluation point, t = (x - x0).d / (d.d);
//  * the returned state is compared with an independent evaluation of the objective at x0 + t*d.
//
// op:   ls run <method> <interp> <max_iterations> <c1> <c2> <safeguard> <tau1> <tau2> <tau3> <delta> <cg-epsilon> <cg-theta>
//              <cg-gamma> <cg-ro> <t0> <function> <x0: n v…> <direction>
//         <function>  = fn <id> <dims> <summands> | quad <dims> <seed> <cond> <scale> |
//                       herm <curv-left> <curv-right> <3k t_1 f_1 g_1 … t_k f_k g_k>   (a user-supplied 1-D C1 function: the
//                       piecewise-cubic Hermite interpolant of the k >= 2 knots (t_i increasing, value f_i, slope g_i), continued
//                       outside [t_1, t_k] by f_end + g_end s + curv/2 s^2; the knot values are returned exactly at the knots.
//                       Used to replay model witnesses of Props/C07.lean on the real code: x0 = [0], direction `explicit 1 <1.0>`
//                       makes the line function phi(t) = f(t) exactly)
//         <direction> = neggrad | posgrad | zero | ortho | pert <n p…> (d_i = -g_i (1+p_i)) | qn <seed> (d = -H g, H SPD) |
//                       explicit <n d…>
// aug:  <op> @ <epsilon0> <epsilon1> <machine epsilon> <f0> <dg0> <valid0> <n> (<t_k> <f_k> <dg_k> <valid_k>)×n
// res:  ok <success> <t> <n> <t_1 … t_n> # <f0> <dg0> <valid0> <fS> <dgS> <validS> <fR> <dgR> <dx> <dgx> <tsource> <untouched>
//          <convex-quadratic> <dnorm> <xnorm>
//       (S = the state returned by get; R = objective re-evaluated by the harness at x0 + t*d; dx = max|state.x - (x0+t d)|;
//        dgx = max|state.gx - gradient re-evaluated at state.x|; tsource 1 = steps taken from the log and consistent with the
//        reconstruction, 0 = reconstructed; untouched = state bitwise equal to the state before the call)
//       skip <why>   when the start point is not a valid state (nothing to search from)
#include "common.h"
#include <cstdlib>
#include <iomanip>
#include <nano/core/numeric.h>
#include <nano/function.h>
#include <nano/lsearchk.h>
#include <nano/solver/state.h>
#include <sstream>

using namespace nano;
using vh::bad_op;
using vh::out_t;
using vh::toks_t;

namespace
{
struct eval_t
{
    vector_t x;
    vector_t g;
    scalar_t f{0};
};

using log_t = std::vector<eval_t>;

// logs every evaluation of the wrapped objective
class logged_function_t final : public function_t
{
public:
    logged_function_t(const function_t& inner, std::shared_ptr<log_t> log, std::shared_ptr<bool> enabled)
        : function_t("logged", inner.size())
        , m_inner(inner)
        , m_log(std::move(log))
        , m_enabled(std::move(enabled))
    {
        convex(inner.convex() ? convexity::yes : convexity::no);
        smooth(inner.smooth() ? smoothness::yes : smoothness::no);
        strong_convexity(inner.strong_convexity());
    }

    rfunction_t clone() const override { return std::make_unique<logged_function_t>(*this); }

    scalar_t do_vgrad(vector_cmap_t x, vector_map_t gx) const override
    {
        const auto f = m_inner.vgrad(x, gx);
        if (*m_enabled)
        {
            eval_t e;
            e.x = x;
            e.f = f;
            if (gx.size() == x.size())
            {
                e.g = gx;
            }
            m_log->push_back(std::move(e));
        }
        return f;
    }

private:
    const function_t&      m_inner;
    std::shared_ptr<log_t> m_log;
    std::shared_ptr<bool>  m_enabled;
};

// splitmix64: platform independent random numbers for the objects built from a seed
struct smix_t
{
    uint64_t s;

    explicit smix_t(uint64_t seed)
        : s(seed * 0x9E3779B97F4A7C15ULL + 0x1234567ULL)
    {
    }

    uint64_t u64()
    {
        s += 0x9E3779B97F4A7C15ULL;
        uint64_t z = s;
        z          = (z ^ (z >> 30)) * 0xBF58476D1CE4E5B9ULL;
        z          = (z ^ (z >> 27)) * 0x94D049BB133111EBULL;
        return z ^ (z >> 31);
    }

    double unit() { return static_cast<double>(u64() >> 11) / 9007199254740992.0; }

    double uniform(double a, double b) { return a + (b - a) * unit(); }
};

// convex quadratic f(x) = 1/2 x'Ax + a'x with A = Q diag(lambda) Q, Q a Householder reflection, lambda in scale*[1, cond]
class quadratic_t final : public function_t
{
public:
    quadratic_t(tensor_size_t dims, uint64_t seed, scalar_t cond, scalar_t scale)
        : function_t("verif-quadratic", dims)
        , m_a(dims)
        , m_A(dims, dims)
    {
        smix_t                 rng(seed);
        std::vector<scalar_t> v(static_cast<size_t>(dims)), lambda(static_cast<size_t>(dims));
        scalar_t              vv = 0;
        for (tensor_size_t i = 0; i < dims; ++i)
        {
            v[static_cast<size_t>(i)] = rng.uniform(-1, 1);
            vv += v[static_cast<size_t>(i)] * v[static_cast<size_t>(i)];
            lambda[static_cast<size_t>(i)] =
                scale * std::pow(cond, dims == 1 ? 0.0 : static_cast<scalar_t>(i) / static_cast<scalar_t>(dims - 1));
            m_a(i) = scale * rng.uniform(-1, 1);
        }
        if (vv == 0)
        {
            v[0] = 1;
            vv   = 1;
        }
        // Q = I - 2 v v'/(v'v); A = Q diag(lambda) Q (symmetric positive definite)
        const auto Q = [&](tensor_size_t i, tensor_size_t j)
        { return (i == j ? 1.0 : 0.0) - 2.0 * v[static_cast<size_t>(i)] * v[static_cast<size_t>(j)] / vv; };
        for (tensor_size_t i = 0; i < dims; ++i)
        {
            for (tensor_size_t j = 0; j < dims; ++j)
            {
                scalar_t s = 0;
                for (tensor_size_t k = 0; k < dims; ++k)
                {
                    s += Q(i, k) * lambda[static_cast<size_t>(k)] * Q(j, k);
                }
                m_A(i, j) = s;
            }
        }
        for (tensor_size_t i = 0; i < dims; ++i)
        {
            for (tensor_size_t j = 0; j < i; ++j)
            {
                const auto s = 0.5 * (m_A(i, j) + m_A(j, i));
                m_A(i, j)    = s;
                m_A(j, i)    = s;
            }
        }
        convex(convexity::yes);
        smooth(smoothness::yes);
    }

    rfunction_t clone() const override { return std::make_unique<quadratic_t>(*this); }

    scalar_t do_vgrad(vector_cmap_t x, vector_map_t gx) const override
    {
        const auto n = size();
        scalar_t   f = 0;
        for (tensor_size_t i = 0; i < n; ++i)
        {
            scalar_t Ax = 0;
            for (tensor_size_t j = 0; j < n; ++j)
            {
                Ax += m_A(i, j) * x(j);
            }
            if (gx.size() == n)
            {
                gx(i) = m_a(i) + Ax;
            }
            f += x(i) * (m_a(i) + 0.5 * Ax);
        }
        return f;
    }

private:
    vector_t m_a;
    matrix_t m_A;
};

// user-supplied line function: piecewise-cubic Hermite interpolant (C1), see the header comment
class hermite_t final : public function_t
{
public:
    hermite_t(std::vector<double> t, std::vector<double> f, std::vector<double> g, double curv_left, double curv_right)
        : function_t("verif-hermite", 1)
        , m_t(std::move(t))
        , m_f(std::move(f))
        , m_g(std::move(g))
        , m_curv_left(curv_left)
        , m_curv_right(curv_right)
    {
        convex(convexity::no);
        smooth(smoothness::yes);
    }

    rfunction_t clone() const override { return std::make_unique<hermite_t>(*this); }

    scalar_t do_vgrad(vector_cmap_t x, vector_map_t gx) const override
    {
        const auto t = x(0);
        const auto k = m_t.size();
        scalar_t   f = 0, g = 0;
        if (!(t >= m_t[0]))
        {
            const auto s = t - m_t[0];
            f            = m_f[0] + m_g[0] * s + 0.5 * m_curv_left * s * s;
            g            = m_g[0] + m_curv_left * s;
        }
        else if (t > m_t[k - 1])
        {
            const auto s = t - m_t[k - 1];
            f            = m_f[k - 1] + m_g[k - 1] * s + 0.5 * m_curv_right * s * s;
            g            = m_g[k - 1] + m_curv_right * s;
        }
        else
        {
            size_t i = 0;
            while (i + 2 < k && t >= m_t[i + 1])
            {
                ++i;
            }
            if (t == m_t[i])
            {
                f = m_f[i];
                g = m_g[i];
            }
            else if (t == m_t[i + 1])
            {
                f = m_f[i + 1];
                g = m_g[i + 1];
            }
            else
            {
                const auto h   = m_t[i + 1] - m_t[i];
                const auto s   = (t - m_t[i]) / h;
                const auto h00 = (1 + 2 * s) * (1 - s) * (1 - s);
                const auto h10 = s * (1 - s) * (1 - s);
                const auto h01 = s * s * (3 - 2 * s);
                const auto h11 = s * s * (s - 1);
                f              = h00 * m_f[i] + h10 * h * m_g[i] + h01 * m_f[i + 1] + h11 * h * m_g[i + 1];
                const auto d00 = 6 * s * (s - 1);
                const auto d10 = (1 - s) * (1 - 3 * s);
                const auto d01 = -d00;
                const auto d11 = s * (3 * s - 2);
                g              = d00 * m_f[i] / h + d10 * m_g[i] + d01 * m_f[i + 1] / h + d11 * m_g[i + 1];
            }
        }
        if (gx.size() == 1)
        {
            gx(0) = g;
        }
        return f;
    }

private:
    std::vector<double> m_t, m_f, m_g;
    double              m_curv_left, m_curv_right;
};

bool all_finite(const vector_t& v)
{
    for (tensor_size_t i = 0; i < v.size(); ++i)
    {
        if (!std::isfinite(v(i)))
        {
            return false;
        }
    }
    return true;
}

bool same_bits(const vector_t& a, const vector_t& b)
{
    return a.size() == b.size() && (a.size() == 0 || std::memcmp(a.data(), b.data(), sizeof(scalar_t) * static_cast<size_t>(a.size())) == 0);
}

vector_t to_vector(const std::vector<double>& v)
{
    vector_t x(static_cast<tensor_size_t>(v.size()));
    for (size_t i = 0; i < v.size(); ++i)
    {
        x(static_cast<tensor_size_t>(i)) = v[i];
    }
    return x;
}

// the steps lsearchk_t::update wrote to the logger: "...]: t=<step>,f=<value>,g=..."
std::vector<double> steps_from_log(const std::string& text, bool& parsed)
{
    std::vector<double> ts;
    parsed     = true;
    size_t pos = 0;
    while ((pos = text.find("]: t=", pos)) != std::string::npos)
    {
        pos += 5;
        const char* begin = text.c_str() + pos;
        char*       end   = nullptr;
        const auto  t     = std::strtod(begin, &end);
        if (end == begin)
        {
            parsed = false;
            continue;
        }
        if (std::strncmp(end, ",f=", 3) == 0)
        {
            ts.push_back(t);
        }
    }
    return ts;
}

interpolation_type to_interp(const std::string& s)
{
    if (s == "bisection") return interpolation_type::bisection;
    if (s == "quadratic") return interpolation_type::quadratic;
    if (s == "cubic") return interpolation_type::cubic;
    throw bad_op("interpolation " + s);
}
} // namespace

std::string vh::execute(toks_t& toks, std::string& aug)
{
    if (toks.s() != "ls" || toks.s() != "run")
    {
        throw bad_op("family/op");
    }
    const auto method    = toks.s();
    const auto interp    = toks.s();
    const auto maxit     = toks.i64();
    const auto c1        = toks.f();
    const auto c2        = toks.f();
    const auto safeguard = toks.f();
    const auto tau1      = toks.f();
    const auto tau2      = toks.f();
    const auto tau3      = toks.f();
    const auto delta     = toks.f();
    const auto cgeps     = toks.f();
    const auto cgtheta   = toks.f();
    const auto cggamma   = toks.f();
    const auto cgro      = toks.f();
    const auto t0        = toks.f();

    // objective
    rfunction_t inner;
    bool        convex_quadratic = false;
    const auto  fkind            = toks.s();
    if (fkind == "fn")
    {
        const auto id       = toks.s();
        const auto dims     = toks.i64();
        const auto summands = toks.i64();
        const auto proto    = function_t::all().get(id);
        if (!proto)
        {
            throw bad_op("unknown function " + id);
        }
        inner = proto->make(dims, summands);
        if (!inner || !inner->smooth())
        {
            throw bad_op("function is not smooth or cannot be built: " + id);
        }
        convex_quadratic = (id == "sphere" || id == "quadratic" || id == "axis-ellipsoid" || id == "rotated-ellipsoid" || id == "trid" ||
                            id.rfind("mse+ridge", 0) == 0);
    }
    else if (fkind == "quad")
    {
        const auto dims  = toks.i64();
        const auto seed  = static_cast<uint64_t>(toks.i64());
        const auto cond  = toks.f();
        const auto scale = toks.f();
        if (dims < 1 || dims > 64 || !(cond >= 1.0) || !(scale > 0.0))
        {
            throw bad_op("quad parameters");
        }
        inner            = std::make_unique<quadratic_t>(dims, seed, cond, scale);
        convex_quadratic = true;
    }
    else if (fkind == "herm")
    {
        const auto curv_left  = toks.f();
        const auto curv_right = toks.f();
        const auto knots      = toks.fs();
        if (knots.size() < 6 || knots.size() % 3 != 0 || !std::isfinite(curv_left) || !std::isfinite(curv_right))
        {
            throw bad_op("herm parameters");
        }
        std::vector<double> t, f, g;
        for (size_t i = 0; i < knots.size(); i += 3)
        {
            if (!std::isfinite(knots[i]) || !std::isfinite(knots[i + 1]) || !std::isfinite(knots[i + 2]) ||
                (!t.empty() && !(knots[i] > t.back())))
            {
                throw bad_op("herm knots");
            }
            t.push_back(knots[i]);
            f.push_back(knots[i + 1]);
            g.push_back(knots[i + 2]);
        }
        inner = std::make_unique<hermite_t>(std::move(t), std::move(f), std::move(g), curv_left, curv_right);
    }
    else
    {
        throw bad_op("function kind " + fkind);
    }

    const auto x0v = toks.fs();
    if (static_cast<tensor_size_t>(x0v.size()) != inner->size())
    {
        throw bad_op("x0 size");
    }
    const auto x0 = to_vector(x0v);

    auto       log      = std::make_shared<log_t>();
    auto       enabled  = std::make_shared<bool>(false);
    const auto function = logged_function_t{*inner, log, enabled};

    auto state = solver_state_t{function, x0};
    if (!state.valid())
    {
        return "skip invalid-start";
    }
    const auto n  = function.size();
    const auto g0 = state.gx();

    // direction
    vector_t   d(n);
    const auto dkind = toks.s();
    if (dkind == "neggrad" || dkind == "posgrad")
    {
        for (tensor_size_t i = 0; i < n; ++i)
        {
            d(i) = dkind == "neggrad" ? -g0(i) : g0(i);
        }
    }
    else if (dkind == "zero")
    {
        for (tensor_size_t i = 0; i < n; ++i)
        {
            d(i) = 0.0;
        }
    }
    else if (dkind == "ortho")
    {
        // g0.d = g0(0)*g0(1) + g0(1)*(-g0(0)) = 0 exactly
        for (tensor_size_t i = 0; i < n; ++i)
        {
            d(i) = 0.0;
        }
        if (n >= 2)
        {
            d(0) = g0(1);
            d(1) = -g0(0);
        }
    }
    else if (dkind == "pert")
    {
        const auto p = toks.fs();
        if (static_cast<tensor_size_t>(p.size()) != n)
        {
            throw bad_op("pert size");
        }
        for (tensor_size_t i = 0; i < n; ++i)
        {
            d(i) = -g0(i) * (1.0 + p[static_cast<size_t>(i)]);
        }
    }
    else if (dkind == "qn")
    {
        // d = -(I + w1 w1' + w2 w2') g0: a symmetric positive definite operator, as a quasi-Newton update would give
        smix_t rng(static_cast<uint64_t>(toks.i64()));
        for (tensor_size_t i = 0; i < n; ++i)
        {
            d(i) = -g0(i);
        }
        for (int k = 0; k < 2; ++k)
        {
            std::vector<double> w(static_cast<size_t>(n));
            double              wg = 0;
            const double        s  = std::pow(10.0, rng.uniform(-1, 1));
            for (tensor_size_t i = 0; i < n; ++i)
            {
                w[static_cast<size_t>(i)] = s * rng.uniform(-1, 1);
                wg += w[static_cast<size_t>(i)] * g0(i);
            }
            for (tensor_size_t i = 0; i < n; ++i)
            {
                d(i) -= w[static_cast<size_t>(i)] * wg;
            }
        }
    }
    else if (dkind == "explicit")
    {
        const auto dv = toks.fs();
        if (static_cast<tensor_size_t>(dv.size()) != n)
        {
            throw bad_op("direction size");
        }
        d = to_vector(dv);
    }
    else
    {
        throw bad_op("direction kind " + dkind);
    }
    if (!toks.done())
    {
        throw bad_op("trailing tokens");
    }

    // the line search object
    auto lsearch = lsearchk_t::all().get(method);
    if (!lsearch)
    {
        throw bad_op("method " + method);
    }
    lsearch->parameter("lsearchk::tolerance")      = std::make_tuple(c1, c2);
    lsearch->parameter("lsearchk::max_iterations") = static_cast<int64_t>(maxit);
    if (method == "backtrack")
    {
        lsearch->parameter("lsearchk::backtrack::interpolation") = to_interp(interp);
        lsearch->parameter("lsearchk::backtrack::safeguard")     = safeguard;
    }
    else if (method == "lemarechal")
    {
        lsearch->parameter("lsearchk::lemarechal::interpolation") = to_interp(interp);
        lsearch->parameter("lsearchk::lemarechal::safeguard")     = safeguard;
        lsearch->parameter("lsearchk::lemarechal::tau1")          = tau1;
    }
    else if (method == "fletcher")
    {
        lsearch->parameter("lsearchk::fletcher::interpolation") = to_interp(interp);
        lsearch->parameter("lsearchk::fletcher::tau1")          = tau1;
        lsearch->parameter("lsearchk::fletcher::tau23")         = std::make_tuple(tau2, tau3);
    }
    else if (method == "morethuente")
    {
        lsearch->parameter("lsearchk::morethuente::delta") = delta;
    }
    else if (method == "cgdescent")
    {
        lsearch->parameter("lsearchk::cgdescent::epsilon") = cgeps;
        lsearch->parameter("lsearchk::cgdescent::theta")   = cgtheta;
        lsearch->parameter("lsearchk::cgdescent::gamma")   = cggamma;
        lsearch->parameter("lsearchk::cgdescent::ro")      = cgro;
    }

    const auto state0 = state;
    const auto f0     = state0.fx();
    const auto dg0    = state0.dg(d);

    std::ostringstream stream;
    stream << std::hexfloat;
    const auto logger = make_stream_logger(stream);

    *enabled              = true;
    const auto [ok, step] = lsearch->get(state, d, t0, logger);
    *enabled              = false;

    // the trial steps: from the log (exact), cross-checked with the reconstruction from the evaluation points
    bool       parsed = false;
    const auto tlog   = steps_from_log(stream.str(), parsed);
    const auto nev    = log->size();

    // reconstruction t = (x - x0).d / (d.d), with d scaled by its largest component so that d.d cannot overflow
    scalar_t dmax = 0;
    for (tensor_size_t i = 0; i < n; ++i)
    {
        dmax = std::max(dmax, std::fabs(d(i)));
    }
    scalar_t dd = 0;
    for (tensor_size_t i = 0; i < n; ++i)
    {
        dd += (d(i) / dmax) * (d(i) / dmax);
    }
    std::vector<double> trec(nev), ttol(nev);
    for (size_t k = 0; k < nev; ++k)
    {
        const auto& x   = (*log)[k].x;
        scalar_t    num = 0, mag = 0;
        for (tensor_size_t i = 0; i < n; ++i)
        {
            num += (x(i) - x0(i)) * (d(i) / dmax);
            mag += (std::fabs(x(i)) + std::fabs(x0(i))) * std::fabs(d(i) / dmax);
        }
        trec[k] = num / dd / dmax;
        ttol[k] = 64.0 * std::numeric_limits<scalar_t>::epsilon() * (mag / dd / dmax + std::fabs(trec[k]));
    }
    bool tsource = parsed && tlog.size() == nev;
    if (tsource)
    {
        for (size_t k = 0; k < nev; ++k)
        {
            if (std::isfinite(trec[k]) && std::isfinite(tlog[k]) && !(std::fabs(tlog[k] - trec[k]) <= ttol[k]))
            {
                tsource = false;
            }
        }
    }
    const auto& ts = tsource ? tlog : trec;

    // oracle answers for the model
    out_t a;
    a << epsilon0<scalar_t>() << epsilon1<scalar_t>() << std::numeric_limits<scalar_t>::epsilon() << f0 << dg0
      << (state0.valid() ? 1 : 0) << static_cast<long long>(nev);
    for (size_t k = 0; k < nev; ++k)
    {
        const auto& e     = (*log)[k];
        const auto  has_g = e.g.size() == n;
        const auto  dg    = has_g ? e.g.dot(d) : std::nan("");
        const auto  valid = std::isfinite(e.f) && all_finite(e.x) && has_g && all_finite(e.g);
        a << ts[k] << e.f << dg << (valid ? 1 : 0);
    }
    aug += " @ " + a.str();

    // the returned state against an independent evaluation at x0 + step * d
    vector_t xr(n);
    for (tensor_size_t i = 0; i < n; ++i)
    {
        xr(i) = x0(i) + step * d(i);
    }
    scalar_t dx = 0;
    for (tensor_size_t i = 0; i < n; ++i)
    {
        const auto diff = std::fabs(state.x()(i) - xr(i));
        dx              = (diff > dx || std::isnan(diff)) ? diff : dx;
    }
    vector_t   gr(n), gs(n);
    const auto fR  = inner->vgrad(xr, gr);
    const auto dgR = gr.dot(d);
    inner->vgrad(state.x(), gs);
    scalar_t dgx = 0;
    for (tensor_size_t i = 0; i < n; ++i)
    {
        const auto diff = std::fabs(state.gx()(i) - gs(i));
        dgx             = (diff > dgx || std::isnan(diff)) ? diff : dgx;
    }
    const scalar_t fS        = state.fx();
    const bool     untouched = same_bits(state.x(), state0.x()) && same_bits(state.gx(), state0.gx()) &&
                           std::memcmp(&f0, &fS, sizeof(scalar_t)) == 0;

    scalar_t dnorm = 0, xnorm = 0;
    for (tensor_size_t i = 0; i < n; ++i)
    {
        dnorm = std::max(dnorm, std::fabs(d(i)));
        xnorm = std::max(xnorm, std::fabs(x0(i)));
    }

    out_t out;
    out << "ok" << (ok ? 1 : 0) << step << static_cast<long long>(nev);
    for (size_t k = 0; k < nev; ++k)
    {
        out << ts[k];
    }
    out << "#" << f0 << dg0 << (state0.valid() ? 1 : 0) << state.fx() << state.dg(d) << (state.valid() ? 1 : 0) << fR << dgR << dx
        << dgx << (tsource ? 1 : 0) << (untouched ? 1 : 0) << (convex_quadratic ? 1 : 0) << dnorm << xnorm;
    return out.str();
}

int main()
{
    return vh::main_loop();
}
