// C18 harness (TESTING, not proof): concurrent vs sequential execution of the same calls on shared const objects, and full
// fits under different pool sizes / CPU affinity / injected delays. One self-contained op per line:
//
//   shared minimize <solver> <ls0|-> <lsk|-> <T> <reps> <seed> <eps> <max_evals> <nf> {<function id> <dims>}*nf
//   shared loss     <loss> <n> <tsize> <T> <reps> <seed>
//   shared dataset  <seed> <samples> <d> <ncat> <dsthreads> <T> <reps>
//   shared predict  linear|gboost <seed> <samples> <d> <ncat> <dsthreads> <T> <reps> [<batch> <maxn>]
//       batch (default 16) = linear::batch / gboost::batch of the fitted model; maxn (default 0 = no cap) = every predict call
//       gets at most maxn samples. maxn <= batch or dsthreads = 1: every call takes the INLINE path of pool_t::map (the caller
//       runs the operator itself with tnum = 0), so T concurrent callers all use slot 0 of whatever per-thread buffers exist
//       -> `ok <T> <calls> S <r…> C <r…> A <r…>`: the results (one token each) of the calls executed alone one after the other
//          (S), then the same calls from T threads at once (C), then alone again (A). Every thread has its own function
//          objects / buffers / logger; the solver, loss, tensors, dataset and fitted model are shared.
//   wfit <wlearner> <seed> <samples> <d> <ncat> <task> <dup> <reps> <nconf> {<dsthreads> <hwcap> <ncpus> <delay>}*nconf
//       -> `ok <nconf> {<reps> {<score> <pred-hash> 1 <nf> f…}*reps}*nconf`      (default criterion; bit-identical inputs)
//       dup: 0 = the residuals follow the FIRST continuous feature, 1 = the same with duplicated columns, 2 = the residuals
//       follow the LAST continuous feature, 3 = the LAST categorical feature (a fit that skips trailing features of the
//       iterator's feature list for some (features, threads) pairs then differs from the sequential reference)
//   fit linear <seed> <samples> <d> <ncat> <task> <loss> <folds> <split_seed> <model> <scaling> <solver> <eps> <max_evals>
//              <noise> <batch> <dup> <nconf> {<dsthreads> <hwcap> <ncpus> <delay>}*nconf
//   fit gboost <seed> <samples> <d> <ncat> <task> <loss> <folds> <split_seed> <max_rounds> <patience> <wscale> <shrinkage>
//              <subsample> <protos,…> <criterion> <gseed> <noise> <batch> <dup> <nconf> {<dsthreads> <hwcap> <ncpus> <delay>}*nconf
//       -> `ok <nconf> {C <dataset pool size> <max pool size> <trials> <optimum trial> F <k> {<nf> f…}*k P <n> p… Z <z> D …}*nconf`
//          a configuration = (threads of the dataset's pool, cap on pool_t::max_size() — i.e. the size of the pool ml::tune
//          creates itself —, number of CPUs the process may run on, per-mille probability of a delay at every pool event);
//          `noise`: amplitude of the uniform noise added to the planted target; for classification also the probability
//          with which a label is flipped (non-separable data).
//          Z = number of boosting rounds with a degenerate scale (see `degenerate_scalings`);
//          D = how the weak-learner fits of this configuration relate to those of the first (reference) configuration. The
//          prototypes are wrapped into a pass-through decorator (`traced_wlearner_t`) that records the inputs (fit samples,
//          gradients) and the outcome (score, fitted learner) of EVERY successful weak-learner fit of the run - every booster
//          (trial, fold), every round, kept by early stopping or not. A fit is matched with the reference's fits of the same
//          prototype on the same fit samples whose gradients agree within 1e-6 (relative, max-norm):
//            `D ref` | `D same <fits> <matched> <max gdiff>`: every matched fit has a partner that fitted the same structure
//              (prototype, features, thresholds, hashes, tree nodes)
//            | `D flip <fits> <matched> <flips> <proto> <gdiff> <same> <score ref> <score cfg> <mC> <mR>`: <flips> matched fits
//              fitted another structure than all their partners (or than a partner with bit-identical inputs); the numbers of the
//              worst one: gdiff = relative max-norm difference of the gradients, same = 1 when they are bit-identical, mC = (RSS of
//              the REFERENCE's learner on this configuration's inputs − RSS of this configuration's own learner) / Σ residual²,
//              mR the other way round (the candidates of one prototype have the same number of parameters: every criterion is
//              monotone in the RSS)
//   reduce sum <samples> <W> <D> <K> {<worker> <v_1 … v_D>}*K      nano::sum_reduce on linear::accumulator_t for an explicit schedule
//   reduce min <W> <K> {<worker> <score> <feature>}*K              nano::min_reduce_feature on first-best caches for an explicit schedule
//   reduce minlex <W> <K> {<worker> <score> <feature>}*K           the same on caches updated with the lexicographic test of table.cpp
//   shared setlabel <T> <seed>                                     (never generated: demonstration of feature_t::set_label)
//   wtie mclassfirst <wlearner> <dsthreads> <reps>                 table fit on a dataset whose multi-label features (indices 0, 1)
//                                                                   precede the single-label ones (2, 3); features 0 and 3 tie
//                                                                   exactly -> `ok <reps> f…` (before 5de0896: 3 or 0 by the schedule)
//
// pool_t::max_size() is std::thread::hardware_concurrency(); the hook H1b of DESIGN.md (an env override) does not exist in
// /repo, so this harness INTERPOSES std::thread::hardware_concurrency at link time (the definition below wins over the one
// of libstdc++.so for all code linked into this executable, libnano's static libraries included).
#include "common.h"
#include <atomic>
#include <chrono>
#include <cstdlib>
#include <functional>
#include <nano/core/parallel.h>
#include <nano/core/reduce.h>
#include <nano/dataset.h>
#include <nano/dataset/iterator.h>
#include <nano/datasource.h>
#include <nano/function.h>
#include <any>
#include <mutex>
#include <nano/gboost/model.h>
#include <nano/gboost/result.h>
#include <nano/generator/pairwise_product.h>
#include <nano/linear.h>
#include <nano/linear/accumulator.h>
#include <nano/loss.h>
#include <nano/machine/params.h>
#include <nano/machine/result.h>
#include <nano/solver.h>
#include <nano/splitter.h>
#include <nano/tuner.h>
#include <nano/generator/elemwise_identity.h>
#include <nano/wlearner.h>
#include <nano/wlearner/affine.h>
#include <nano/wlearner/criterion.h>
#include <nano/wlearner/dtree.h>
#include <nano/wlearner/hinge.h>
#include <nano/wlearner/stump.h>
#include <nano/wlearner/table.h>
#include <sched.h>
#include <thread>
#include <unistd.h>

using namespace nano;
using vh::bad_op;
using vh::out_t;
using vh::toks_t;

namespace
{
std::atomic<unsigned> g_hw_cap{0U};
} // namespace

// link-time interposition (see the header comment)
unsigned int std::thread::hardware_concurrency() noexcept
{
    const auto cap = g_hw_cap.load(std::memory_order_relaxed);
    if (cap != 0U)
    {
        return cap;
    }
    const auto n = sysconf(_SC_NPROCESSORS_ONLN);
    return n > 0 ? static_cast<unsigned int>(n) : 1U;
}

namespace
{
// ---- small utilities ---------------------------------------------------------------------------------------------------
struct rng64_t // splitmix64
{
    uint64_t s;

    uint64_t u64()
    {
        s += 0x9E3779B97F4A7C15ULL;
        uint64_t z = s;
        z          = (z ^ (z >> 30)) * 0xBF58476D1CE4E5B9ULL;
        z          = (z ^ (z >> 27)) * 0x94D049BB133111EBULL;
        return z ^ (z >> 31);
    }

    double unit() { return static_cast<double>(u64() >> 11) / 9007199254740992.0; }

    double uniform(const double a, const double b) { return a + (b - a) * unit(); }
};

uint64_t fnv(const void* data, const size_t bytes, uint64_t h = 1469598103934665603ULL)
{
    const auto* p = static_cast<const unsigned char*>(data);
    for (size_t i = 0; i < bytes; ++i)
    {
        h ^= p[i];
        h *= 1099511628211ULL;
    }
    return h;
}

std::string hex64(const uint64_t u)
{
    char buf[32];
    std::snprintf(buf, sizeof(buf), "%016llx", static_cast<unsigned long long>(u));
    return buf;
}

template <class ttensor>
std::string hash_tensor(const ttensor& t)
{
    auto h = fnv(t.data(), static_cast<size_t>(t.size()) * sizeof(*t.data()));
    for (const auto d : t.dims())
    {
        h = fnv(&d, sizeof(d), h);
    }
    return "h" + hex64(h);
}

std::string sanitize(std::string s)
{
    for (auto& c : s)
    {
        if (c == ' ' || c == '\n' || c == '\t' || c == ',')
        {
            c = '_';
        }
    }
    return s.substr(0, 80);
}

// ---- schedule perturbation through the pool hook H1 --------------------------------------------------------------------
std::atomic<int>      g_delay_permille{0};
std::atomic<uint64_t> g_delay_seed{1};

void pool_hook(const int event, const void*, long long, long long)
{
    const auto permille = g_delay_permille.load(std::memory_order_relaxed);
    if (permille <= 0)
    {
        return;
    }
    thread_local uint64_t state = 0;
    if (state == 0)
    {
        state = g_delay_seed.load(std::memory_order_relaxed) ^ (std::hash<std::thread::id>{}(std::this_thread::get_id()) | 1U);
    }
    state ^= state << 13;
    state ^= state >> 7;
    state ^= state << 17;
    if (static_cast<int>(state % 1000U) >= permille)
    {
        return;
    }
    using nano::verif::pool_event;
    const auto ev = static_cast<pool_event>(event);
    // sleep only outside the critical sections of the queue; inside them just give up the time slice
    const auto outside = ev == pool_event::pre_lock || ev == pool_event::run_begin || ev == pool_event::run_end ||
                         ev == pool_event::map_enter || ev == pool_event::block_begin || ev == pool_event::map_return ||
                         ev == pool_event::join_begin;
    if (outside)
    {
        std::this_thread::sleep_for(std::chrono::microseconds(1 + (state >> 20) % 60U));
    }
    else
    {
        std::this_thread::yield();
    }
}

// ---- restrict the CPUs this process (and the threads it creates from now on) may run on -------------------------------
class affinity_t
{
public:
    explicit affinity_t(const int ncpus)
    {
        CPU_ZERO(&m_old);
        m_have = sched_getaffinity(0, sizeof(m_old), &m_old) == 0;
        if (m_have && ncpus > 0)
        {
            cpu_set_t set;
            CPU_ZERO(&set);
            int taken = 0;
            for (int cpu = 0; cpu < CPU_SETSIZE && taken < ncpus; ++cpu)
            {
                if (CPU_ISSET(cpu, &m_old))
                {
                    CPU_SET(cpu, &set);
                    ++taken;
                }
            }
            m_changed = sched_setaffinity(0, sizeof(set), &set) == 0;
        }
    }

    affinity_t(const affinity_t&)            = delete;
    affinity_t& operator=(const affinity_t&) = delete;

    ~affinity_t()
    {
        if (m_changed)
        {
            sched_setaffinity(0, sizeof(m_old), &m_old);
        }
    }

private:
    cpu_set_t m_old;
    bool      m_have{false};
    bool      m_changed{false};
};

struct config_t
{
    int64_t dsthreads, hwcap, ncpus, delay;
};

std::vector<config_t> read_configs(toks_t& toks)
{
    const auto            n = toks.i64();
    std::vector<config_t> configs;
    if (n < 1 || n > 16)
    {
        throw bad_op("configs");
    }
    for (int64_t i = 0; i < n; ++i)
    {
        config_t c{};
        c.dsthreads = toks.i64();
        c.hwcap     = toks.i64();
        c.ncpus     = toks.i64();
        c.delay     = toks.i64();
        if (c.dsthreads < 1 || c.dsthreads > 64 || c.hwcap < 0 || c.hwcap > 64 || c.ncpus < 0 || c.ncpus > 64 || c.delay < 0 ||
            c.delay > 1000)
        {
            throw bad_op("config");
        }
        configs.push_back(c);
    }
    return configs;
}

// RAII: apply one configuration for the duration of a scope
class scoped_config_t
{
public:
    scoped_config_t(const config_t& c, const uint64_t seed)
        : m_affinity(static_cast<int>(c.ncpus))
    {
        g_hw_cap.store(static_cast<unsigned>(c.hwcap));
        g_delay_seed.store(seed * 2654435761ULL + 12345U);
        g_delay_permille.store(static_cast<int>(c.delay));
    }

    scoped_config_t(const scoped_config_t&)            = delete;
    scoped_config_t& operator=(const scoped_config_t&) = delete;

    ~scoped_config_t()
    {
        g_delay_permille.store(0);
        g_hw_cap.store(0U);
    }

private:
    affinity_t m_affinity;
};

// ---- sequential / concurrent / sequential execution of the same calls -----------------------------------------------
using call_t  = std::function<std::string()>;
using calls_t = std::vector<std::vector<call_t>>; // [thread][rep]

std::string guarded(const call_t& call)
{
    try
    {
        return call();
    }
    catch (const std::exception& e)
    {
        return "EXC:" + sanitize(e.what());
    }
    catch (...)
    {
        return "EXC:unknown";
    }
}

std::string run_phases(const calls_t& calls)
{
    const auto                            T = calls.size();
    std::vector<std::vector<std::string>> S(T), C(T), A(T);

    for (size_t t = 0; t < T; ++t)
    {
        for (const auto& call : calls[t])
        {
            S[t].push_back(guarded(call));
        }
    }
    {
        std::atomic<size_t>      waiting{T};
        std::vector<std::thread> threads;
        threads.reserve(T);
        for (size_t t = 0; t < T; ++t)
        {
            threads.emplace_back(
                [&, t]()
                {
                    waiting.fetch_sub(1);
                    while (waiting.load() > 0)
                    {
                        std::this_thread::yield();
                    }
                    for (const auto& call : calls[t])
                    {
                        C[t].push_back(guarded(call));
                    }
                });
        }
        for (auto& thread : threads)
        {
            thread.join();
        }
    }
    for (size_t t = 0; t < T; ++t)
    {
        for (const auto& call : calls[t])
        {
            A[t].push_back(guarded(call));
        }
    }

    size_t ncalls = 0;
    for (const auto& c : calls)
    {
        ncalls += c.size();
    }
    out_t out;
    out << "ok" << static_cast<long long>(T) << static_cast<long long>(ncalls);
    for (const auto* phase : {&S, &C, &A})
    {
        out << (phase == &S ? "S" : phase == &C ? "C" : "A");
        for (const auto& per_thread : *phase)
        {
            for (const auto& r : per_thread)
            {
                out << r;
            }
        }
    }
    return out.str();
}

void check_threads(const int64_t T, const int64_t reps)
{
    if (T < 1 || T > 32 || reps < 1 || reps > 16)
    {
        throw bad_op("threads/reps");
    }
}

// ---- shared minimize -------------------------------------------------------------------------------------------------
std::string state_token(const solver_state_t& state)
{
    std::string s = "st" + std::to_string(static_cast<int>(state.status()));
    s += ",f" + vh::f2h(state.fx());
    s += ",g" + vh::f2h(state.gradient_test());
    s += ",c" + std::to_string(state.fcalls()) + "/" + std::to_string(state.gcalls());
    s += ",x";
    for (tensor_size_t i = 0; i < state.x().size(); ++i)
    {
        s += (i == 0 ? "" : ";") + vh::f2h(state.x()(i));
    }
    return s;
}

std::string op_shared_minimize(toks_t& toks)
{
    const auto solver_id = toks.s();
    const auto ls0       = toks.s();
    const auto lsk       = toks.s();
    const auto T         = toks.i64();
    const auto reps      = toks.i64();
    const auto seed      = static_cast<uint64_t>(toks.i64());
    const auto eps       = toks.f();
    const auto max_evals = toks.i64();
    const auto nf        = toks.i64();
    check_threads(T, reps);
    if (nf < 1 || nf > 16)
    {
        throw bad_op("functions");
    }
    std::vector<rfunction_t> protos;
    for (int64_t i = 0; i < nf; ++i)
    {
        const auto id   = toks.s();
        const auto dims = toks.i64();
        auto       p    = function_t::all().get(id);
        if (!p || dims < 1 || dims > 64)
        {
            throw bad_op("function id/dims");
        }
        auto f = p->make(dims, 10);
        if (!f)
        {
            throw bad_op("function make");
        }
        protos.push_back(std::move(f));
    }
    if (!toks.done())
    {
        throw bad_op("trailing tokens");
    }

    // the ONE shared solver instance
    auto solver = solver_t::all().get(solver_id);
    if (!solver)
    {
        throw bad_op("solver id");
    }
    if (ls0 != "-")
    {
        solver->lsearch0(ls0);
    }
    if (lsk != "-")
    {
        solver->lsearchk(lsk);
    }
    solver->parameter("solver::epsilon")   = eps;
    solver->parameter("solver::max_evals") = max_evals;
    const solver_t& shared = *solver;

    // per (thread, rep): an own function object, an own starting point, an own logger
    struct job_t
    {
        rfunction_t function;
        vector_t    x0;
        logger_t    logger;
    };

    std::vector<std::vector<std::shared_ptr<job_t>>> jobs(static_cast<size_t>(T));
    calls_t                                          calls(static_cast<size_t>(T));
    for (int64_t t = 0; t < T; ++t)
    {
        for (int64_t r = 0; r < reps; ++r)
        {
            auto  rng = rng64_t{seed * 1000003ULL + static_cast<uint64_t>(t) * 131ULL + static_cast<uint64_t>(r) + 7U};
            auto& p   = protos[static_cast<size_t>((t + r) % nf)];
            auto  job = std::make_shared<job_t>(job_t{p->clone(), vector_t{p->size()}, make_null_logger()});
            for (tensor_size_t i = 0; i < job->x0.size(); ++i)
            {
                job->x0(i) = rng.uniform(-1.0, 1.0);
            }
            jobs[static_cast<size_t>(t)].push_back(job);
            calls[static_cast<size_t>(t)].emplace_back(
                [job, &shared]() { return state_token(shared.minimize(*job->function, job->x0, job->logger)); });
        }
    }
    return run_phases(calls);
}

// ---- shared loss ----------------------------------------------------------------------------------------------------
std::string op_shared_loss(toks_t& toks)
{
    const auto loss_id = toks.s();
    const auto n       = toks.i64();
    const auto tsize   = toks.i64();
    const auto T       = toks.i64();
    const auto reps    = toks.i64();
    const auto seed    = static_cast<uint64_t>(toks.i64());
    check_threads(T, reps);
    if (n < 1 || n > 5000 || tsize < 1 || tsize > 16 || !toks.done())
    {
        throw bad_op("loss arguments");
    }
    const auto loss = loss_t::all().get(loss_id);
    if (!loss)
    {
        throw bad_op("loss id");
    }
    const auto classification = loss_id.rfind("s-", 0) == 0 || loss_id.rfind("m-", 0) == 0;
    const auto single         = loss_id.rfind("s-", 0) == 0;

    // the shared tensors
    auto       rng = rng64_t{seed * 7919ULL + 3U};
    tensor4d_t targets(n, tsize, 1, 1);
    tensor4d_t outputs(n, tsize, 1, 1);
    for (tensor_size_t i = 0; i < n; ++i)
    {
        const auto hot = static_cast<tensor_size_t>(rng.u64() % static_cast<uint64_t>(tsize));
        for (tensor_size_t k = 0; k < tsize; ++k)
        {
            outputs(i, k, 0, 0) = rng.uniform(-2.0, 2.0);
            if (!classification)
            {
                targets(i, k, 0, 0) = rng.uniform(-2.0, 2.0);
            }
            else if (single)
            {
                targets(i, k, 0, 0) = (tsize == 1) ? ((rng.u64() & 1U) ? 1.0 : -1.0) : (k == hot ? 1.0 : -1.0);
            }
            else
            {
                targets(i, k, 0, 0) = (rng.u64() & 1U) ? 1.0 : -1.0;
            }
        }
    }
    const tensor4d_t& ctargets = targets;
    const tensor4d_t& coutputs = outputs;
    const loss_t&     shared   = *loss;

    calls_t calls(static_cast<size_t>(T));
    for (int64_t t = 0; t < T; ++t)
    {
        for (int64_t r = 0; r < reps; ++r)
        {
            // every call works on its own range of the shared tensors with its own buffers
            auto       prng  = rng64_t{seed + static_cast<uint64_t>(t) * 977ULL + static_cast<uint64_t>(r) * 13ULL};
            const auto begin = (r == 0) ? tensor_size_t{0} : static_cast<tensor_size_t>(prng.u64() % static_cast<uint64_t>(n));
            const auto end   = (r == 0) ? n : begin + 1 + static_cast<tensor_size_t>(prng.u64() % static_cast<uint64_t>(n - begin));
            calls[static_cast<size_t>(t)].emplace_back(
                [&ctargets, &coutputs, &shared, begin, end]()
                {
                    const auto range = make_range(begin, end);
                    tensor1d_t errors(range.size());
                    tensor1d_t values(range.size());
                    tensor4d_t vgrads(cat_dims(range.size(), make_dims(ctargets.size<1>(), 1, 1)));
                    shared.error(ctargets.slice(range), coutputs.slice(range), errors.tensor());
                    shared.value(ctargets.slice(range), coutputs.slice(range), values.tensor());
                    shared.vgrad(ctargets.slice(range), coutputs.slice(range), vgrads.tensor());
                    return "e" + hash_tensor(errors) + ",v" + hash_tensor(values) + ",g" + hash_tensor(vgrads) + ",v0=" +
                           vh::f2h(values(0)) + ",n" + std::to_string(range.size());
                });
        }
    }
    return run_phases(calls);
}

// ---- synthetic data ---------------------------------------------------------------------------------------------------
// `d` continuous features, `ncat` categorical features with 3 classes, then the target: a scalar (planted affine + table
// function plus uniform noise of amplitude `noise`) or a class label (of the planted function plus noise, flipped /
// re-drawn with probability `noise` so that no weak learner separates the classes). With `dup` the continuous features
// with an even index are bit-identical copies of feature 0 (exact score ties between distinct features).
class synth_datasource_t final : public datasource_t
{
public:
    synth_datasource_t(const uint64_t seed, const tensor_size_t samples, const tensor_size_t d, const tensor_size_t ncat,
                       const int classes, const double noise, const bool dup)
        : datasource_t("synth")
        , m_seed(seed)
        , m_samples(samples)
        , m_d(d)
        , m_ncat(ncat)
        , m_classes(classes)
        , m_noise(noise)
        , m_dup(dup)
    {
    }

    rdatasource_t clone() const override { return std::make_unique<synth_datasource_t>(*this); }

private:
    void do_load() override
    {
        features_t features;
        for (tensor_size_t i = 0; i < m_d; ++i)
        {
            features.push_back(feature_t{"x" + std::to_string(i)}.scalar(feature_type::float64));
        }
        for (tensor_size_t i = 0; i < m_ncat; ++i)
        {
            features.push_back(feature_t{"c" + std::to_string(i)}.sclass(strings_t{"a", "b", "c"}));
        }
        if (m_classes == 0)
        {
            features.push_back(feature_t{"y"}.scalar(feature_type::float64));
        }
        else
        {
            strings_t labels;
            for (int c = 0; c < m_classes; ++c)
            {
                labels.push_back("k" + std::to_string(c));
            }
            features.push_back(feature_t{"y"}.sclass(labels));
        }
        const auto itarget = static_cast<tensor_size_t>(features.size()) - 1;
        resize(m_samples, features, static_cast<size_t>(itarget));

        auto rng = rng64_t{m_seed * 0x9E3779B97F4A7C15ULL + 77U};

        std::vector<double> weights(static_cast<size_t>(m_d));
        for (auto& w : weights)
        {
            w = rng.uniform(-1.0, 1.0);
        }
        std::vector<double> tables(static_cast<size_t>(3 * m_ncat));
        for (auto& t : tables)
        {
            t = rng.uniform(-1.0, 1.0);
        }
        const auto bias = rng.uniform(-0.5, 0.5);

        for (tensor_size_t sample = 0; sample < m_samples; ++sample)
        {
            auto y  = bias;
            auto x0 = 0.0;
            for (tensor_size_t i = 0; i < m_d; ++i)
            {
                auto x = rng.uniform(-1.0, 1.0);
                if (i == 0)
                {
                    x0 = x;
                }
                else if (m_dup && i % 2 == 0)
                {
                    x = x0;
                }
                set(sample, i, x);
                y += weights[static_cast<size_t>(i)] * x;
            }
            for (tensor_size_t i = 0; i < m_ncat; ++i)
            {
                const auto c = static_cast<int32_t>(rng.u64() % 3U);
                set(sample, m_d + i, c);
                y += tables[static_cast<size_t>(3 * i + c)];
            }
            y += m_noise * rng.uniform(-1.0, 1.0);
            const auto flip = rng.unit() < m_noise;
            const auto draw = rng.u64();
            if (m_classes == 0)
            {
                set(sample, itarget, y);
            }
            else if (m_classes == 2)
            {
                const auto label = static_cast<int32_t>(y < bias ? 0 : 1);
                set(sample, itarget, flip ? 1 - label : label);
            }
            else
            {
                const auto label = static_cast<int32_t>(y < bias - 0.4 ? 0 : (y < bias + 0.4 ? 1 : 2));
                set(sample, itarget, flip ? static_cast<int32_t>(draw % 3U) : label);
            }
        }
    }

    uint64_t      m_seed;
    tensor_size_t m_samples;
    tensor_size_t m_d;
    tensor_size_t m_ncat;
    int           m_classes;
    double        m_noise;
    bool          m_dup;
};

struct data_args_t
{
    uint64_t      seed;
    tensor_size_t samples, d, ncat;
    int           classes;
};

int read_task(const std::string& task)
{
    const auto classes = task == "reg" ? 0 : task == "cls2" ? 2 : task == "cls3" ? 3 : -1;
    if (classes < 0)
    {
        throw bad_op("task");
    }
    return classes;
}

void check_data(const data_args_t& a)
{
    if (a.samples < 8 || a.samples > 5000 || a.d < 0 || a.d > 32 || a.ncat < 0 || a.ncat > 8 || a.d + a.ncat < 1)
    {
        throw bad_op("data arguments");
    }
}

// the dataset's features are the categorical ones first (generator order), then the continuous ones
dataset_t make_dataset(const datasource_t& datasource, const size_t threads, const bool products = false)
{
    auto dataset = dataset_t{datasource, threads};
    dataset.add<sclass_identity_generator_t>();
    dataset.add<scalar_identity_generator_t>();
    if (products)
    {
        dataset.add<pairwise_product_generator_t>();
    }
    return dataset;
}

indices_t subset(const tensor_size_t total, const uint64_t seed, const bool all)
{
    if (all)
    {
        return arange(0, total);
    }
    auto                       rng = rng64_t{seed};
    std::vector<tensor_size_t> keep;
    for (tensor_size_t i = 0; i < total; ++i)
    {
        if (rng.u64() % 3U != 0U)
        {
            keep.push_back(i);
        }
    }
    if (keep.empty())
    {
        keep.push_back(0);
    }
    indices_t samples(static_cast<tensor_size_t>(keep.size()));
    for (size_t i = 0; i < keep.size(); ++i)
    {
        samples(static_cast<tensor_size_t>(i)) = keep[i];
    }
    return samples;
}

// ---- shared dataset ------------------------------------------------------------------------------------------------
std::string op_shared_dataset(toks_t& toks)
{
    data_args_t a{};
    a.seed               = static_cast<uint64_t>(toks.i64());
    a.samples            = toks.i64();
    a.d                  = toks.i64();
    a.ncat               = toks.i64();
    a.classes            = 0;
    const auto dsthreads = toks.i64();
    const auto T         = toks.i64();
    const auto reps      = toks.i64();
    check_threads(T, reps);
    check_data(a);
    if (dsthreads < 1 || dsthreads > 64 || !toks.done())
    {
        throw bad_op("dataset arguments");
    }
    auto datasource = synth_datasource_t{a.seed, a.samples, a.d, a.ncat, 0, 0.1, false};
    datasource.load();
    const auto       dataset_ = make_dataset(datasource, static_cast<size_t>(dsthreads), a.d >= 2);
    const dataset_t& dataset  = dataset_;

    calls_t calls(static_cast<size_t>(T));
    for (int64_t t = 0; t < T; ++t)
    {
        for (int64_t r = 0; r < reps; ++r)
        {
            const auto samples = std::make_shared<indices_t>(
                subset(dataset.samples(), a.seed + static_cast<uint64_t>(t) * 31ULL + static_cast<uint64_t>(r), r == 0 && t % 2 == 0));
            calls[static_cast<size_t>(t)].emplace_back(
                [&dataset, samples]()
                {
                    // per-thread buffers
                    tensor2d_t   flatten;
                    tensor4d_t   targets;
                    sclass_mem_t sclass;
                    scalar_mem_t scalar;
                    uint64_t     h = 1469598103934665603ULL;

                    const auto fmap = dataset.flatten(*samples, flatten);
                    h               = fnv(fmap.data(), static_cast<size_t>(fmap.size()) * sizeof(scalar_t), h);
                    const auto tmap = dataset.targets(*samples, targets);
                    h               = fnv(tmap.data(), static_cast<size_t>(tmap.size()) * sizeof(scalar_t), h);
                    for (tensor_size_t f = 0; f < dataset.features(); ++f)
                    {
                        const auto feature = dataset.feature(f);
                        if (feature.is_sclass())
                        {
                            const auto v = dataset.select(*samples, f, sclass);
                            h            = fnv(v.data(), static_cast<size_t>(v.size()) * sizeof(int32_t), h);
                        }
                        else if (feature.is_scalar())
                        {
                            const auto v = dataset.select(*samples, f, scalar);
                            h            = fnv(v.data(), static_cast<size_t>(v.size()) * sizeof(scalar_t), h);
                        }
                    }
                    // the iterators on top of the shared dataset (own per-worker buffers, the dataset's shared pool)
                    auto iterator = flatten_iterator_t{dataset, *samples};
                    iterator.batch(11);
                    iterator.scaling(scaling_type::standard);
                    tensor2d_t inputs(samples->size(), dataset.columns());
                    tensor4d_t outputs(cat_dims(samples->size(), dataset.target_dims()));
                    iterator.loop(
                        [&](const tensor_range_t range, size_t, tensor2d_cmap_t fl, tensor4d_cmap_t tg)
                        {
                            inputs.slice(range)  = fl;
                            outputs.slice(range) = tg;
                        });
                    h = fnv(inputs.data(), static_cast<size_t>(inputs.size()) * sizeof(scalar_t), h);
                    h = fnv(outputs.data(), static_cast<size_t>(outputs.size()) * sizeof(scalar_t), h);
                    return "h" + hex64(h) + ",n" + std::to_string(samples->size()) + ",c" + std::to_string(fmap.size<1>()) +
                           ",f0=" + vh::f2h(fmap(0, 0));
                });
        }
    }
    return run_phases(calls);
}

// ---- models ----------------------------------------------------------------------------------------------------------
void remove_logs(const ml::result_t& result)
{
    for (tensor_size_t trial = 0; trial < result.trials(); ++trial)
    {
        for (tensor_size_t fold = 0; fold < result.folds(); ++fold)
        {
            std::remove(result.log_path(trial, fold).c_str());
        }
    }
    std::remove(result.refit_log_path().c_str());
}

std::vector<std::string> split_commas(const std::string& s)
{
    std::vector<std::string> out;
    std::string              cur;
    for (const char ch : s)
    {
        if (ch == ',')
        {
            out.push_back(cur);
            cur.clear();
        }
        else
        {
            cur.push_back(ch);
        }
    }
    out.push_back(cur);
    return out;
}

struct fit_common_t
{
    data_args_t a;
    std::string loss;
    int64_t     folds, split_seed;
};

fit_common_t read_fit_common(toks_t& toks)
{
    fit_common_t c{};
    c.a.seed     = static_cast<uint64_t>(toks.i64());
    c.a.samples  = toks.i64();
    c.a.d        = toks.i64();
    c.a.ncat     = toks.i64();
    c.a.classes  = read_task(toks.s());
    c.loss       = toks.s();
    c.folds      = toks.i64();
    c.split_seed = toks.i64();
    check_data(c.a);
    if (c.folds < 2 || c.folds > 10)
    {
        throw bad_op("folds");
    }
    return c;
}

indices_t fit_samples(const tensor_size_t total)
{
    std::vector<tensor_size_t> keep;
    for (tensor_size_t i = 0; i < total; ++i)
    {
        if (i % 7 != 3)
        {
            keep.push_back(i);
        }
    }
    indices_t samples(static_cast<tensor_size_t>(keep.size()));
    for (size_t i = 0; i < keep.size(); ++i)
    {
        samples(static_cast<tensor_size_t>(i)) = keep[i];
    }
    return samples;
}

void print_features(out_t& out, const std::vector<indices_t>& lists)
{
    out << static_cast<long long>(lists.size());
    for (const auto& features : lists)
    {
        out << static_cast<long long>(features.size());
        for (tensor_size_t i = 0; i < features.size(); ++i)
        {
            out << features(i);
        }
    }
}

void print_fit(out_t& out, const dataset_t& dataset, const ml::result_t& result, const std::vector<indices_t>& features,
               const tensor4d_t& predictions)
{
    out << "C" << static_cast<long long>(dataset.concurrency()) << static_cast<long long>(parallel::pool_t::max_size())
        << result.trials() << result.optimum_trial();
    out << "F";
    print_features(out, features);
    out << "P" << static_cast<long long>(predictions.size());
    for (tensor_size_t i = 0; i < predictions.size(); ++i)
    {
        out << predictions(i);
    }
}

// ---- tracing every weak-learner fit of a boosting run through a pass-through decorator of the prototypes ---------------
struct call_rec_t
{
    std::string m_proto;     ///< type id of the wrapped weak learner
    scalar_t    m_score{0};  ///< the value returned by the real fit
    std::string m_structure; ///< the discrete part of what was fitted: features, thresholds, hashes, tree nodes
    uint64_t    m_shash{0};  ///< hash of the fit samples
    indices_t   m_samples;   ///< the fit samples
    tensor4d_t  m_gradients; ///< the gradients
    rwlearner_t m_fitted;    ///< clone of the wrapped learner right after the fit (before any scaling)
    std::atomic<bool> m_predicted{false}; ///< gboost evaluated it on the samples: it won its boosting round
    std::atomic<bool> m_scaled{false};    ///< … and was scaled: the round was completed
    std::atomic<bool> m_tiny{false};      ///< … by a factor below 1e-10
};

using rcall_rec_t = std::shared_ptr<call_rec_t>;
using call_log_t  = std::vector<rcall_rec_t>;

std::mutex g_log_mutex;
call_log_t g_log; ///< the successful weak-learner fits of the running `fit gboost` configuration (any thread, any booster)

std::string structure_of(const wlearner_t& wl)
{
    std::string s = wl.type_id() + ":";
    for (const auto f : wl.features())
    {
        s += std::to_string(f) + ",";
    }
    if (const auto* const p = dynamic_cast<const stump_wlearner_t*>(&wl); p != nullptr)
    {
        s += "t" + vh::f2h(p->threshold());
    }
    if (const auto* const p = dynamic_cast<const hinge_wlearner_t*>(&wl); p != nullptr)
    {
        s += "t" + vh::f2h(p->threshold()) + (p->hinge() == hinge_type::left ? "L" : "R");
    }
    if (const auto* const p = dynamic_cast<const table_wlearner_t*>(&wl); p != nullptr)
    {
        for (const auto h : p->hashes())
        {
            s += "h" + std::to_string(static_cast<unsigned long long>(h));
        }
        for (const auto t : p->hash2tables())
        {
            s += "m" + std::to_string(t);
        }
    }
    if (const auto* const p = dynamic_cast<const dtree_wlearner_t*>(&wl); p != nullptr)
    {
        for (const auto& node : p->nodes())
        {
            s += "n" + std::to_string(node.m_feature) + "/" + vh::f2h(node.m_threshold) + "/" + std::to_string(node.m_next) + "/" +
                 std::to_string(node.m_table);
        }
    }
    return s;
}

// forwards everything to the wrapped (real) weak learner; only remembers what went into a fit and what came out
class traced_wlearner_t final : public wlearner_t
{
public:
    explicit traced_wlearner_t(rwlearner_t inner)
        : wlearner_t("traced")
        , m_inner(std::move(inner))
    {
    }

    traced_wlearner_t(const traced_wlearner_t& other)
        : wlearner_t(other)
        , m_inner(other.m_inner->clone())
        , m_rec(other.m_rec)
    {
    }

    traced_wlearner_t& operator=(const traced_wlearner_t&) = delete;

    rwlearner_t clone() const override { return std::make_unique<traced_wlearner_t>(*this); }

    void scale(const vector_t& scale) override
    {
        if (std::getenv("C18_TRACE") != nullptr) // debugging aid
        {
            std::fprintf(stderr, "SCALE thread=%zx %s x0=%.17g n=%lld\n", std::hash<std::thread::id>{}(std::this_thread::get_id()) & 0xffffU,
                         structure_of(*m_inner).c_str(), scale(0), static_cast<long long>(scale.size()));
        }
        if (m_rec)
        {
            m_rec->m_scaled = true;
            if (scale.min() < 1e-10)
            {
                m_rec->m_tiny = true;
            }
        }
        m_inner->scale(scale);
    }

    indices_t features() const override { return m_inner->features(); }

    bool try_merge(const rwlearner_t& other) override
    {
        const auto* const pother = dynamic_cast<const traced_wlearner_t*>(other.get());
        return pother != nullptr && m_inner->try_merge(pother->m_inner);
    }

protected:
    scalar_t do_fit(const dataset_t& dataset, const indices_t& samples, const tensor4d_t& gradients) override
    {
        const auto score = m_inner->fit(dataset, samples, gradients);
        m_rec.reset();
        if (score != wlearner_t::no_fit_score())
        {
            auto rec         = std::make_shared<call_rec_t>();
            rec->m_proto     = m_inner->type_id();
            rec->m_score     = score;
            rec->m_structure = structure_of(*m_inner);
            rec->m_shash     = fnv(samples.data(), static_cast<size_t>(samples.size()) * sizeof(tensor_size_t));
            rec->m_samples   = samples;
            rec->m_gradients = gradients;
            rec->m_fitted    = m_inner->clone();

            m_rec = rec;

            const std::scoped_lock lock(g_log_mutex);
            if (std::getenv("C18_TRACE") != nullptr) // debugging aid: the fits in the order they were logged
            {
                std::fprintf(stderr, "TRACE #%zu thread=%zx %s samples=%016llx n=%lld g0=%.17g score=%.17g %s\n", g_log.size(),
                             std::hash<std::thread::id>{}(std::this_thread::get_id()) & 0xffffU, rec->m_proto.c_str(),
                             static_cast<unsigned long long>(rec->m_shash), static_cast<long long>(samples.size()),
                             gradients(samples(0)), score, rec->m_structure.c_str());
            }
            g_log.push_back(std::move(rec));
        }
        return score;
    }

    void do_predict(const dataset_t& dataset, indices_cmap_t samples, tensor4d_map_t outputs) const override
    {
        if (m_rec)
        {
            m_rec->m_predicted = true;
        }
        m_inner->predict(dataset, samples, outputs);
    }

    cluster_t do_split(const dataset_t& dataset, const indices_t& samples) const override
    {
        return m_inner->split(dataset, samples);
    }

private:
    rwlearner_t m_inner;
    rcall_rec_t m_rec; ///< the record of the fit this object (or the object it was cloned from) made
};

// The boosting loop stops (`gstate.x().min() < epsilon`, gboost/model.cpp:159) when the scale fitted for the round's weak
// learner is below the machine epsilon. The optimal scale is EXACTLY zero - rounding noise of either sign in binary64 - when
// the learner repeats the structure of the previous round (the least-squares scale of that round made the residuals
// orthogonal to it; it is selected again because it is fitted on a bootstrap / sub-sample, or because AIC / BIC prefer its
// smaller parameter count): whether the booster stops there or goes on is then decided by noise. Count the winners of a
// round that were never scaled (the loop stopped) or were scaled by less than 1e-10 (it went on).
long long degenerate_scalings(const call_log_t& log)
{
    long long count = 0;
    for (const auto& rec : log)
    {
        if (rec->m_predicted && (!rec->m_scaled || rec->m_tiny))
        {
            ++count;
        }
    }
    return count;
}

// max-norm difference of two gradient tensors relative to the larger max-norm
double gradient_diff(const tensor4d_t& a, const tensor4d_t& b)
{
    if (a.size() != b.size())
    {
        return std::numeric_limits<double>::infinity();
    }
    double diff = 0.0, norm = 0.0;
    for (tensor_size_t i = 0; i < a.size(); ++i)
    {
        diff = std::max(diff, std::fabs(a(i) - b(i)));
        norm = std::max({norm, std::fabs(a(i)), std::fabs(b(i))});
    }
    return (diff == 0.0) ? 0.0 : diff / std::max(norm, 1e-300);
}

// residual sum of squares of a fitted learner on the inputs (fit samples, gradients) of a call; also Σ residual²
std::pair<double, double> rss_on(const wlearner_t& learner, const dataset_t& dataset, const call_rec_t& inputs)
{
    const auto predictions = learner.predict(dataset, inputs.m_samples);
    const auto tsize       = predictions.size() / std::max(tensor_size_t{1}, inputs.m_samples.size());
    double     rss = 0.0, total = 0.0;
    for (tensor_size_t i = 0; i < inputs.m_samples.size(); ++i)
    {
        for (tensor_size_t k = 0; k < tsize; ++k)
        {
            const auto residual = -inputs.m_gradients(inputs.m_samples(i) * tsize + k);
            const auto delta    = residual - predictions(i * tsize + k);
            rss += delta * delta;
            total += residual * residual;
        }
    }
    return {rss, total};
}

// Every weak-learner fit of this configuration (`cfg`) is matched with the reference configuration's fits of the same
// prototype on the same fit samples whose gradients agree within `band` (relative, max-norm): the same computation up to
// rounding noise - whatever booster (trial, fold), round or thread it ran in, kept by early stopping or not. A fit without
// such a partner is downstream of an earlier difference and says nothing. A fit whose partners all fitted another structure
// is a selection that flipped: its numbers are reported (the worst one of the configuration).
void print_divergence(out_t& out, const call_log_t& ref, const call_log_t& cfg, const dataset_t& dataset)
{
    constexpr auto band = 1e-6;

    long long matched = 0, flips = 0;
    double    max_gdiff = 0.0, worst = -1.0;
    out_t     worst_out;
    for (const auto& pc : cfg)
    {
        const auto&       c        = *pc;
        const call_rec_t* closest  = nullptr;
        auto              closest_d = std::numeric_limits<double>::infinity();
        auto              agreed   = false;
        auto              agreed_d = std::numeric_limits<double>::infinity();
        for (const auto& pr : ref)
        {
            const auto& r = *pr;
            if (r.m_proto != c.m_proto || r.m_shash != c.m_shash || r.m_samples.size() != c.m_samples.size())
            {
                continue;
            }
            const auto gd = gradient_diff(r.m_gradients, c.m_gradients);
            if (!(gd <= band))
            {
                continue;
            }
            if (r.m_structure == c.m_structure)
            {
                agreed   = true;
                agreed_d = std::min(agreed_d, gd);
            }
            if (gd < closest_d)
            {
                closest_d = gd;
                closest   = &r;
            }
        }
        if (closest == nullptr)
        {
            continue;
        }
        ++matched;
        // bit-identical inputs must give the identical fit, whatever other partners exist
        if (agreed && !(closest_d == 0.0 && closest->m_structure != c.m_structure))
        {
            max_gdiff = std::max(max_gdiff, agreed_d);
            continue;
        }
        ++flips;
        const auto& r              = *closest;
        const auto [rss_cr, tot_c] = rss_on(*r.m_fitted, dataset, c); // the reference's learner on my inputs
        const auto [rss_cc, tot_2] = rss_on(*c.m_fitted, dataset, c);
        const auto [rss_rc, tot_r] = rss_on(*c.m_fitted, dataset, r); // my learner on the reference's inputs
        const auto [rss_rr, tot_4] = rss_on(*r.m_fitted, dataset, r);
        (void)tot_2;
        (void)tot_4;
        const auto mc   = (rss_cr - rss_cc) / std::max(tot_c, 1e-300);
        const auto mr   = (rss_rc - rss_rr) / std::max(tot_r, 1e-300);
        const auto ds   = std::fabs(r.m_score - c.m_score) / std::max({1.0, std::fabs(r.m_score), std::fabs(c.m_score)});
        // (the candidates of one prototype have the same number of parameters: every criterion is monotone in the RSS)
        const auto bad = (closest_d == 0.0) ? std::numeric_limits<double>::infinity() : std::max({ds, std::fabs(mc), std::fabs(mr)});
        if (bad > worst)
        {
            worst     = bad;
            worst_out = out_t{};
            worst_out << c.m_proto << closest_d << (closest_d == 0.0 ? 1 : 0) << r.m_score << c.m_score << mc << mr;
        }
    }
    out << "D";
    if (flips == 0)
    {
        out << "same" << static_cast<long long>(cfg.size()) << matched << max_gdiff;
    }
    else
    {
        out << "flip" << static_cast<long long>(cfg.size()) << matched << flips;
        out.raw(worst_out.str());
    }
}

struct gboost_args_t
{
    int64_t     max_rounds, patience, gseed, batch;
    std::string wscale, shrinkage, subsample, protos;
};

std::string fit_gboost(toks_t& toks)
{
    const auto    c = read_fit_common(toks);
    gboost_args_t g{};
    g.max_rounds       = toks.i64();
    g.patience         = toks.i64();
    g.wscale           = toks.s();
    g.shrinkage        = toks.s();
    g.subsample        = toks.s();
    g.protos           = toks.s();
    const auto crit    = toks.s();
    g.gseed            = toks.i64();
    const auto noise   = toks.f();
    g.batch            = toks.i64();
    const auto dup     = toks.i64() != 0;
    const auto configs = read_configs(toks);
    if (!toks.done())
    {
        throw bad_op("trailing tokens");
    }

    auto datasource = synth_datasource_t{c.a.seed, c.a.samples, c.a.d, c.a.ncat, c.a.classes, noise, dup};
    datasource.load();
    const auto loss = loss_t::all().get(c.loss);
    if (!loss)
    {
        throw bad_op("loss id");
    }
    if (crit != "rss" && crit != "aic" && crit != "aicc" && crit != "bic")
    {
        throw bad_op("criterion");
    }

    out_t      out;
    call_log_t reference;
    out << "ok" << static_cast<long long>(configs.size());
    for (size_t iconfig = 0; iconfig < configs.size(); ++iconfig)
    {
        const auto& config  = configs[iconfig];
        const auto  scoped  = scoped_config_t{config, c.a.seed};
        const auto  dataset = make_dataset(datasource, static_cast<size_t>(config.dsthreads));
        const auto  samples = fit_samples(dataset.samples());

        auto splitter = splitter_t::all().get("k-fold");
        splitter->parameter("splitter::seed")  = c.split_seed;
        splitter->parameter("splitter::folds") = c.folds;

        auto model                                 = gboost_model_t{};
        model.parameter("gboost::max_rounds")      = g.max_rounds;
        model.parameter("gboost::epsilon")         = 1e-6;
        model.parameter("gboost::patience")        = g.patience;
        model.parameter("gboost::batch")           = g.batch;
        model.parameter("gboost::seed")            = g.gseed;
        model.parameter("gboost::wscale")          = g.wscale;
        model.parameter("gboost::shrinkage")       = g.shrinkage;
        model.parameter("gboost::subsample")       = g.subsample;
        model.parameter("gboost::subsample_ratio") = 0.8;
        auto prototypes                            = rwlearners_t{};
        for (const auto& id : split_commas(g.protos))
        {
            auto wlearner = wlearner_t::all().get(id);
            if (!wlearner)
            {
                throw bad_op("wlearner id");
            }
            wlearner->parameter("wlearner::criterion") = crit;
            prototypes.emplace_back(std::make_unique<traced_wlearner_t>(std::move(wlearner)));
        }
        model.prototypes(std::move(prototypes));

        auto tuner                           = tuner_t::all().get("surrogate");
        tuner->parameter("tuner::max_evals") = 10;
        auto solver                          = solver_t::all().get("lbfgs");
        solver->parameter("solver::epsilon")   = 1e-10;
        solver->parameter("solver::max_evals") = 1000;
        const auto fit_params = ml::params_t{}.splitter(*splitter).tuner(*tuner).solver(*solver).logger(make_null_logger());
        {
            const std::scoped_lock lock(g_log_mutex);
            g_log.clear();
        }
        const auto result = model.fit(dataset, samples, *loss, fit_params);
        remove_logs(result);
        call_log_t log;
        {
            const std::scoped_lock lock(g_log_mutex);
            log.swap(g_log);
        }
        if (std::getenv("C18_TRACE") != nullptr) // debugging aid: the kept rounds of every booster
        {
            for (tensor_size_t trial = 0; trial < result.trials(); ++trial)
            {
                for (tensor_size_t fold = 0; fold < result.folds(); ++fold)
                {
                    const auto* const pgboost = std::any_cast<gboost::result_t>(&result.extra(trial, fold));
                    for (tensor_size_t r = 0; pgboost != nullptr && r < pgboost->m_statistics.size<0>(); ++r)
                    {
                        const auto& st = pgboost->m_statistics;
                        std::fprintf(stderr, "STAT config=%zu trial=%d fold=%d round=%d train=%.17g/%.17g valid=%.17g/%.17g fcalls=%g status=%g\n",
                                     iconfig, static_cast<int>(trial), static_cast<int>(fold), static_cast<int>(r), st(r, 0), st(r, 1),
                                     st(r, 2), st(r, 3), st(r, 5), st(r, 7));
                    }
                }
            }
        }

        std::vector<indices_t> features;
        for (const auto& wlearner : model.wlearners())
        {
            features.push_back(wlearner->features());
        }
        print_fit(out, dataset, result, features, model.predict(dataset, arange(0, dataset.samples())));

        out << "Z" << degenerate_scalings(log);
        if (iconfig == 0U)
        {
            out << "D"
                << "ref";
            reference = std::move(log);
        }
        else
        {
            print_divergence(out, reference, log, dataset);
        }
    }
    return out.str();
}

std::string fit_linear(toks_t& toks)
{
    const auto c         = read_fit_common(toks);
    const auto model_id  = toks.s();
    const auto scaling   = toks.s();
    const auto solver_id = toks.s();
    const auto eps       = toks.f();
    const auto max_evals = toks.i64();
    const auto noise     = toks.f();
    const auto batch     = toks.i64();
    const auto dup       = toks.i64() != 0;
    const auto configs   = read_configs(toks);
    if (!toks.done())
    {
        throw bad_op("trailing tokens");
    }

    auto datasource = synth_datasource_t{c.a.seed, c.a.samples, c.a.d, c.a.ncat, c.a.classes, noise, dup};
    datasource.load();
    const auto loss = loss_t::all().get(c.loss);
    if (!loss)
    {
        throw bad_op("loss id");
    }

    out_t out;
    out << "ok" << static_cast<long long>(configs.size());
    for (const auto& config : configs)
    {
        const auto scoped  = scoped_config_t{config, c.a.seed};
        const auto dataset = make_dataset(datasource, static_cast<size_t>(config.dsthreads));
        const auto samples = fit_samples(dataset.samples());

        auto splitter = splitter_t::all().get("k-fold");
        auto model    = linear_t::all().get(model_id);
        auto solver   = solver_t::all().get(solver_id);
        if (!model || !solver)
        {
            throw bad_op("model/solver id");
        }
        splitter->parameter("splitter::seed")  = c.split_seed;
        splitter->parameter("splitter::folds") = c.folds;
        model->parameter("linear::batch")      = batch;
        model->parameter("linear::scaling")    = scaling;
        solver->parameter("solver::epsilon")   = eps;
        solver->parameter("solver::max_evals") = max_evals;

        auto tuner                           = tuner_t::all().get("surrogate");
        tuner->parameter("tuner::max_evals") = 10;
        const auto fit_params = ml::params_t{}.splitter(*splitter).tuner(*tuner).solver(*solver).logger(make_null_logger());
        const auto result     = model->fit(dataset, samples, *loss, fit_params);
        remove_logs(result);

        print_fit(out, dataset, result, {}, model->predict(dataset, arange(0, dataset.samples())));
        out << "Z" << 0 << "D"
            << "ref";
    }
    return out.str();
}

// ---- one weak learner fitted repeatedly under different pools --------------------------------------------------------
std::string op_wfit(toks_t& toks)
{
    const auto  wid = toks.s();
    data_args_t a{};
    a.seed             = static_cast<uint64_t>(toks.i64());
    a.samples          = toks.i64();
    a.d                = toks.i64();
    a.ncat             = toks.i64();
    a.classes          = read_task(toks.s());
    const auto dupmode = toks.i64();
    const auto dup     = dupmode == 1;
    const auto reps    = toks.i64();
    const auto configs = read_configs(toks);
    check_data(a);
    if (reps < 1 || reps > 1000 || dupmode < 0 || dupmode > 3 || (dupmode == 2 && a.d < 1) || (dupmode == 3 && a.ncat < 1) ||
        !toks.done())
    {
        throw bad_op("wfit arguments");
    }
    const auto proto = wlearner_t::all().get(wid);
    if (!proto)
    {
        throw bad_op("wlearner id");
    }
    auto datasource = synth_datasource_t{a.seed, a.samples, a.d, a.ncat, a.classes, 0.1, dup};
    datasource.load();

    out_t out;
    out << "ok" << static_cast<long long>(configs.size());
    for (const auto& config : configs)
    {
        const auto scoped      = scoped_config_t{config, a.seed};
        const auto dataset     = make_dataset(datasource, static_cast<size_t>(config.dsthreads));
        const auto all_samples = arange(0, dataset.samples());
        const auto samples     = subset(dataset.samples(), a.seed + 5U, false);

        // residuals correlated with the first continuous feature (so that its copies win when there are copies) + noise
        auto       rng = rng64_t{a.seed * 31ULL + 11U};
        tensor4d_t gradients(cat_dims(dataset.samples(), dataset.target_dims()));
        {
            scalar_mem_t buffer;
            sclass_mem_t cbuffer;
            const auto   column = dupmode == 2 ? (a.ncat + a.d - 1) : (a.d > 0 ? a.ncat : tensor_size_t{-1});
            for (tensor_size_t i = 0; i < dataset.samples(); ++i)
            {
                auto base = 0.0;
                if (dupmode == 3)
                {
                    const auto one   = arange(i, i + 1);
                    const auto label = dataset.select(one, a.ncat - 1, cbuffer)(0);
                    base             = label == 0 ? 1.0 : (label == 1 ? -1.0 : 0.25);
                }
                else if (column >= 0)
                {
                    const auto one = arange(i, i + 1);
                    base           = dataset.select(one, column, buffer)(0) < 0.0 ? 1.0 : -1.0;
                }
                for (tensor_size_t k = 0; k < gradients.size() / dataset.samples(); ++k)
                {
                    gradients(i * (gradients.size() / dataset.samples()) + k) = base + 0.3 * rng.uniform(-1.0, 1.0);
                }
            }
        }

        out << static_cast<long long>(reps);
        for (int64_t rep = 0; rep < reps; ++rep)
        {
            auto       wlearner = proto->clone();
            const auto score    = wlearner->fit(dataset, samples, gradients);
            out << score;
            if (score == wlearner_t::no_fit_score())
            {
                out << "h0" << 0;
                continue;
            }
            tensor4d_t outputs(cat_dims(all_samples.size(), dataset.target_dims()));
            outputs.zero();
            wlearner->predict(dataset, all_samples, outputs.tensor());
            out << hash_tensor(outputs);
            print_features(out, {wlearner->features()});
        }
    }
    return out.str();
}

// ---- shared predict ------------------------------------------------------------------------------------------------
std::string op_shared_predict(toks_t& toks)
{
    const auto  kind = toks.s();
    data_args_t a{};
    a.seed               = static_cast<uint64_t>(toks.i64());
    a.samples            = toks.i64();
    a.d                  = toks.i64();
    a.ncat               = toks.i64();
    a.classes            = 0;
    const auto dsthreads = toks.i64();
    const auto T         = toks.i64();
    const auto reps      = toks.i64();
    auto       batch     = int64_t{16};
    auto       maxn      = int64_t{0};
    if (!toks.done())
    {
        batch = toks.i64();
        maxn  = toks.i64();
    }
    check_threads(T, reps);
    check_data(a);
    if (dsthreads < 1 || dsthreads > 64 || batch < 10 || batch > 10000 || maxn < 0 || !toks.done())
    {
        throw bad_op("predict arguments");
    }
    auto datasource = synth_datasource_t{a.seed, a.samples, a.d, a.ncat, 0, 0.2, false};
    datasource.load();
    const auto       dataset_ = make_dataset(datasource, static_cast<size_t>(dsthreads));
    const dataset_t& dataset  = dataset_;
    const auto       samples  = fit_samples(dataset.samples());
    const auto       loss     = loss_t::all().get("mse");

    auto splitter                          = splitter_t::all().get("k-fold");
    splitter->parameter("splitter::seed")  = 7;
    splitter->parameter("splitter::folds") = 2;
    auto tuner                             = tuner_t::all().get("surrogate");
    tuner->parameter("tuner::max_evals")   = 10;
    auto solver                            = solver_t::all().get("lbfgs");
    solver->parameter("solver::max_evals") = 200;
    const auto fit_params = ml::params_t{}.splitter(*splitter).tuner(*tuner).solver(*solver).logger(make_null_logger());

    std::unique_ptr<learner_t> learner;
    if (kind == "linear")
    {
        auto model                        = linear_t::all().get("ridge");
        model->parameter("linear::batch") = batch;
        remove_logs(model->fit(dataset, samples, *loss, fit_params));
        learner = std::move(model);
    }
    else if (kind == "gboost")
    {
        auto model                            = std::make_unique<gboost_model_t>();
        model->parameter("gboost::max_rounds") = 10;
        model->parameter("gboost::patience")  = 3;
        model->parameter("gboost::batch")     = batch;
        auto prototypes                       = rwlearners_t{};
        prototypes.emplace_back(wlearner_t::all().get("stump"));
        prototypes.emplace_back(wlearner_t::all().get("affine"));
        if (a.ncat > 0)
        {
            prototypes.emplace_back(wlearner_t::all().get("dense-table"));
        }
        model->prototypes(std::move(prototypes));
        remove_logs(model->fit(dataset, samples, *loss, fit_params));
        learner = std::move(model);
    }
    else
    {
        throw bad_op("predict kind");
    }
    const learner_t& shared = *learner;

    calls_t calls(static_cast<size_t>(T));
    for (int64_t t = 0; t < T; ++t)
    {
        for (int64_t r = 0; r < reps; ++r)
        {
            auto which = std::make_shared<indices_t>(
                subset(dataset.samples(), a.seed + static_cast<uint64_t>(t) * 17ULL + static_cast<uint64_t>(r), r == 0 && t % 2 == 0));
            if (maxn > 0 && which->size() > maxn)
            {
                // different callers keep different (overlapping) windows of their subsets
                const auto room  = which->size() - maxn;
                const auto begin = static_cast<tensor_size_t>((static_cast<uint64_t>(t) * 7ULL + static_cast<uint64_t>(r) * 3ULL) %
                                                              static_cast<uint64_t>(room + 1));
                which            = std::make_shared<indices_t>(which->slice(begin, begin + maxn));
            }
            calls[static_cast<size_t>(t)].emplace_back(
                [&dataset, &shared, which]()
                {
                    const auto outputs = shared.predict(dataset, *which);
                    return hash_tensor(outputs) + ",n" + std::to_string(which->size()) + ",p0=" + vh::f2h(outputs(0));
                });
        }
    }
    return run_phases(calls);
}

// ---- the reductions of reduce.h on explicit schedules ---------------------------------------------------------------
std::string op_reduce_sum(toks_t& toks)
{
    const auto samples = toks.i64();
    const auto W       = toks.i64();
    const auto D       = toks.i64();
    const auto K       = toks.i64();
    if (samples < 0 || W < 1 || W > 64 || D < 2 || D > 64 || K < 0 || K > 10000)
    {
        throw bad_op("reduce sum arguments");
    }
    // D = 1 (m_vm1) + tsize (m_gb1) + tsize * isize (m_gW1) with tsize = 1: isize = D - 2
    const auto tsize = tensor_size_t{1};
    const auto isize = static_cast<tensor_size_t>(D - 2);
    auto       accumulators = linear::accumulators_t(static_cast<size_t>(W), linear::accumulator_t{std::max(isize, tensor_size_t{1}), tsize});
    for (auto& accumulator : accumulators)
    {
        accumulator.clear();
    }
    for (int64_t k = 0; k < K; ++k)
    {
        const auto w = toks.i64();
        if (w < 0 || w >= W)
        {
            throw bad_op("worker");
        }
        auto& accumulator = accumulators[static_cast<size_t>(w)];
        accumulator.m_vm1 += toks.f();
        accumulator.m_gb1(0) += toks.f();
        for (tensor_size_t i = 0; i < isize; ++i)
        {
            accumulator.m_gW1(0, i) += toks.f();
        }
    }
    if (!toks.done())
    {
        throw bad_op("trailing tokens");
    }
    const auto& reduced = ::nano::sum_reduce(accumulators, static_cast<tensor_size_t>(samples));
    out_t       out;
    out << "ok" << static_cast<long long>(D) << reduced.m_vm1 << reduced.m_gb1(0);
    for (tensor_size_t i = 0; i < isize; ++i)
    {
        out << reduced.m_gW1(0, i);
    }
    return out.str();
}

struct cache_t // the part of every weak learner's cache that min_reduce_feature looks at
{
    scalar_t      m_score{wlearner_t::no_fit_score()};
    tensor_size_t m_feature{-1};
};

std::string op_reduce_min(toks_t& toks, const bool lexicographic_cache)
{
    const auto W = toks.i64();
    const auto K = toks.i64();
    if (W < 1 || W > 64 || K < 0 || K > 10000)
    {
        throw bad_op("reduce min arguments");
    }
    std::vector<cache_t> caches(static_cast<size_t>(W));
    for (int64_t k = 0; k < K; ++k)
    {
        const auto w       = toks.i64();
        const auto score   = toks.f();
        const auto feature = toks.i64();
        if (w < 0 || w >= W)
        {
            throw bad_op("worker");
        }
        auto&      cache  = caches[static_cast<size_t>(w)];
        const auto better = lexicographic_cache
                              ? (score < cache.m_score || (score == cache.m_score && feature < cache.m_feature)) // table.cpp:72,110,164
                              : (score < cache.m_score); // stump.cpp:146, affine.cpp:112, hinge.cpp:205,217
        if (std::isfinite(score) && better)
        {
            cache.m_score   = score;
            cache.m_feature = feature;
        }
    }
    if (!toks.done())
    {
        throw bad_op("trailing tokens");
    }
    const auto& best = ::nano::min_reduce_feature(caches); // the call of every weak-learner fit since commit 62472c9
    out_t       out;
    out << "ok" << best.m_score << best.m_feature;
    return out.str();
}

// ---- the table learners run two loops (single-label, then multi-label features) into the same per-thread caches. On a
// dataset whose multi-label features have the SMALLER indices a worker sees decreasing indices across the two loops; with
// "first seen wins" inside a cache (before commit 5de0896) an exact tie between a single-label and a multi-label feature was
// decided by which worker processed what (1 thread: the single-label feature 3; several threads: 3 or 0).
class tie_datasource_t final : public datasource_t
{
public:
    tie_datasource_t()
        : datasource_t("tie")
    {
    }

    rdatasource_t clone() const override { return std::make_unique<tie_datasource_t>(*this); }

private:
    void do_load() override
    {
        features_t features;
        features.push_back(feature_t{"s0"}.sclass(2U));
        features.push_back(feature_t{"s1"}.sclass(2U));
        features.push_back(feature_t{"m0"}.mclass(1U));
        features.push_back(feature_t{"m1"}.mclass(1U));
        features.push_back(feature_t{"y"}.scalar(feature_type::float64));
        resize(8, features, 4U);
        for (tensor_size_t sample = 0; sample < 8; ++sample)
        {
            tensor_mem_t<int8_t, 1> hits(1);
            set(sample, 0, static_cast<int32_t>((sample / 2) % 2));
            set(sample, 1, static_cast<int32_t>(sample % 2));
            hits(0) = static_cast<int8_t>(sample % 2); // the same partition as s1
            set(sample, 2, hits);
            hits(0) = static_cast<int8_t>(sample / 4);
            set(sample, 3, hits);
            set(sample, 4, 0.0);
        }
    }
};

std::string op_wtie_mclassfirst(toks_t& toks)
{
    const auto wid       = toks.s();
    const auto dsthreads = toks.i64();
    const auto reps      = toks.i64();
    if (dsthreads < 1 || dsthreads > 64 || reps < 1 || reps > 10000 || !toks.done())
    {
        throw bad_op("wtie arguments");
    }
    if (wid != "dense-table" && wid != "kbest-table" && wid != "ksplit-table" && wid != "dstep-table")
    {
        throw bad_op("wtie wlearner");
    }
    auto datasource = tie_datasource_t{};
    datasource.load();
    auto dataset = dataset_t{datasource, static_cast<size_t>(dsthreads)};
    dataset.add<mclass_identity_generator_t>(); // dataset features 0, 1 = m0, m1
    dataset.add<sclass_identity_generator_t>(); // dataset features 2, 3 = s0, s1

    tensor4d_t gradients(cat_dims(dataset.samples(), dataset.target_dims()));
    for (tensor_size_t i = 0; i < 8; ++i)
    {
        gradients(i) = (i % 2 == 0 ? 1.0 : -1.0) * (i < 4 ? 1.0 : 2.0);
    }
    const auto samples = arange(0, dataset.samples());

    out_t out;
    out << "ok" << reps;
    for (int64_t rep = 0; rep < reps; ++rep)
    {
        auto wlearner                             = wlearner_t::all().get(wid);
        wlearner->parameter("wlearner::criterion") = wlearner_criterion::rss;
        const auto score                          = wlearner->fit(dataset, samples, gradients);
        const auto features                       = wlearner->features();
        out << (score == wlearner_t::no_fit_score() || features.size() != 1 ? tensor_size_t{-1} : features(0));
    }
    return out.str();
}

// ---- demonstration (never generated): feature_t::set_label is const but writes m_labels without synchronisation -----
std::string op_shared_setlabel(toks_t& toks)
{
    const auto T    = toks.i64();
    const auto seed = toks.i64();
    check_threads(T, 1);
    (void)seed;
    auto datasource = synth_datasource_t{1, 16, 1, 0, 0, 0.1, false};
    datasource.load();
    const auto       dataset_ = make_dataset(datasource, 1);
    const dataset_t& dataset  = dataset_;
    // a categorical feature declared with free label slots, reachable through a const reference
    const auto feature = feature_t{"c"}.sclass(8);
    const feature_t& shared = feature;
    (void)dataset;

    calls_t calls(static_cast<size_t>(T));
    for (int64_t t = 0; t < T; ++t)
    {
        calls[static_cast<size_t>(t)].emplace_back(
            [&shared, t]()
            {
                size_t sum = 0;
                for (int i = 0; i < 200; ++i)
                {
                    sum += shared.set_label("label" + std::to_string((t + i) % 8));
                }
                return "s" + std::to_string(sum < 100000 ? 1 : 0);
            });
    }
    return run_phases(calls);
}
} // namespace

std::string vh::execute(toks_t& toks, std::string&)
{
    const auto fam = toks.s();
    if (fam == "shared")
    {
        const auto op = toks.s();
        if (op == "minimize")
        {
            return op_shared_minimize(toks);
        }
        if (op == "loss")
        {
            return op_shared_loss(toks);
        }
        if (op == "dataset")
        {
            return op_shared_dataset(toks);
        }
        if (op == "predict")
        {
            return op_shared_predict(toks);
        }
        if (op == "setlabel")
        {
            return op_shared_setlabel(toks);
        }
        throw bad_op("shared op");
    }
    if (fam == "wfit")
    {
        return op_wfit(toks);
    }
    if (fam == "fit")
    {
        const auto kind = toks.s();
        if (kind == "gboost")
        {
            return fit_gboost(toks);
        }
        if (kind == "linear")
        {
            return fit_linear(toks);
        }
        throw bad_op("fit kind");
    }
    if (fam == "wtie")
    {
        const auto op = toks.s();
        if (op == "mclassfirst")
        {
            return op_wtie_mclassfirst(toks);
        }
        throw bad_op("wtie op");
    }
    if (fam == "reduce")
    {
        const auto op = toks.s();
        if (op == "sum")
        {
            return op_reduce_sum(toks);
        }
        if (op == "min")
        {
            return op_reduce_min(toks, false);
        }
        if (op == "minlex")
        {
            return op_reduce_min(toks, true);
        }
        throw bad_op("reduce op");
    }
    throw bad_op("family");
}

int main()
{
    nano::verif::pool_hook().store(&pool_hook);
    return vh::main_loop();
}
