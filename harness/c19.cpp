// C19 harness: parameter_t histories, configurable_t histories and the walk over the 11 factories on the real code.
//
//   param hist <spec> <n> <op>*n          one parameter, a whole history of operations in one line
//   config hist <n> <cop>*n               one configurable_t, a history of register / lookup / config operations
//   factory ids <F>                       ids of factory F
//   factory walk <F> <'id> <mask> <ni> <int>*ni <nf> <hex>*nf
//                                         configuration tree (type_id, registered parameters, owned objects), the
//                                         parameters selected by the mask moved away from their defaults, clone equality
//                                         (owned objects included), clone independence under modification (candidate
//                                         values from the op line), clone of the modified clone, behavioural probe
//   factory dump                          every id of every factory with every registered parameter and the ids of the
//                                         objects it owns; the default constructed owners no factory hands out
//                                         (ml::params_t, gboost_model_t) as whole configuration trees (used by translate())
//   owner hist <n> <oop>*n                a history over variables holding objects that own other objects
//                                         (solver -> lsearch0, lsearchk; ml::params_t -> tuner, solver, splitter;
//                                         gboost_model_t -> prototype weak learners) and the objects they own:
//       new <kind> <'id>                      factory get / default construction          -> new variable
//       set <v> <'name> <assignment>          v.parameter(name) = value
//       inst <d> <child> <s>                  d.child(object held by s)                   (the owner stores a copy)
//       instid <d> <child> <'id>              d.child(id)
//       protos <v> <n> <s>*n                  gboost.prototypes({objects held by s...})
//       ext <v> <child>                       v.child().clone()                           -> new variable
//       clone <v>                             v.clone() / copy construction               -> new variable
//       assign <d> <s>                        d = s (copy assignment; params, gboost)
//       probe <a> <b>                         do a and b behave identically on a probe input?
//                                         after every operation the configuration tree of every variable is printed
//
// strings travel as `'` + percent-encoded bytes (so that the empty string and strings with blanks are one token).
#include "common.h"
#include <functional>
#include <nano/datasource.h>
#include <nano/function.h>
#include <nano/gboost/model.h>
#include <nano/dataset.h>
#include <nano/generator.h>
#include <nano/generator/elemwise_identity.h>
#include <nano/linear.h>
#include <nano/loss.h>
#include <nano/lsearch0.h>
#include <nano/lsearchk.h>
#include <nano/machine/params.h>
#include <nano/solver.h>
#include <nano/splitter.h>
#include <nano/tuner.h>
#include <nano/wlearner.h>

enum class vh_enum : uint8_t
{
    red,
    green,
    blue,
    dark_blue
};

namespace nano
{
template <>
inline enum_map_t<vh_enum> enum_string<vh_enum>()
{
    return {
        {      vh_enum::red,       "red"},
        {    vh_enum::green,     "green"},
        {     vh_enum::blue,      "blue"},
        {vh_enum::dark_blue, "dark blue"},
    };
}
} // namespace nano

using namespace nano;
using vh::bad_op;
using vh::out_t;
using vh::toks_t;

namespace
{
// ---- token helpers ---------------------------------------------------------------------------------------
std::string enc(const std::string& s)
{
    std::string o = "'";
    for (const unsigned char c : s)
    {
        if (c > 0x20 && c < 0x7f && c != '%')
        {
            o += static_cast<char>(c);
        }
        else
        {
            char b[8];
            std::snprintf(b, sizeof(b), "%%%02X", static_cast<unsigned>(c));
            o += b;
        }
    }
    return o;
}

int hexval(char c)
{
    if (c >= '0' && c <= '9')
    {
        return c - '0';
    }
    if (c >= 'A' && c <= 'F')
    {
        return c - 'A' + 10;
    }
    if (c >= 'a' && c <= 'f')
    {
        return c - 'a' + 10;
    }
    throw bad_op("bad percent escape");
}

std::string dec(const std::string& t)
{
    if (t.empty() || t[0] != '\'')
    {
        throw bad_op("bad string token " + t);
    }
    std::string o;
    for (size_t i = 1; i < t.size(); ++i)
    {
        if (t[i] == '%')
        {
            if (i + 2 >= t.size())
            {
                throw bad_op("truncated percent escape");
            }
            o += static_cast<char>(hexval(t[i + 1]) * 16 + hexval(t[i + 2]));
            i += 2;
        }
        else
        {
            o += t[i];
        }
    }
    return o;
}

LEorLT comp_of(const std::string& t)
{
    if (t == "le")
    {
        return LEorLT{LE};
    }
    if (t == "lt")
    {
        return LEorLT{LT};
    }
    throw bad_op("bad comparator " + t);
}

const char* comp_name(const LEorLT& c)
{
    return std::holds_alternative<LE_t>(c) ? "le" : "lt";
}

vh_enum enum_of(const std::string& name)
{
    for (const auto& e : enum_string<vh_enum>())
    {
        if (name == e.second)
        {
            return e.first;
        }
    }
    throw bad_op("not a name of the harness enumeration: " + name);
}

// runs f (which returns the `ok …` answer); an exception of libnano/libstdc++ becomes `throw <kind>`
template <class tfun>
std::string guarded(const tfun& f)
{
    try
    {
        return f();
    }
    catch (const bad_op&)
    {
        throw;
    }
    catch (const std::bad_alloc&)
    {
        return "throw bad_alloc";
    }
    catch (const std::out_of_range&)
    {
        return "throw out_of_range";
    }
    catch (const std::invalid_argument&)
    {
        return "throw invalid_argument";
    }
    catch (const std::runtime_error&)
    {
        return "throw critical";
    }
    catch (const std::exception&)
    {
        return "throw other";
    }
}

// ---- state of one parameter ------------------------------------------------------------------------------
void print_state(out_t& out, const parameter_t& param)
{
    std::visit(overloaded{[&](const std::monostate&) { out << "mono"; },
                          [&](const parameter_t::enum_t& p)
                          {
                              out << "enum" << enc(p.m_value) << static_cast<long long>(p.m_domain.size());
                              for (const auto& d : p.m_domain)
                              {
                                  out << enc(d);
                              }
                          },
                          [&](const parameter_t::irange_t& p) {
                              out << "int" << p.m_value << p.m_min << p.m_max << comp_name(p.m_mincomp)
                                  << comp_name(p.m_maxcomp);
                          },
                          [&](const parameter_t::frange_t& p) {
                              out << "float" << p.m_value << p.m_min << p.m_max << comp_name(p.m_mincomp)
                                  << comp_name(p.m_maxcomp);
                          },
                          [&](const parameter_t::iprange_t& p)
                          {
                              out << "ipair" << p.m_value1 << p.m_value2 << p.m_min << p.m_max << comp_name(p.m_mincomp)
                                  << comp_name(p.m_valcomp) << comp_name(p.m_maxcomp);
                          },
                          [&](const parameter_t::fprange_t& p)
                          {
                              out << "fpair" << p.m_value1 << p.m_value2 << p.m_min << p.m_max << comp_name(p.m_mincomp)
                                  << comp_name(p.m_valcomp) << comp_name(p.m_maxcomp);
                          },
                          [&](const string_t& p) { out << "str" << enc(p); }},
               param.storage());
}

std::string state_of(const parameter_t& param)
{
    out_t out;
    print_state(out, param);
    return out.str();
}

// ---- construction from a spec ----------------------------------------------------------------------------
struct spec_t
{
    std::string              kind;
    std::string              svalue;
    std::vector<std::string> domain;
    int64_t                  i[4] = {0, 0, 0, 0}; // min, value(1), [value2], max
    double                   f[4] = {0, 0, 0, 0};
    LEorLT                   c[3];
    // the converting factory functions (kinds xint, xfloat, xipair, xfpair): every argument is an int64_t or a double
    std::variant<int64_t, double> x[4] = {int64_t{0}, int64_t{0}, int64_t{0}, int64_t{0}};
};

std::variant<int64_t, double> read_num(toks_t& toks)
{
    const auto tag = toks.s();
    if (tag == "i")
    {
        return toks.i64();
    }
    if (tag == "f")
    {
        return toks.f();
    }
    throw bad_op("a number is `i <int>` or `f <hex>`");
}

spec_t read_spec(toks_t& toks)
{
    spec_t s;
    s.kind = toks.s();
    if (s.kind == "mono")
    {
    }
    else if (s.kind == "enum")
    {
        s.svalue     = dec(toks.s());
        const auto k = toks.i64();
        for (int64_t j = 0; j < k; ++j)
        {
            s.domain.push_back(dec(toks.s()));
        }
        const auto names = enum_string<vh_enum>();
        bool       same  = names.size() == s.domain.size();
        for (size_t j = 0; same && j < names.size(); ++j)
        {
            same = s.domain[j] == names[j].second;
        }
        if (!same)
        {
            throw bad_op("the domain of an enum spec must be the harness enumeration");
        }
    }
    else if (s.kind == "str")
    {
        s.svalue = dec(toks.s());
    }
    else if (s.kind == "int")
    {
        s.i[0] = toks.i64();
        s.c[0] = comp_of(toks.s());
        s.i[1] = toks.i64();
        s.c[2] = comp_of(toks.s());
        s.i[3] = toks.i64();
    }
    else if (s.kind == "float")
    {
        s.f[0] = toks.f();
        s.c[0] = comp_of(toks.s());
        s.f[1] = toks.f();
        s.c[2] = comp_of(toks.s());
        s.f[3] = toks.f();
    }
    else if (s.kind == "ipair")
    {
        s.i[0] = toks.i64();
        s.c[0] = comp_of(toks.s());
        s.i[1] = toks.i64();
        s.c[1] = comp_of(toks.s());
        s.i[2] = toks.i64();
        s.c[2] = comp_of(toks.s());
        s.i[3] = toks.i64();
    }
    else if (s.kind == "fpair")
    {
        s.f[0] = toks.f();
        s.c[0] = comp_of(toks.s());
        s.f[1] = toks.f();
        s.c[1] = comp_of(toks.s());
        s.f[2] = toks.f();
        s.c[2] = comp_of(toks.s());
        s.f[3] = toks.f();
    }
    else if (s.kind == "xint" || s.kind == "xfloat")
    {
        s.x[0] = read_num(toks);
        s.c[0] = comp_of(toks.s());
        s.x[1] = read_num(toks);
        s.c[2] = comp_of(toks.s());
        s.x[3] = read_num(toks);
    }
    else if (s.kind == "xipair" || s.kind == "xfpair")
    {
        s.x[0] = read_num(toks);
        s.c[0] = comp_of(toks.s());
        s.x[1] = read_num(toks);
        s.c[1] = comp_of(toks.s());
        s.x[2] = read_num(toks);
        s.c[2] = comp_of(toks.s());
        s.x[3] = read_num(toks);
    }
    else
    {
        throw bad_op("unknown parameter kind " + s.kind);
    }
    return s;
}

parameter_t build(const std::string& name, const spec_t& s)
{
    if (s.kind == "mono")
    {
        return parameter_t{};
    }
    if (s.kind == "enum")
    {
        return parameter_t::make_enum(name, enum_of(s.svalue));
    }
    if (s.kind == "str")
    {
        return parameter_t::make_string(name, s.svalue);
    }
    if (s.kind == "int")
    {
        return parameter_t::make_integer(name, s.i[0], s.c[0], s.i[1], s.c[2], s.i[3]);
    }
    if (s.kind == "float")
    {
        return parameter_t::make_scalar(name, s.f[0], s.c[0], s.f[1], s.c[2], s.f[3]);
    }
    if (s.kind == "ipair")
    {
        return parameter_t::make_integer_pair(name, s.i[0], s.c[0], s.i[1], s.c[1], s.i[2], s.c[2], s.i[3]);
    }
    if (s.kind == "xint")
    {
        return std::visit([&](const auto mn, const auto v, const auto mx)
                          { return parameter_t::make_integer(name, mn, s.c[0], v, s.c[2], mx); }, s.x[0], s.x[1], s.x[3]);
    }
    if (s.kind == "xfloat")
    {
        return std::visit([&](const auto mn, const auto v, const auto mx)
                          { return parameter_t::make_scalar(name, mn, s.c[0], v, s.c[2], mx); }, s.x[0], s.x[1], s.x[3]);
    }
    if (s.kind == "xipair")
    {
        return std::visit([&](const auto mn, const auto v1, const auto v2, const auto mx)
                          { return parameter_t::make_integer_pair(name, mn, s.c[0], v1, s.c[1], v2, s.c[2], mx); },
                          s.x[0], s.x[1], s.x[2], s.x[3]);
    }
    if (s.kind == "xfpair")
    {
        return std::visit([&](const auto mn, const auto v1, const auto v2, const auto mx)
                          { return parameter_t::make_scalar_pair(name, mn, s.c[0], v1, s.c[1], v2, s.c[2], mx); },
                          s.x[0], s.x[1], s.x[2], s.x[3]);
    }
    return parameter_t::make_scalar_pair(name, s.f[0], s.c[0], s.f[1], s.c[1], s.f[2], s.c[2], s.f[3]);
}

// ---- one operation on a parameter ------------------------------------------------------------------------
struct op_t
{
    std::string             kind;
    int64_t                 i1 = 0, i2 = 0;
    uint64_t                u1 = 0;
    double                  f1 = 0, f2 = 0;
    std::string             s;
    std::shared_ptr<spec_t> other; // `eq`: the parameter this one is compared with
};

op_t read_op(toks_t& toks)
{
    op_t op;
    op.kind = toks.s();
    if (op.kind == "si")
    {
        op.i1 = toks.i64();
    }
    else if (op.kind == "sf")
    {
        op.f1 = toks.f();
    }
    else if (op.kind == "spi" || op.kind == "sp32")
    {
        op.i1 = toks.i64();
        op.i2 = toks.i64();
        if (op.kind == "sp32" && (op.i1 != static_cast<int32_t>(op.i1) || op.i2 != static_cast<int32_t>(op.i2)))
        {
            throw bad_op("sp32 needs 32 bit values");
        }
    }
    else if (op.kind == "spf")
    {
        op.f1 = toks.f();
        op.f2 = toks.f();
    }
    else if (op.kind == "ss" || op.kind == "se")
    {
        op.s = dec(toks.s());
        if (op.kind == "se")
        {
            enum_of(op.s);
        }
    }
    else if (op.kind == "ri" || op.kind == "rf" || op.kind == "rpi" || op.kind == "rpf" || op.kind == "rs" ||
             op.kind == "re" || op.kind == "wr")
    {
    }
    // the rest of the interface (family `paramx`): the other arithmetic overloads of operator=, the narrowing reads, operator==
    else if (op.kind == "si32")
    {
        op.i1 = toks.i64();
        if (op.i1 != static_cast<int32_t>(op.i1))
        {
            throw bad_op("si32 needs a 32 bit value");
        }
    }
    else if (op.kind == "su64")
    {
        const auto& w = toks.s();
        size_t      pos = 0;
        if (w.empty() || w[0] == '-' || w[0] == '+')
        {
            throw bad_op("su64 needs an unsigned value");
        }
        op.u1 = std::stoull(w, &pos, 10);
        if (pos != w.size())
        {
            throw bad_op("su64 needs an unsigned value");
        }
    }
    else if (op.kind == "sb")
    {
        op.i1 = toks.i64();
        if (op.i1 != 0 && op.i1 != 1)
        {
            throw bad_op("sb takes 0 or 1");
        }
    }
    else if (op.kind == "sf32")
    {
        op.f1 = toks.f();
        if (!std::isnan(op.f1) && static_cast<double>(static_cast<float>(op.f1)) != op.f1)
        {
            throw bad_op("sf32 needs a binary32 value");
        }
    }
    else if (op.kind == "ri32" || op.kind == "ru64" || op.kind == "rf32" || op.kind == "rpi32" || op.kind == "rpf32")
    {
    }
    else if (op.kind == "eq")
    {
        op.i1 = toks.i64();
        if (op.i1 != 0 && op.i1 != 1)
        {
            throw bad_op("eq takes 0 or 1 (same name?)");
        }
        op.other = std::make_shared<spec_t>(read_spec(toks));
    }
    else
    {
        throw bad_op("unknown parameter op " + op.kind);
    }
    return op;
}

std::string apply_op(parameter_t& param, const op_t& op)
{
    return guarded(
        [&]() -> std::string
        {
            out_t out;
            out << "ok";
            if (op.kind == "si")
            {
                param = op.i1;
            }
            else if (op.kind == "sf")
            {
                param = op.f1;
            }
            else if (op.kind == "spi")
            {
                param = std::make_tuple(op.i1, op.i2);
            }
            else if (op.kind == "sp32")
            {
                param = std::make_tuple(static_cast<int32_t>(op.i1), static_cast<int32_t>(op.i2));
            }
            else if (op.kind == "spf")
            {
                param = std::make_tuple(op.f1, op.f2);
            }
            else if (op.kind == "ss")
            {
                param = op.s;
            }
            else if (op.kind == "se")
            {
                param = enum_of(op.s);
            }
            else if (op.kind == "ri")
            {
                out << param.value<int64_t>();
            }
            else if (op.kind == "rf")
            {
                out << param.value<scalar_t>();
            }
            else if (op.kind == "rpi")
            {
                const auto [v1, v2] = param.value_pair<int64_t>();
                out << v1 << v2;
            }
            else if (op.kind == "rpf")
            {
                const auto [v1, v2] = param.value_pair<scalar_t>();
                out << v1 << v2;
            }
            else if (op.kind == "rs")
            {
                out << enc(param.value<string_t>());
            }
            else if (op.kind == "re")
            {
                out << enc(scat(param.value<vh_enum>()));
            }
            else if (op.kind == "si32")
            {
                param = static_cast<int32_t>(op.i1);
            }
            else if (op.kind == "su64")
            {
                param = op.u1;
            }
            else if (op.kind == "sb")
            {
                param = (op.i1 != 0);
            }
            else if (op.kind == "sf32")
            {
                param = static_cast<float>(op.f1);
            }
            else if (op.kind == "ri32")
            {
                out << static_cast<int64_t>(param.value<int32_t>());
            }
            else if (op.kind == "ru64")
            {
                // static_cast<uint64_t>(double) is undefined for negative values: a scalar parameter is not read that way
                // (neither does the library, see Gen/ParamReads.lean)
                if (std::get_if<parameter_t::frange_t>(&param.storage()) != nullptr)
                {
                    return std::string{"na"};
                }
                out << std::to_string(param.value<uint64_t>());
            }
            else if (op.kind == "rf32")
            {
                out << static_cast<double>(param.value<float>());
            }
            else if (op.kind == "rpi32")
            {
                const auto [v1, v2] = param.value_pair<int32_t>();
                out << static_cast<int64_t>(v1) << static_cast<int64_t>(v2);
            }
            else if (op.kind == "rpf32")
            {
                const auto [v1, v2] = param.value_pair<float>();
                out << static_cast<double>(v1) << static_cast<double>(v2);
            }
            else if (op.kind == "eq")
            {
                parameter_t other;
                try
                {
                    other = build(op.i1 != 0 ? param.name() : param.name() + "'", *op.other);
                }
                catch (const std::exception&)
                {
                    return std::string{"noother"};
                }
                const auto e1 = param == other;
                const auto e2 = other == param;
                const auto n1 = param != other;
                if (e1 != e2 || e1 == n1)
                {
                    return std::string{"ok inconsistent"};
                }
                out << (e1 ? 1 : 0);
            }
            else if (op.kind == "wr")
            {
                std::ostringstream os;
                param.write(os);
                parameter_t        other;
                std::istringstream is(os.str());
                other.read(is);
                const auto equal = (other == param) && !(other != param);
                const auto eof   = is.peek() == std::char_traits<char>::eof();
                param            = other;
                out << (equal ? 1 : 0) << (eof ? 1 : 0);
            }
            return out.str();
        });
}

// `show`: what `operator<<` prints for the value, the domain and the whole parameter (monitored by the python oracle only)
std::string shown(const parameter_t& param)
{
    return " @ " + enc(scat(param.value())) + " " + enc(scat(param.domain())) + " " + enc(scat(param));
}

std::string param_hist(toks_t& toks, const bool show = false)
{
    const auto        spec = read_spec(toks);
    const auto        n    = toks.i64();
    std::vector<op_t> ops;
    for (int64_t k = 0; k < n; ++k)
    {
        ops.push_back(read_op(toks));
    }
    if (!toks.done())
    {
        throw bad_op("trailing tokens");
    }

    parameter_t param;
    const auto  made = guarded(
        [&]() -> std::string
        {
            param = build("p", spec);
            return "ok";
        });
    if (made != "ok")
    {
        return made;
    }
    out_t out;
    out << "ok" << state_of(param) + (show ? shown(param) : std::string{});
    for (const auto& op : ops)
    {
        out << ";" << apply_op(param, op) << "/" << state_of(param) + (show ? shown(param) : std::string{});
    }
    return out.str();
}

// ---- configurable_t histories ----------------------------------------------------------------------------
std::string config_hist(toks_t& toks)
{
    configurable_t c;
    out_t          out;
    out << "ok";
    const auto n = toks.i64();
    // the whole line is parsed before anything runs, so that a malformed line is a bad-op and nothing else
    struct cop_t
    {
        std::string kind, name;
        spec_t      spec;
        op_t        op;
    };

    std::vector<cop_t> cops;
    for (int64_t k = 0; k < n; ++k)
    {
        cop_t cop;
        cop.kind = toks.s();
        cop.name = dec(toks.s());
        if (cop.kind == "reg")
        {
            cop.spec = read_spec(toks);
        }
        else if (cop.kind == "get" || cop.kind == "cfg")
        {
            cop.op = read_op(toks);
            if (cop.kind == "cfg" && cop.op.kind != "si" && cop.op.kind != "sf" && cop.op.kind != "ss")
            {
                throw bad_op("config() is exercised with integers, scalars and strings");
            }
        }
        else if (cop.kind != "has" && cop.kind != "copy")
        {
            throw bad_op("unknown configurable op " + cop.kind);
        }
        cops.push_back(cop);
    }
    if (!toks.done())
    {
        throw bad_op("trailing tokens");
    }
    for (const auto& cop : cops)
    {
        std::string res;
        if (cop.kind == "reg")
        {
            res = guarded(
                [&]() -> std::string
                {
                    c.register_parameter(build(cop.name, cop.spec));
                    return "ok";
                });
        }
        else if (cop.kind == "has")
        {
            const auto* p  = c.parameter_if(cop.name);
            const auto* cp = static_cast<const configurable_t&>(c).parameter_if(cop.name);
            res            = std::string("ok ") + ((p != nullptr && p == cp) ? "1" : (p == cp ? "0" : "mismatch"));
        }
        else if (cop.kind == "copy")
        {
            // copy construction, copy assignment, move construction, move assignment: the registered parameters travel
            // (configurable.h:25-32, all defaulted); the history continues on the copy of the copy
            configurable_t d{c};
            configurable_t e;
            e.register_parameter(parameter_t::make_string("to-be-overwritten", "x"));
            e = d;
            configurable_t f{std::move(e)};
            auto same = d.parameters().size() == c.parameters().size() && f.parameters().size() == c.parameters().size();
            for (size_t k = 0; same && k < c.parameters().size(); ++k)
            {
                same = state_of(d.parameters()[k]) == state_of(c.parameters()[k]) &&
                       d.parameters()[k].name() == c.parameters()[k].name() &&
                       state_of(f.parameters()[k]) == state_of(c.parameters()[k]) &&
                       f.parameters()[k].name() == c.parameters()[k].name() &&
                       (c.parameters()[k] == f.parameters()[k]);
            }
            c   = std::move(f);
            res = std::string("ok ") + (same ? "1" : "0");
        }
        else if (cop.kind == "get")
        {
            res = guarded(
                [&]() -> std::string
                {
                    auto& p = c.parameter(cop.name);
                    if (&p != &static_cast<const configurable_t&>(c).parameter(cop.name))
                    {
                        return "ok mismatch";
                    }
                    return apply_op(p, cop.op);
                });
        }
        else
        {
            res = guarded(
                [&]() -> std::string
                {
                    if (cop.op.kind == "si")
                    {
                        c.config(cop.name.c_str(), cop.op.i1);
                    }
                    else if (cop.op.kind == "sf")
                    {
                        c.config(cop.name.c_str(), cop.op.f1);
                    }
                    else
                    {
                        c.config(cop.name.c_str(), cop.op.s);
                    }
                    return "ok";
                });
        }
        out << ";" << res;
    }
    out << ";" << "state" << static_cast<long long>(c.parameters().size());
    for (const auto& p : c.parameters())
    {
        out << enc(p.name()) << state_of(p);
    }
    return out.str();
}

// ---- factories -------------------------------------------------------------------------------------------
const char* const factory_names[] = {"solver",    "lsearchk", "lsearch0", "loss",       "splitter", "tuner",
                                     "generator", "wlearner", "linear",   "datasource", "function"};

template <class tfun>
std::string with_factory(const std::string& f, const tfun& fn)
{
    if (f == "solver")
    {
        return fn(solver_t::all());
    }
    if (f == "lsearchk")
    {
        return fn(lsearchk_t::all());
    }
    if (f == "lsearch0")
    {
        return fn(lsearch0_t::all());
    }
    if (f == "loss")
    {
        return fn(loss_t::all());
    }
    if (f == "splitter")
    {
        return fn(splitter_t::all());
    }
    if (f == "tuner")
    {
        return fn(tuner_t::all());
    }
    if (f == "generator")
    {
        return fn(generator_t::all());
    }
    if (f == "wlearner")
    {
        return fn(wlearner_t::all());
    }
    if (f == "linear")
    {
        return fn(linear_t::all());
    }
    if (f == "datasource")
    {
        return fn(datasource_t::all());
    }
    if (f == "function")
    {
        return fn(function_t::all());
    }
    throw bad_op("unknown factory " + f);
}

template <class tobject>
parameters_t params_of(const tobject& object)
{
    if constexpr (std::is_base_of_v<configurable_t, tobject>)
    {
        return object.parameters();
    }
    else
    {
        return {};
    }
}

bool same_bits(const double a, const double b)
{
    return (std::isnan(a) && std::isnan(b)) || std::memcmp(&a, &b, sizeof(double)) == 0;
}

template <class tvec>
bool same_vector(const tvec& a, const tvec& b)
{
    if (a.size() != b.size())
    {
        return false;
    }
    for (tensor_size_t i = 0; i < a.size(); ++i)
    {
        if (!same_bits(static_cast<double>(a(i)), static_cast<double>(b(i))))
        {
            return false;
        }
    }
    return true;
}

std::vector<double> run_solver(const solver_t& solver)
{
    const auto function = function_t::all().get("sphere")->make(3, 1);
    vector_t   x0(3);
    x0(0)            = 1.0;
    x0(1)            = -0.5;
    x0(2)            = 0.25;
    const auto state = solver.minimize(*function, x0, make_null_logger());

    std::vector<double> r{state.fx(), static_cast<double>(static_cast<int>(state.status()))};
    for (tensor_size_t i = 0; i < state.x().size(); ++i)
    {
        r.push_back(state.x()(i));
    }
    return r;
}

bool same_doubles(const std::vector<double>& a, const std::vector<double>& b)
{
    if (a.size() != b.size())
    {
        return false;
    }
    for (size_t i = 0; i < a.size(); ++i)
    {
        if (!same_bits(a[i], b[i]))
        {
            return false;
        }
    }
    return true;
}


// ---- behavioural probes of the other kinds -----------------------------------------------------------------------
// a line-search on a fixed state, twice (the interface is const: the second answer must be the first one); every number
// of every answer is compared bit by bit between the original and the clone
std::vector<double> use_lsearchk(const lsearchk_t& lsearchk)
{
    std::vector<double> answers;
    for (int call = 0; call < 2; ++call)
    {
        const auto function = function_t::all().get("rosenbrock")->make(2, 10);
        vector_t   x(2);
        x(0)       = -1.2;
        x(1)       = 1.0;
        auto state = solver_state_t{*function, x};
        vector_t descent(2);
        for (tensor_size_t i = 0; i < 2; ++i)
        {
            descent(i) = -state.gx()(i);
        }
        try
        {
            const auto [ok, t] = lsearchk.get(state, descent, 1e-3, make_null_logger());
            answers.push_back(ok ? 1.0 : 0.0);
            answers.push_back(t);
            answers.push_back(state.fx());
            answers.push_back(state.x()(0));
            answers.push_back(state.x()(1));
            answers.push_back(static_cast<double>(function->fcalls()));
        }
        catch (const std::exception&)
        {
            answers.push_back(-777.0);
        }
    }
    return answers;
}

int probe_lsearchk(const lsearchk_t& a, const lsearchk_t& b)
{
    const auto r1 = use_lsearchk(a);
    // the two calls of one run answer the same: no state is kept between calls
    const auto half = r1.size() / 2U;
    if (r1.size() % 2U != 0U ||
        !same_doubles(std::vector<double>(r1.begin(), r1.begin() + static_cast<std::ptrdiff_t>(half)),
                      std::vector<double>(r1.begin() + static_cast<std::ptrdiff_t>(half), r1.end())))
    {
        return -1;
    }
    return same_doubles(r1, use_lsearchk(b)) ? 1 : 0;
}

// a tuner on a tiny grid with a fixed (deterministic) callback
std::vector<double> use_tuner(const tuner_t& tuner)
{
    tensor1d_t grid1(5);
    tensor1d_t grid2(4);
    for (tensor_size_t i = 0; i < 5; ++i)
    {
        grid1(i) = 0.1 * static_cast<double>(i + 1);
    }
    for (tensor_size_t i = 0; i < 4; ++i)
    {
        grid2(i) = std::pow(10.0, static_cast<double>(i) - 2.0);
    }
    param_spaces_t spaces;
    spaces.emplace_back("p1", param_space_t::type::linear, grid1);
    spaces.emplace_back("p2", param_space_t::type::log10, grid2);
    const auto callback = [](const tensor2d_t& params)
    {
        tensor1d_t values(params.size<0>());
        for (tensor_size_t t = 0; t < params.size<0>(); ++t)
        {
            const auto p1 = params(t, 0);
            const auto p2 = params(t, 1);
            values(t)     = (p1 - 0.33) * (p1 - 0.33) + 0.1 * (std::log10(p2) + 0.4) * (std::log10(p2) + 0.4);
        }
        return values;
    };
    std::vector<double> answers;
    try
    {
        const auto steps = tuner.optimize(spaces, callback, make_null_logger());
        for (const auto& step : steps)
        {
            for (tensor_size_t i = 0; i < step.m_igrid.size(); ++i)
            {
                answers.push_back(static_cast<double>(step.m_igrid(i)));
            }
            for (tensor_size_t i = 0; i < step.m_param.size(); ++i)
            {
                answers.push_back(step.m_param(i));
            }
            answers.push_back(step.m_value);
        }
    }
    catch (const std::exception&)
    {
        answers.push_back(-777.0);
    }
    return answers;
}

int probe_tuner(const tuner_t& a, const tuner_t& b)
{
    const auto r1 = use_tuner(a);
    if (!same_doubles(r1, use_tuner(a)))
    {
        return -1;
    }
    return same_doubles(r1, use_tuner(b)) ? 1 : 0;
}

// a tiny fixed dataset for the weak learners: two scalar features, a categorical and a multi-label one, missing values
class vh_datasource_t final : public datasource_t
{
public:
    vh_datasource_t()
        : datasource_t("c19")
    {
    }

    rdatasource_t clone() const override { return std::make_unique<vh_datasource_t>(*this); }

    static constexpr tensor_size_t samples = 80;

private:
    void do_load() override
    {
        features_t features;
        features.push_back(feature_t{"x0"}.scalar(feature_type::float64));
        features.push_back(feature_t{"x1"}.scalar(feature_type::float64));
        features.push_back(feature_t{"s"}.sclass(3U));
        features.push_back(feature_t{"m"}.mclass(3U));
        features.push_back(feature_t{"target"}.scalar(feature_type::float64, make_dims(1, 1, 1)));
        resize(samples, features, 4U);
        for (tensor_size_t i = 0; i < samples; ++i)
        {
            const auto u = static_cast<double>((i * 7) % 80) / 80.0;
            if (i % 11 != 10)
            {
                set(i, 0, u - 0.5);
            }
            set(i, 1, std::sin(static_cast<double>(i)) * 2.0);
            if (i % 9 != 8)
            {
                set(i, 2, static_cast<int64_t>((i * 5) % 3));
            }
            tensor_mem_t<int8_t, 1> hits(3);
            for (tensor_size_t c = 0; c < 3; ++c)
            {
                hits(c) = static_cast<int8_t>(((i + 1) >> c) & 1);
            }
            set(i, 3, hits);
            set(i, 4, 0.0);
        }
    }
};

const dataset_t& probe_dataset()
{
    static vh_datasource_t datasource = []()
    {
        vh_datasource_t d;
        d.load();
        return d;
    }();
    static const dataset_t dataset = []()
    {
        dataset_t d{datasource, 1U};
        d.add<sclass_identity_generator_t>();
        d.add<mclass_identity_generator_t>();
        d.add<scalar_identity_generator_t>();
        return d;
    }();
    return dataset;
}

tensor4d_t probe_gradients()
{
    tensor4d_t gradients(vh_datasource_t::samples, 1, 1, 1);
    for (tensor_size_t i = 0; i < vh_datasource_t::samples; ++i)
    {
        const auto u     = static_cast<double>((i * 7) % 80) / 80.0;
        gradients(i)     = (u < 0.4 ? -1.5 : 0.75) + 0.3 * std::cos(static_cast<double>(3 * i)) + (i % 3 == 0 ? 0.5 : 0.0);
    }
    return gradients;
}

std::vector<double> predictions_of(const wlearner_t& wlearner)
{
    const auto&         dataset = probe_dataset();
    std::vector<double> answers;
    try
    {
        const auto outputs = wlearner.predict(dataset, arange(0, vh_datasource_t::samples));
        for (tensor_size_t i = 0; i < outputs.size(); ++i)
        {
            answers.push_back(outputs(i));
        }
        for (const auto feature : wlearner.features())
        {
            answers.push_back(static_cast<double>(feature));
        }
    }
    catch (const std::exception&)
    {
        answers.push_back(-777.0);
    }
    return answers;
}

// fits a and b (when they are not fitted yet ... a weak learner can be fitted again) on the fixed dataset: scores and
// predictions must agree bit by bit; then the clone taken AFTER the fit must predict like the fitted original
int probe_wlearner(wlearner_t& a, wlearner_t& b)
{
    const auto& dataset   = probe_dataset();
    const auto  gradients = probe_gradients();
    const auto  samples   = arange(0, vh_datasource_t::samples);
    try
    {
        const auto s1 = a.fit(dataset, samples, gradients);
        const auto s2 = (&a == &b) ? s1 : b.fit(dataset, samples, gradients);
        if (!same_bits(s1, s2) || !same_doubles(predictions_of(a), predictions_of(b)))
        {
            return 0;
        }
        const auto fitted = a.clone();
        if (std::getenv("VH_DEBUG") != nullptr)
        {
            double sum = 0.0;
            for (const auto v : predictions_of(a))
            {
                sum += std::fabs(v);
            }
            std::fprintf(stderr, "probe_wlearner: %s score %g sum|pred| %g\n", a.type_id().c_str(), s1, sum);
        }
        return same_doubles(predictions_of(a), predictions_of(*fitted)) ? 1 : 0;
    }
    catch (const std::exception& e)
    {
        if (std::getenv("VH_DEBUG") != nullptr)
        {
            std::fprintf(stderr, "probe_wlearner: %s\n", e.what());
        }
        return -1;
    }
}

// a generator fitted on the fixed datasource: the clone taken after the fit generates the same features
std::vector<std::string> use_generator(generator_t& generator, const bool fit)
{
    std::vector<std::string> answers;
    try
    {
        if (fit)
        {
            static vh_datasource_t datasource = []()
            {
                vh_datasource_t d;
                d.load();
                return d;
            }();
            generator.fit(datasource);
        }
        answers.push_back(std::to_string(generator.features()));
        for (tensor_size_t i = 0; i < generator.features(); ++i)
        {
            const auto feature = generator.feature(i);
            answers.push_back(feature.name() + "/" + scat(feature.type()) + "/" + std::to_string(::nano::size(feature.dims())));
        }
    }
    catch (const std::exception&)
    {
        answers.emplace_back("throw");
    }
    return answers;
}

// behavioural probe: -1 = not applicable, 1 = original and clone give bit-identical answers, 0 = they differ
template <class tobject>
int probe(const tobject& original, const tobject& clone)
{
    if constexpr (std::is_same_v<tobject, loss_t>)
    {
        tensor4d_t targets(2, 3, 1, 1);
        tensor4d_t outputs(2, 3, 1, 1);
        targets.full(-1.0);
        targets(0, 0, 0, 0) = +1.0;
        targets(1, 1, 0, 0) = +1.0;
        for (tensor_size_t i = 0; i < outputs.size(); ++i)
        {
            outputs(i) = 0.37 * static_cast<double>(i) - 0.8;
        }
        tensor1d_t v1(2);
        tensor1d_t v2(2);
        tensor1d_t e1(2);
        tensor1d_t e2(2);
        tensor4d_t g1(2, 3, 1, 1);
        tensor4d_t g2(2, 3, 1, 1);
        original.value(targets, outputs, v1);
        clone.value(targets, outputs, v2);
        original.error(targets, outputs, e1);
        clone.error(targets, outputs, e2);
        original.vgrad(targets, outputs, g1);
        clone.vgrad(targets, outputs, g2);
        return (same_vector(v1, v2) && same_vector(e1, e2) && same_vector(g1, g2)) ? 1 : 0;
    }
    else if constexpr (std::is_same_v<tobject, function_t>)
    {
        const auto n = original.size();
        if (n != clone.size() || original.name() != clone.name())
        {
            return 0;
        }
        vector_t x(n);
        for (tensor_size_t i = 0; i < n; ++i)
        {
            x(i) = 0.1 * static_cast<double>(i + 1) - 0.3;
        }
        vector_t   g1(n);
        vector_t   g2(n);
        const auto f1 = original.vgrad(x, g1);
        const auto f2 = clone.vgrad(x, g2);
        return (same_bits(f1, f2) && same_vector(g1, g2)) ? 1 : 0;
    }
    else if constexpr (std::is_same_v<tobject, splitter_t>)
    {
        const auto s1 = original.split(arange(0, 30));
        const auto s2 = clone.split(arange(0, 30));
        if (s1.size() != s2.size())
        {
            return 0;
        }
        for (size_t i = 0; i < s1.size(); ++i)
        {
            if (!same_vector(s1[i].first, s2[i].first) || !same_vector(s1[i].second, s2[i].second))
            {
                return 0;
            }
        }
        return 1;
    }
    else if constexpr (std::is_same_v<tobject, solver_t>)
    {
        // solvers drawing from std::random_device are not comparable run to run: applicable only when the
        // original reproduces itself
        const auto& sid = original.type_id();
        if (original.type() != clone.type())
        {
            return 0;
        }
        if (sid == "gs" || sid == "ags" || sid == "gs-lbfgs" || sid == "ags-lbfgs")
        {
            return -1;
        }
        const auto r1 = run_solver(original);
        const auto r2 = run_solver(original);
        if (!same_doubles(r1, r2))
        {
            return -1;
        }
        return same_doubles(r1, run_solver(clone)) ? 1 : 0;
    }
    else if constexpr (std::is_same_v<tobject, lsearchk_t>)
    {
        return probe_lsearchk(original, clone);
    }
    else if constexpr (std::is_same_v<tobject, tuner_t>)
    {
        return probe_tuner(original, clone);
    }
    else if constexpr (std::is_same_v<tobject, wlearner_t>)
    {
        // the walk hands in const objects: the fits run on copies
        const auto a = original.clone();
        const auto b = clone.clone();
        return probe_wlearner(*a, *b);
    }
    else if constexpr (std::is_same_v<tobject, generator_t>)
    {
        const auto a = original.clone();
        const auto r = use_generator(*a, true);
        const auto b = a->clone();
        return (r == use_generator(*b, false) && use_generator(*original.clone(), true) == use_generator(*clone.clone(), true)) ? 1 : 0;
    }
    else
    {
        return -1;
    }
}

void print_params(out_t& out, const parameters_t& params)
{
    out << static_cast<long long>(params.size());
    for (const auto& p : params)
    {
        out << enc(p.name());
        print_state(out, p);
    }
}

// ---- configuration trees: type_id, registered parameters, owned objects (recursively) -----------------------
struct tree_t
{
    std::string                                  type;
    parameters_t                                 params;
    std::vector<std::pair<std::string, tree_t>> kids;
};

void print_tree(out_t& out, const tree_t& tree)
{
    out << enc(tree.type);
    print_params(out, tree.params);
    out << static_cast<long long>(tree.kids.size());
    for (const auto& kid : tree.kids)
    {
        out << kid.first;
        print_tree(out, kid.second);
    }
}

// canonical text of a tree: two trees are equal iff their texts are (doubles bit for bit)
std::string text_of(const tree_t& tree)
{
    out_t out;
    print_tree(out, tree);
    return out.str();
}

template <class tobject>
tree_t tree_of(const tobject& object)
{
    tree_t tree;
    tree.type   = object.type_id();
    tree.params = params_of(object);
    if constexpr (std::is_base_of_v<solver_t, tobject>)
    {
        tree.kids.emplace_back("lsearch0", tree_of(object.lsearch0()));
        tree.kids.emplace_back("lsearchk", tree_of(object.lsearchk()));
    }
    return tree;
}

tree_t tree_of(const ml::params_t& params)
{
    tree_t tree;
    tree.type = "params";
    tree.kids.emplace_back("tuner", tree_of(params.tuner()));
    tree.kids.emplace_back("solver", tree_of(params.solver()));
    tree.kids.emplace_back("splitter", tree_of(params.splitter()));
    return tree;
}

tree_t tree_of(const gboost_model_t& model)
{
    tree_t tree;
    tree.type   = "gboost";
    tree.params = model.parameters();
    size_t j    = 0;
    for (const auto& proto : model.prototypes())
    {
        tree.kids.emplace_back("proto" + std::to_string(j++), tree_of(*proto));
    }
    return tree;
}

// the objects an object of a factory owns: (child, factory, id)
template <class tobject>
void print_kid_ids(out_t& out, const tobject& object)
{
    if constexpr (std::is_base_of_v<solver_t, tobject>)
    {
        out << 2 << "lsearch0" << "lsearch0" << enc(object.lsearch0().type_id()) << "lsearchk" << "lsearchk"
            << enc(object.lsearchk().type_id());
    }
    else
    {
        out << 0;
    }
}

bool try_assign(const std::function<void()>& f)
{
    try
    {
        f();
        return true;
    }
    catch (const std::exception&)
    {
        return false;
    }
}

// changes the parameter to another value of its domain, taken from the candidates; the model does the same
void modify(parameter_t& param, const std::vector<int64_t>& ic, const std::vector<double>& fc)
{
    std::visit(overloaded{[&](const std::monostate&) {},
                          [&](const parameter_t::enum_t& p)
                          {
                              const auto it = std::find(p.m_domain.begin(), p.m_domain.end(), p.m_value);
                              if (it != p.m_domain.end() && p.m_domain.size() > 1U)
                              {
                                  const auto k    = static_cast<size_t>(it - p.m_domain.begin());
                                  const auto next = p.m_domain[(k + 1U) % p.m_domain.size()];
                                  try_assign([&]() { param = next; });
                              }
                          },
                          [&](const parameter_t::irange_t& p)
                          {
                              const auto old = p.m_value;
                              for (const auto c : ic)
                              {
                                  if (c != old && try_assign([&]() { param = c; }))
                                  {
                                      break;
                                  }
                              }
                          },
                          [&](const parameter_t::frange_t& p)
                          {
                              const auto old = p.m_value;
                              for (const auto c : fc)
                              {
                                  if (c != old && try_assign([&]() { param = c; }))
                                  {
                                      break;
                                  }
                              }
                          },
                          [&](const parameter_t::iprange_t& p)
                          {
                              const auto o1 = p.m_value1;
                              const auto o2 = p.m_value2;
                              for (size_t j = 0; j + 1 < ic.size(); ++j)
                              {
                                  if ((ic[j] != o1 || ic[j + 1] != o2) &&
                                      try_assign([&]() { param = std::make_tuple(ic[j], ic[j + 1]); }))
                                  {
                                      break;
                                  }
                              }
                          },
                          [&](const parameter_t::fprange_t& p)
                          {
                              const auto o1 = p.m_value1;
                              const auto o2 = p.m_value2;
                              for (size_t j = 0; j + 1 < fc.size(); ++j)
                              {
                                  if ((fc[j] != o1 || fc[j + 1] != o2) &&
                                      try_assign([&]() { param = std::make_tuple(fc[j], fc[j + 1]); }))
                                  {
                                      break;
                                  }
                              }
                          },
                          [&](const string_t& p)
                          {
                              const auto next = p + "x";
                              try_assign([&]() { param = next; });
                          }},
               parameter_t{param}.storage());
}

std::vector<double> run_solver_on(const solver_t& solver, const char* const fid, const tensor_size_t dims)
{
    const auto function = function_t::all().get(fid)->make(dims, 10);
    vector_t   x0(function->size());
    for (tensor_size_t i = 0; i < x0.size(); ++i)
    {
        x0(i) = (i % 2 == 0) ? -1.2 : 1.0;
    }
    const auto state = solver.minimize(*function, x0, make_null_logger());

    std::vector<double> r{state.fx(), static_cast<double>(static_cast<int>(state.status())),
                          static_cast<double>(state.fcalls()), static_cast<double>(state.gcalls())};
    for (tensor_size_t i = 0; i < state.x().size(); ++i)
    {
        r.push_back(state.x()(i));
    }
    return r;
}

// the probe of the owner histories: a quadratic and, for the solvers that use the line-search objects they own, the
// Rosenbrock function (on which the configuration of the line-search objects decides the trajectory; the bundle
// methods need seconds on it)
std::vector<double> run_solver_twice(const solver_t& solver)
{
    auto r1 = run_solver_on(solver, "sphere", 3);
    if (solver.type() == solver_type::line_search)
    {
        const auto r2 = run_solver_on(solver, "rosenbrock", 2);
        r1.insert(r1.end(), r2.begin(), r2.end());
    }
    return r1;
}

// the gradient-sampling solvers draw from std::random_device (make_rng() without a seed): their runs are not comparable, and
// "the original reproduces itself" can hold by chance (a run that ends before a draw matters) while the clone's run differs
bool draws_unseeded(const solver_t& solver)
{
    const auto& id = solver.type_id();
    return id == "gs" || id == "ags" || id == "gs-lbfgs" || id == "ags-lbfgs";
}

int probe_solvers(const solver_t& a, const solver_t& b)
{
    // what the solver says about itself besides its parameters travels with a copy as well
    if (a.type() != b.type())
    {
        return 0;
    }
    if (draws_unseeded(a) || draws_unseeded(b))
    {
        return -1;
    }
    const auto r1 = run_solver_twice(a);
    if (!same_doubles(r1, run_solver_twice(a)))
    {
        return -1;
    }
    return same_doubles(r1, run_solver_twice(b)) ? 1 : 0;
}

template <class tobject>
std::string walk(const factory_t<tobject>& factory, const std::string& id, const uint64_t mask,
                 const std::vector<int64_t>& ic, const std::vector<double>& fc, int& applicable)
{
    const auto object = factory.get(id);
    if (!object)
    {
        return "ok missing";
    }
    out_t out;
    out << "ok";
    const auto defaults = tree_of(*object);
    print_tree(out, defaults);
    const auto& params0 = defaults.params;

    // the original is configured away from its defaults before it is cloned: bit (k % 62) of the mask <-> parameter k
    const auto again = factory.get(id);
    if constexpr (std::is_base_of_v<configurable_t, tobject>)
    {
        for (size_t k = 0; k < params0.size(); ++k)
        {
            if (((mask >> (k % 62U)) & 1U) != 0U)
            {
                modify(object->parameter(params0[k].name()), ic, fc);
                modify(again->parameter(params0[k].name()), ic, fc);
            }
        }
    }
    const auto configured = tree_of(*object);
    const auto& params     = configured.params;
    out << "pre";
    print_params(out, params);

    const auto clone = object->clone();
    out << "cloneeq" << ((text_of(tree_of(*clone)) == text_of(configured)) ? 1 : 0);

    applicable = probe<tobject>(*object, *clone);
    out << "probe" << applicable;

    // a second get() must hand out an object that is independent of the first one as well
    if constexpr (std::is_base_of_v<configurable_t, tobject>)
    {
        for (const auto& p : params)
        {
            modify(clone->parameter(p.name()), ic, fc);
            modify(again->parameter(p.name()), ic, fc);
        }
    }
    const auto intact = text_of(tree_of(*object)) == text_of(configured) &&
                        text_of(tree_of(*factory.get(id))) == text_of(defaults);
    const auto modified = tree_of(*clone);
    const auto agree    = text_of(modified) == text_of(tree_of(*again));
    out << "origsame" << ((intact && agree) ? 1 : 0);

    // the clone of the modified clone carries the modified configuration (not the defaults)
    const auto reclone = clone->clone();
    out << "reclone" << ((text_of(tree_of(*reclone)) == text_of(modified)) ? 1 : 0) << "clone";
    print_params(out, modified.params);
    return out.str();
}

template <class tobject>
void dump(out_t& out, const std::string& fname, const factory_t<tobject>& factory)
{
    for (const auto& id : factory.ids())
    {
        const auto object = factory.get(id);
        out << ";" << fname << enc(id) << enc(object ? object->type_id() : string_t{"<null>"});
        print_params(out, object ? params_of(*object) : parameters_t{});
        if (object)
        {
            print_kid_ids(out, *object);
        }
        else
        {
            out << 0;
        }
    }
}

// ---- histories over objects that own other objects -------------------------------------------------------
struct var_t
{
    std::string                     kind;
    rsolver_t                       solver;
    rlsearch0_t                     lsearch0;
    rlsearchk_t                     lsearchk;
    rtuner_t                        tuner;
    rsplitter_t                     splitter;
    rwlearner_t                     wlearner;
    std::unique_ptr<ml::params_t>   params;
    std::unique_ptr<gboost_model_t> gboost;
};

template <class tfun>
auto with_var(const var_t& v, const tfun& fn)
{
    if (v.kind == "solver")
    {
        return fn(*v.solver);
    }
    if (v.kind == "lsearch0")
    {
        return fn(*v.lsearch0);
    }
    if (v.kind == "lsearchk")
    {
        return fn(*v.lsearchk);
    }
    if (v.kind == "tuner")
    {
        return fn(*v.tuner);
    }
    if (v.kind == "splitter")
    {
        return fn(*v.splitter);
    }
    if (v.kind == "wlearner")
    {
        return fn(*v.wlearner);
    }
    if (v.kind == "params")
    {
        return fn(*v.params);
    }
    if (v.kind == "gboost")
    {
        return fn(*v.gboost);
    }
    throw bad_op("unknown kind " + v.kind);
}

tree_t tree_of(const var_t& v)
{
    return with_var(v, [](const auto& object) { return tree_of(object); });
}

bool make_var(var_t& v, const std::string& kind, const std::string& id)
{
    v.kind = kind;
    if (kind == "solver")
    {
        v.solver = solver_t::all().get(id);
        return static_cast<bool>(v.solver);
    }
    if (kind == "lsearch0")
    {
        v.lsearch0 = lsearch0_t::all().get(id);
        return static_cast<bool>(v.lsearch0);
    }
    if (kind == "lsearchk")
    {
        v.lsearchk = lsearchk_t::all().get(id);
        return static_cast<bool>(v.lsearchk);
    }
    if (kind == "tuner")
    {
        v.tuner = tuner_t::all().get(id);
        return static_cast<bool>(v.tuner);
    }
    if (kind == "splitter")
    {
        v.splitter = splitter_t::all().get(id);
        return static_cast<bool>(v.splitter);
    }
    if (kind == "wlearner")
    {
        v.wlearner = wlearner_t::all().get(id);
        return static_cast<bool>(v.wlearner);
    }
    if (kind == "params")
    {
        if (id == kind)
        {
            v.params = std::make_unique<ml::params_t>();
        }
        return static_cast<bool>(v.params);
    }
    if (kind == "gboost")
    {
        if (id == kind)
        {
            v.gboost = std::make_unique<gboost_model_t>();
        }
        return static_cast<bool>(v.gboost);
    }
    throw bad_op("unknown kind " + kind);
}

// a copy of the object held by a variable: clone() for the objects of the factories, the copy constructor for the rest
var_t copy_of(const var_t& s)
{
    var_t v;
    v.kind = s.kind;
    if (s.kind == "solver")
    {
        v.solver = s.solver->clone();
    }
    else if (s.kind == "lsearch0")
    {
        v.lsearch0 = s.lsearch0->clone();
    }
    else if (s.kind == "lsearchk")
    {
        v.lsearchk = s.lsearchk->clone();
    }
    else if (s.kind == "tuner")
    {
        v.tuner = s.tuner->clone();
    }
    else if (s.kind == "splitter")
    {
        v.splitter = s.splitter->clone();
    }
    else if (s.kind == "wlearner")
    {
        v.wlearner = s.wlearner->clone();
    }
    else if (s.kind == "params")
    {
        v.params = std::make_unique<ml::params_t>(*s.params);
    }
    else if (s.kind == "gboost")
    {
        v.gboost = std::make_unique<gboost_model_t>(*s.gboost);
    }
    else
    {
        throw bad_op("unknown kind " + s.kind);
    }
    return v;
}

std::string child_kind(const std::string& kind, const std::string& child)
{
    if (kind == "solver" && (child == "lsearch0" || child == "lsearchk"))
    {
        return child;
    }
    if (kind == "params" && (child == "tuner" || child == "solver" || child == "splitter"))
    {
        return child;
    }
    if (kind == "gboost" && child.size() > 5U && child.compare(0, 5, "proto") == 0 &&
        child.find_first_not_of("0123456789", 5) == std::string::npos && (child.size() == 6U || child[5] != '0'))
    {
        return "wlearner";
    }
    throw bad_op("a " + kind + " owns no " + child);
}

struct oop_t
{
    std::string          kind, skind, child, id;
    int64_t              a = 0, b = 0;
    std::vector<int64_t> srcs;
    op_t                 op;
};

oop_t read_oop(toks_t& toks)
{
    oop_t o;
    o.kind = toks.s();
    if (o.kind == "new")
    {
        o.skind = toks.s();
        o.id    = dec(toks.s());
    }
    else if (o.kind == "set")
    {
        o.a  = toks.i64();
        o.id = dec(toks.s());
        o.op = read_op(toks);
        if (o.op.kind[0] != 's')
        {
            throw bad_op("set takes an assignment");
        }
    }
    else if (o.kind == "inst")
    {
        o.a     = toks.i64();
        o.child = toks.s();
        o.b     = toks.i64();
    }
    else if (o.kind == "instid")
    {
        o.a     = toks.i64();
        o.child = toks.s();
        o.id    = dec(toks.s());
    }
    else if (o.kind == "protos")
    {
        o.a    = toks.i64();
        o.srcs = toks.ints();
    }
    else if (o.kind == "ext")
    {
        o.a     = toks.i64();
        o.child = toks.s();
    }
    else if (o.kind == "clone")
    {
        o.a = toks.i64();
    }
    else if (o.kind == "assign" || o.kind == "probe")
    {
        o.a = toks.i64();
        o.b = toks.i64();
    }
    else
    {
        throw bad_op("unknown owner op " + o.kind);
    }
    return o;
}

int probe_splitters(const splitter_t& a, const splitter_t& b)
{
    return probe<splitter_t>(a, b);
}

// the step-initialisation strategies keep a history between calls (previous value / slope): the probe makes three calls with
// fixed inputs on each object and compares every answer bit by bit; it LEAVES THE OBJECTS USED, so a clone taken after a probe
// is a clone of a used object and must continue like the original (seeded change C19-d3)
std::vector<double> use_lsearch0(lsearch0_t& lsearch0)
{
    const auto function = function_t::all().get("sphere")->make(3, 10);
    vector_t   x(3);
    x(0) = 1.0;
    x(1) = -2.0;
    x(2) = 0.5;
    std::vector<double> answers;
    // a non-negative last step size: the strategies then read the history of the previous call (a first call, last < 0, does not)
    auto                last = 0.25;
    for (int call = 0; call < 3; ++call)
    {
        const auto state = solver_state_t{*function, x};
        vector_t descent(3);
        for (tensor_size_t i = 0; i < 3; ++i)
        {
            descent(i) = -state.gx()(i) * (1.0 + 0.25 * call);
        }
        const auto     t0      = lsearch0.get(state, descent, last);
        answers.push_back(t0);
        last = 0.125 * (call + 1);
        for (tensor_size_t i = 0; i < 3; ++i)
        {
            x(i) += last * descent(i);
        }
    }
    return answers;
}

int probe_lsearch0(lsearch0_t& a, lsearch0_t& b)
{
    if (&a == &b)
    {
        use_lsearch0(a);
        return 1;
    }
    return same_doubles(use_lsearch0(a), use_lsearch0(b)) ? 1 : 0;
}

int probe_vars(const var_t& a, const var_t& b)
{
    if (a.kind != b.kind)
    {
        throw bad_op("probe of different kinds");
    }
    if (a.kind == "lsearch0")
    {
        return probe_lsearch0(*a.lsearch0, *b.lsearch0);
    }
    if (a.kind == "solver")
    {
        return probe_solvers(*a.solver, *b.solver);
    }
    if (a.kind == "splitter")
    {
        return probe_splitters(*a.splitter, *b.splitter);
    }
    if (a.kind == "lsearchk")
    {
        return probe_lsearchk(*a.lsearchk, *b.lsearchk);
    }
    if (a.kind == "tuner")
    {
        return probe_tuner(*a.tuner, *b.tuner);
    }
    if (a.kind == "wlearner")
    {
        // leaves both FITTED: a clone taken afterwards is the clone of a fitted weak learner
        return probe_wlearner(*a.wlearner, *b.wlearner);
    }
    if (a.kind == "params")
    {
        const auto p1 = probe_solvers(a.params->solver(), b.params->solver());
        const auto p2 = probe_splitters(a.params->splitter(), b.params->splitter());
        return (p1 == 0 || p2 == 0) ? 0 : 1;
    }
    return -1;
}

std::string owner_hist(toks_t& toks, std::string& aug)
{
    const auto         n = toks.i64();
    std::vector<oop_t> oops;
    for (int64_t k = 0; k < n; ++k)
    {
        oops.push_back(read_oop(toks));
    }
    if (!toks.done())
    {
        // the line is being replayed with the augmentation: drop it
        if (toks.s() != "probes")
        {
            throw bad_op("trailing tokens");
        }
        toks.ints();
        if (!toks.done())
        {
            throw bad_op("trailing tokens");
        }
        aug = aug.substr(0, aug.rfind(" probes "));
    }

    std::vector<var_t>   vars;
    std::vector<int64_t> answers;
    const auto var = [&](const int64_t i) -> var_t&
    {
        if (i < 0 || static_cast<size_t>(i) >= vars.size())
        {
            throw bad_op("no variable " + std::to_string(i));
        }
        return vars[static_cast<size_t>(i)];
    };
    const auto expect = [&](const var_t& v, const std::string& kind) -> const var_t&
    {
        if (v.kind != kind)
        {
            throw bad_op("a " + kind + " is expected, the variable holds a " + v.kind);
        }
        return v;
    };

    out_t out;
    out << "ok";
    for (const auto& o : oops)
    {
        std::string res;
        if (o.kind == "new")
        {
            var_t v;
            if (make_var(v, o.skind, o.id))
            {
                vars.push_back(std::move(v));
                res = "ok";
            }
            else
            {
                res = "missing";
            }
        }
        else if (o.kind == "set")
        {
            auto& v = var(o.a);
            res     = guarded(
                [&]() -> std::string
                {
                    if (v.kind == "params")
                    {
                        // ml::params_t has no parameters of its own
                        throw std::runtime_error("unknown parameter");
                    }
                    return with_var(v,
                                    [&](auto& object) -> std::string
                                    {
                                        if constexpr (std::is_base_of_v<configurable_t, std::decay_t<decltype(object)>>)
                                        {
                                            return apply_op(const_cast<std::decay_t<decltype(object)>&>(object)
                                                                .parameter(o.id),
                                                            o.op);
                                        }
                                        else
                                        {
                                            return std::string{"throw critical"};
                                        }
                                    });
                });
        }
        else if (o.kind == "inst")
        {
            auto&       d  = var(o.a);
            const auto  ck = child_kind(d.kind, o.child);
            const auto& s  = expect(var(o.b), ck);
            // the overloads taking an object and taking the smart pointer are both exercised
            const auto  by_pointer = ((o.a + o.b) % 2) != 0;
            if (d.kind == "solver" && ck == "lsearch0")
            {
                d.solver->lsearch0(*s.lsearch0);
            }
            else if (d.kind == "solver" && ck == "lsearchk")
            {
                d.solver->lsearchk(*s.lsearchk);
            }
            else if (d.kind == "params" && ck == "tuner")
            {
                by_pointer ? d.params->tuner(s.tuner) : d.params->tuner(*s.tuner);
            }
            else if (d.kind == "params" && ck == "solver")
            {
                by_pointer ? d.params->solver(s.solver) : d.params->solver(*s.solver);
            }
            else if (d.kind == "params" && ck == "splitter")
            {
                by_pointer ? d.params->splitter(s.splitter) : d.params->splitter(*s.splitter);
            }
            else
            {
                throw bad_op("inst: use protos for the weak learners of a gboost model");
            }
            res = "ok";
        }
        else if (o.kind == "instid")
        {
            auto&      d  = var(o.a);
            const auto ck = child_kind(d.kind, o.child);
            res           = guarded(
                [&]() -> std::string
                {
                    if (d.kind == "solver" && ck == "lsearch0")
                    {
                        d.solver->lsearch0(o.id);
                    }
                    else if (d.kind == "solver" && ck == "lsearchk")
                    {
                        d.solver->lsearchk(o.id);
                    }
                    else if (d.kind == "params" && ck == "tuner")
                    {
                        d.params->tuner(o.id);
                    }
                    else if (d.kind == "params" && ck == "solver")
                    {
                        d.params->solver(o.id);
                    }
                    else if (d.kind == "params" && ck == "splitter")
                    {
                        d.params->splitter(o.id);
                    }
                    else
                    {
                        throw bad_op("instid: use protos for the weak learners of a gboost model");
                    }
                    return "ok";
                });
        }
        else if (o.kind == "protos")
        {
            auto&        d = var(o.a);
            rwlearners_t protos;
            expect(d, "gboost");
            for (const auto s : o.srcs)
            {
                protos.push_back(expect(var(s), "wlearner").wlearner->clone());
            }
            if (o.srcs.size() % 2U == 0U)
            {
                d.gboost->prototypes(protos);
            }
            else
            {
                d.gboost->prototypes(std::move(protos));
            }
            res = "ok";
        }
        else if (o.kind == "ext")
        {
            const auto& s  = var(o.a);
            const auto  ck = child_kind(s.kind, o.child);
            var_t       v;
            v.kind = ck;
            if (s.kind == "solver" && ck == "lsearch0")
            {
                v.lsearch0 = s.solver->lsearch0().clone();
            }
            else if (s.kind == "solver" && ck == "lsearchk")
            {
                v.lsearchk = s.solver->lsearchk().clone();
            }
            else if (s.kind == "params" && ck == "tuner")
            {
                v.tuner = s.params->tuner().clone();
            }
            else if (s.kind == "params" && ck == "solver")
            {
                v.solver = s.params->solver().clone();
            }
            else if (s.kind == "params" && ck == "splitter")
            {
                v.splitter = s.params->splitter().clone();
            }
            else
            {
                const auto j = static_cast<size_t>(std::stoll(o.child.substr(5)));
                if (j >= s.gboost->prototypes().size())
                {
                    throw bad_op("the model has no " + o.child);
                }
                v.wlearner = s.gboost->prototypes()[j]->clone();
            }
            vars.push_back(std::move(v));
            res = "ok";
        }
        else if (o.kind == "clone")
        {
            auto v = copy_of(var(o.a));
            vars.push_back(std::move(v));
            res = "ok";
        }
        else if (o.kind == "assign")
        {
            auto&       d = var(o.a);
            const auto& s = expect(var(o.b), d.kind);
            if (d.kind == "params")
            {
                *d.params = *s.params;
            }
            else if (d.kind == "gboost")
            {
                *d.gboost = *s.gboost;
            }
            else
            {
                throw bad_op("assign: the objects of the factories are not assignable");
            }
            res = "ok";
        }
        else
        {
            const auto answer = probe_vars(var(o.a), var(o.b));
            answers.push_back(answer);
            res = "probe " + std::to_string(answer);
        }
        out << ";" << res << "/" << static_cast<long long>(vars.size());
        for (const auto& v : vars)
        {
            out << v.kind;
            print_tree(out, tree_of(v));
        }
    }
    aug += " probes " + std::to_string(answers.size());
    for (const auto answer : answers)
    {
        aug += " " + std::to_string(answer);
    }
    return out.str();
}

// ---- a factory of our own: factory_t<vh_object_t> histories ----------------------------------------------------
//   fact hist <n> <fop>*n
//       add <'id> <default> <'descr>      factory.add<vh_object_t>(descr, id, default)   -> ok 0|1 / throw
//       has <'id> | size | desc <'id>     factory.has / size / description
//       get <'id>                         factory.get(id): null, or the object becomes a new variable
//       ids <any|lit|pre|suf|sub> <'s>    factory.ids(std::regex(...))
//       setp <v> <'name> <assignment>     an assignment to a parameter of a got object
//       clonev <v>                        the clone of a got object becomes a new variable
//   after every operation: the variables, and what get(id) hands out NOW for every registered id
class vh_object_t : public typed_t, public configurable_t, public clonable_t<vh_object_t>
{
public:
    vh_object_t(string_t id, const int64_t value)
        : typed_t(std::move(id))
    {
        register_parameter(parameter_t::make_integer("p", 0, LE, value, LE, 10));
    }

    std::unique_ptr<vh_object_t> clone() const override { return std::make_unique<vh_object_t>(*this); }
};

std::string regex_text(const std::string& kind, const std::string& frag)
{
    for (const auto c : frag)
    {
        if (!((c >= 'a' && c <= 'z') || (c >= '0' && c <= '9') || c == '-'))
        {
            throw bad_op("pattern fragments are made of [a-z0-9-]");
        }
    }
    if (kind == "any")
    {
        return ".+";
    }
    if (kind == "lit")
    {
        return frag;
    }
    if (kind == "pre")
    {
        return frag + ".*";
    }
    if (kind == "suf")
    {
        return ".*" + frag;
    }
    if (kind == "sub")
    {
        return ".*" + frag + ".*";
    }
    throw bad_op("unknown pattern kind " + kind);
}

std::string fact_hist(toks_t& toks)
{
    struct fop_t
    {
        std::string kind, id, text;
        int64_t     a = 0;
        op_t        op;
    };

    const auto         n = toks.i64();
    std::vector<fop_t> fops;
    for (int64_t k = 0; k < n; ++k)
    {
        fop_t o;
        o.kind = toks.s();
        if (o.kind == "add")
        {
            o.id   = dec(toks.s());
            o.a    = toks.i64();
            o.text = dec(toks.s());
        }
        else if (o.kind == "has" || o.kind == "desc" || o.kind == "get")
        {
            o.id = dec(toks.s());
        }
        else if (o.kind == "size")
        {
        }
        else if (o.kind == "ids")
        {
            o.id   = toks.s();
            o.text = regex_text(o.id, dec(toks.s()));
        }
        else if (o.kind == "setp")
        {
            o.a  = toks.i64();
            o.id = dec(toks.s());
            o.op = read_op(toks);
            if (o.op.kind != "si" && o.op.kind != "sf" && o.op.kind != "ss")
            {
                throw bad_op("setp takes si / sf / ss");
            }
        }
        else if (o.kind == "clonev")
        {
            o.a = toks.i64();
        }
        else
        {
            throw bad_op("unknown factory op " + o.kind);
        }
        fops.push_back(o);
    }
    if (!toks.done())
    {
        throw bad_op("trailing tokens");
    }

    factory_t<vh_object_t>                    factory;
    std::vector<std::unique_ptr<vh_object_t>> vars;
    const auto var = [&](const int64_t i) -> vh_object_t&
    {
        if (i < 0 || static_cast<size_t>(i) >= vars.size())
        {
            throw bad_op("no variable " + std::to_string(i));
        }
        return *vars[static_cast<size_t>(i)];
    };

    out_t out;
    out << "ok";
    for (const auto& o : fops)
    {
        std::string res;
        if (o.kind == "add")
        {
            res = guarded([&]() -> std::string
                          { return factory.add<vh_object_t>(o.text, o.id, o.a) ? "ok 1" : "ok 0"; });
        }
        else if (o.kind == "has")
        {
            res = factory.has(o.id) ? "ok 1" : "ok 0";
        }
        else if (o.kind == "size")
        {
            res = "ok " + std::to_string(factory.size());
        }
        else if (o.kind == "desc")
        {
            res = "ok " + enc(factory.description(o.id));
        }
        else if (o.kind == "get")
        {
            auto object = factory.get(o.id);
            if (!object)
            {
                res = "null";
            }
            else
            {
                res = "ok " + text_of(tree_of(*object));
                vars.push_back(std::move(object));
            }
        }
        else if (o.kind == "ids")
        {
            out_t r;
            r << "ok";
            const auto ids = o.id == "any" ? factory.ids() : factory.ids(std::regex(o.text));
            r << static_cast<long long>(ids.size());
            for (const auto& id : ids)
            {
                r << enc(id);
            }
            res = r.str();
        }
        else if (o.kind == "setp")
        {
            auto& object = var(o.a);
            res          = guarded([&]() -> std::string { return apply_op(object.parameter(o.id), o.op); });
        }
        else
        {
            auto copy = var(o.a).clone();
            res       = "ok " + text_of(tree_of(*copy));
            vars.push_back(std::move(copy));
        }
        out << ";" << res << "/" << static_cast<long long>(vars.size());
        for (const auto& v : vars)
        {
            print_tree(out, tree_of(*v));
        }
        const auto ids = factory.ids(std::regex(".*"));
        out << static_cast<long long>(ids.size());
        for (const auto& id : ids)
        {
            out << enc(id);
            print_tree(out, tree_of(*factory.get(id)));
        }
    }
    return out.str();
}
} // namespace

std::string vh::execute(toks_t& toks, std::string& aug)
{
    const auto fam = toks.s();
    const auto op  = toks.s();
    if ((fam == "param" || fam == "paramx") && op == "hist")
    {
        return param_hist(toks);
    }
    if (fam == "paramshow" && op == "hist")
    {
        return param_hist(toks, true);
    }
    if (fam == "config" && op == "hist")
    {
        return config_hist(toks);
    }
    if (fam == "owner" && op == "hist")
    {
        return owner_hist(toks, aug);
    }
    if (fam == "fact" && op == "hist")
    {
        return fact_hist(toks);
    }
    if (fam == "factory" && op == "idsre")
    {
        const auto f    = toks.s();
        const auto kind = toks.s();
        const auto text = regex_text(kind, dec(toks.s()));
        return with_factory(f,
                            [&](const auto& factory)
                            {
                                out_t out;
                                out << "ok";
                                const auto ids = factory.ids(std::regex(text));
                                out << static_cast<long long>(ids.size());
                                for (const auto& id : ids)
                                {
                                    out << enc(id);
                                }
                                return out.str();
                            });
    }
    if (fam == "factory" && op == "ids")
    {
        const auto f = toks.s();
        return with_factory(f,
                            [&](const auto& factory)
                            {
                                out_t out;
                                out << "ok";
                                const auto ids = factory.ids();
                                out << static_cast<long long>(ids.size());
                                for (const auto& id : ids)
                                {
                                    out << enc(id) << (factory.has(id) ? 1 : 0);
                                }
                                out << (factory.has("no-such-id") || factory.get("no-such-id") ? 1 : 0);
                                return out.str();
                            });
    }
    if (fam == "factory" && op == "walk")
    {
        const auto f    = toks.s();
        const auto id   = dec(toks.s());
        const auto mask = toks.i64();
        const auto ic   = toks.ints();
        const auto fc   = toks.fs();
        if (mask < 0)
        {
            throw bad_op("negative mask");
        }
        if (!toks.done())
        {
            // the line is being replayed with the augmentation: drop it
            if (toks.s() != "probe")
            {
                throw bad_op("trailing tokens");
            }
            toks.i64();
            const auto pos = aug.rfind(" probe ");
            aug            = aug.substr(0, pos);
        }
        int        applicable = -1;
        const auto res        = with_factory(
            f, [&](const auto& factory) { return walk(factory, id, static_cast<uint64_t>(mask), ic, fc, applicable); });
        aug += " probe " + std::to_string(applicable < 0 ? 0 : 1);
        return res;
    }
    if (fam == "factory" && op == "dump")
    {
        out_t out;
        out << "ok";
        for (const auto* fname : factory_names)
        {
            with_factory(fname,
                         [&](const auto& factory)
                         {
                             dump(out, fname, factory);
                             return std::string{};
                         });
        }
        out << ";" << "owner" << "params";
        print_tree(out, tree_of(ml::params_t{}));
        out << ";" << "owner" << "gboost";
        print_tree(out, tree_of(gboost_model_t{}));
        return out.str();
    }
    throw bad_op("unknown op " + fam + " " + op);
}

int main()
{
    return vh::main_loop();
}
