// C10 harness: fit / predict / split / scale / merge of the weak learners on a dataset built in memory from the op line.
// One self-contained op per line (the format is described in lean/NanoVerif/Driver/WLearner.lean):
//
//   wl <kind> <p1> <p2> <crit> <threads> <N> <T> <F> {feature}*F <grads N*T> <base N*T> <samples> <scalemode> <svals>
//      <sub samples> <K> {<samples>}*K
//
//   kind    affine | stump | hinge | dense | dstep | kbest | ksplit | dtree   (p1 p2 = max_depth min_split for dtree)
//   feature S <classes> l_1..l_N (-1 = missing) | M <classes> m_1..m_N (bit c = label c, -1 = missing) |
//           F v_1..v_N (16-hex doubles, `nan` = missing); the features must be grouped S*, M*, F* (generator order)
//   crit    0 rss, 1 aic, 2 aicc, 3 bic
//
// Result: see `print_*` below. Every learner is fitted by the model itself (lean/NanoVerif/Model/WLearner.lean,
// WLearnerTree.lean for the decision tree, WLearnerKTable.lean for the k-best / k-split tables); the augmented op only
// carries `epsilon1<scalar_t>()`.
#include "common.h"
#include <limits>
#include <nano/core/numeric.h>
#include <nano/dataset.h>
#include <nano/dataset/iterator.h>
#include <nano/generator/elemwise_identity.h>
#include <nano/wlearner/affine.h>
#include <nano/wlearner/criterion.h>
#include <nano/wlearner/dtree.h>
#include <nano/wlearner/hinge.h>
#include <nano/wlearner/stump.h>
#include <nano/wlearner/table.h>
#include <nano/wlearner/util.h>

using namespace nano;
using vh::bad_op;
using vh::out_t;
using vh::toks_t;

namespace
{
struct feat_t
{
    char                 kind{'F'};
    int64_t              classes{0};
    std::vector<int64_t> labels; // S: label or -1; M: bit mask or -1
    std::vector<double>  values; // F: value or NaN
};

struct spec_t
{
    std::string                       kind;
    int64_t                           p1{0}, p2{0}, crit{0}, threads{1}, N{0}, T{1};
    std::vector<feat_t>               feats;
    std::vector<double>               grads, base;
    std::vector<int64_t>              samples;
    int64_t                           scalemode{0};
    std::vector<double>               svals;
    std::vector<int64_t>              sub;
    std::vector<std::vector<int64_t>> extras;
};

std::vector<double> read_doubles(toks_t& toks, const int64_t n)
{
    std::vector<double> v;
    v.reserve(static_cast<size_t>(n));
    for (int64_t i = 0; i < n; ++i)
    {
        v.push_back(toks.f());
    }
    return v;
}

void check_samples(const std::vector<int64_t>& s, const int64_t N)
{
    for (const auto i : s)
    {
        if (i < 0 || i >= N)
        {
            throw bad_op("sample index");
        }
    }
}

spec_t read_spec(toks_t& toks)
{
    spec_t sp;
    sp.kind         = toks.s();
    sp.p1           = toks.i64();
    sp.p2           = toks.i64();
    sp.crit         = toks.i64();
    sp.threads      = toks.i64();
    sp.N            = toks.i64();
    sp.T            = toks.i64();
    const auto F    = toks.i64();
    if (sp.crit < 0 || sp.crit > 3 || sp.threads < 1 || sp.threads > 16 || sp.N < 1 || sp.N > 200 || sp.T < 1 || sp.T > 8 ||
        F < 1 || F > 32)
    {
        throw bad_op("sizes");
    }
    int order = 0;
    for (int64_t f = 0; f < F; ++f)
    {
        feat_t     ft;
        const auto k = toks.s();
        if (k == "S" || k == "M")
        {
            ft.kind    = k[0];
            ft.classes = toks.i64();
            if (ft.classes < 1 || ft.classes > 8)
            {
                throw bad_op("classes");
            }
            for (int64_t i = 0; i < sp.N; ++i)
            {
                const auto l = toks.i64();
                if (l < -1 || (k == "S" && l >= ft.classes) || (k == "M" && l >= (int64_t{1} << ft.classes)))
                {
                    throw bad_op("label");
                }
                ft.labels.push_back(l);
            }
        }
        else if (k == "F")
        {
            ft.kind   = 'F';
            ft.values = read_doubles(toks, sp.N);
        }
        else
        {
            throw bad_op("feature kind");
        }
        const int o = ft.kind == 'S' ? 0 : (ft.kind == 'M' ? 1 : 2);
        if (o < order)
        {
            throw bad_op("features must be grouped S* M* F*");
        }
        order = o;
        sp.feats.push_back(ft);
    }
    sp.grads   = read_doubles(toks, sp.N * sp.T);
    sp.base    = read_doubles(toks, sp.N * sp.T);
    sp.samples = toks.ints();
    check_samples(sp.samples, sp.N);
    sp.scalemode = toks.i64();
    sp.svals     = toks.fs();
    sp.sub       = toks.ints();
    check_samples(sp.sub, sp.N);
    const auto K = toks.i64();
    if (K < 0 || K > 8 || sp.samples.empty() || sp.svals.empty() || sp.scalemode < 0 || sp.scalemode > 1)
    {
        throw bad_op("arguments");
    }
    for (int64_t k = 0; k < K; ++k)
    {
        sp.extras.push_back(toks.ints());
        check_samples(sp.extras.back(), sp.N);
        if (sp.extras.back().empty())
        {
            throw bad_op("empty extra samples");
        }
    }
    for (const auto s : sp.svals)
    {
        if (!(s >= 0.0) || !std::isfinite(s))
        {
            throw bad_op("scale");
        }
    }
    for (const auto g : sp.grads)
    {
        if (!std::isfinite(g))
        {
            throw bad_op("gradient");
        }
    }
    if (!toks.done())
    {
        throw bad_op("trailing tokens");
    }
    return sp;
}

class ds_t final : public datasource_t
{
public:
    explicit ds_t(const spec_t& spec)
        : datasource_t("c10")
        , m_spec(spec)
    {
    }

    rdatasource_t clone() const override { return std::make_unique<ds_t>(*this); }

private:
    void do_load() override
    {
        features_t features;
        for (size_t i = 0; i < m_spec.feats.size(); ++i)
        {
            const auto& f    = m_spec.feats[i];
            const auto  name = "f" + std::to_string(i);
            switch (f.kind)
            {
            case 'S': features.push_back(feature_t{name}.sclass(static_cast<size_t>(f.classes))); break;
            case 'M': features.push_back(feature_t{name}.mclass(static_cast<size_t>(f.classes))); break;
            default: features.push_back(feature_t{name}.scalar(feature_type::float64)); break;
            }
        }
        features.push_back(feature_t{"target"}.scalar(feature_type::float64, make_dims(m_spec.T, 1, 1)));
        const auto itarget = features.size() - 1U;
        resize(m_spec.N, features, itarget);

        tensor1d_t zeros(m_spec.T);
        zeros.zero();
        for (tensor_size_t sample = 0; sample < m_spec.N; ++sample)
        {
            for (size_t i = 0; i < m_spec.feats.size(); ++i)
            {
                const auto& f = m_spec.feats[i];
                const auto  j = static_cast<tensor_size_t>(i);
                const auto  s = static_cast<size_t>(sample);
                switch (f.kind)
                {
                case 'S':
                    if (f.labels[s] >= 0)
                    {
                        set(sample, j, f.labels[s]);
                    }
                    break;
                case 'M':
                    if (f.labels[s] >= 0)
                    {
                        tensor_mem_t<int8_t, 1> hits(f.classes);
                        for (int64_t c = 0; c < f.classes; ++c)
                        {
                            hits(c) = static_cast<int8_t>((f.labels[s] >> c) & 1);
                        }
                        set(sample, j, hits);
                    }
                    break;
                default:
                    if (std::isfinite(f.values[s]))
                    {
                        set(sample, j, f.values[s]);
                    }
                    break;
                }
            }
            if (m_spec.T == 1)
            {
                set(sample, static_cast<tensor_size_t>(itarget), 0.0);
            }
            else
            {
                set(sample, static_cast<tensor_size_t>(itarget), zeros);
            }
        }
    }

    spec_t m_spec;
};

indices_t to_indices(const std::vector<int64_t>& v)
{
    indices_t idx(static_cast<tensor_size_t>(v.size()));
    for (size_t i = 0; i < v.size(); ++i)
    {
        idx(static_cast<tensor_size_t>(i)) = v[i];
    }
    return idx;
}

rwlearner_t make_wlearner(const spec_t& sp)
{
    rwlearner_t wl;
    if (sp.kind == "affine")
    {
        wl = std::make_unique<affine_wlearner_t>();
    }
    else if (sp.kind == "stump")
    {
        wl = std::make_unique<stump_wlearner_t>();
    }
    else if (sp.kind == "hinge")
    {
        wl = std::make_unique<hinge_wlearner_t>();
    }
    else if (sp.kind == "dense")
    {
        wl = std::make_unique<dense_table_wlearner_t>();
    }
    else if (sp.kind == "dstep")
    {
        wl = std::make_unique<dstep_table_wlearner_t>();
    }
    else if (sp.kind == "kbest")
    {
        wl = std::make_unique<kbest_table_wlearner_t>();
    }
    else if (sp.kind == "ksplit")
    {
        wl = std::make_unique<ksplit_table_wlearner_t>();
    }
    else if (sp.kind == "dtree")
    {
        wl                                          = std::make_unique<dtree_wlearner_t>();
        wl->parameter("wlearner::dtree::max_depth") = sp.p1;
        wl->parameter("wlearner::dtree::min_split") = sp.p2;
    }
    else
    {
        throw bad_op("kind " + sp.kind);
    }
    wl->parameter("wlearner::criterion") = static_cast<wlearner_criterion>(sp.crit);
    return wl;
}

const tensor4d_t& tables_of(const wlearner_t& wl)
{
    if (const auto* const p = dynamic_cast<const single_feature_wlearner_t*>(&wl); p != nullptr)
    {
        return p->tables();
    }
    if (const auto* const p = dynamic_cast<const dtree_wlearner_t*>(&wl); p != nullptr)
    {
        return p->tables();
    }
    throw bad_op("tables");
}

// the fitted parameters: `feat <n f..> thr <t> dir <d> hashes <n h..> h2t <n ..> nodes <n (f thr next table)..>
// tables <rows> <rows*T values>`
void print_params(out_t& out, const wlearner_t& wl)
{
    const auto features = wl.features();
    out << "feat";
    out.ilist(features);

    double  thr = 0.0;
    int64_t dir = -1;
    if (const auto* const p = dynamic_cast<const stump_wlearner_t*>(&wl); p != nullptr)
    {
        thr = p->threshold();
    }
    if (const auto* const p = dynamic_cast<const hinge_wlearner_t*>(&wl); p != nullptr)
    {
        thr = p->threshold();
        dir = p->hinge() == hinge_type::left ? 0 : 1;
    }
    out << "thr" << thr << "dir" << dir;

    out << "hashes";
    if (const auto* const p = dynamic_cast<const table_wlearner_t*>(&wl); p != nullptr)
    {
        out << p->hashes().size();
        for (const auto h : p->hashes())
        {
            out.raw(std::to_string(static_cast<unsigned long long>(h)));
        }
        out << "h2t";
        out.ilist(p->hash2tables());
    }
    else
    {
        out << 0 << "h2t" << 0;
    }

    out << "nodes";
    if (const auto* const p = dynamic_cast<const dtree_wlearner_t*>(&wl); p != nullptr)
    {
        out << p->nodes().size();
        for (const auto& node : p->nodes())
        {
            out << node.m_feature << node.m_threshold << node.m_next << node.m_table;
        }
    }
    else
    {
        out << 0;
    }

    const auto& tables = tables_of(wl);
    out << "tables" << tables.size<0>();
    for (tensor_size_t i = 0; i < tables.size(); ++i)
    {
        out << tables(i);
    }
}

void print_tensor(out_t& out, const tensor4d_t& t)
{
    for (tensor_size_t i = 0; i < t.size(); ++i)
    {
        out << t(i);
    }
}

tensor4d_t predict_zero(const wlearner_t& wl, const dataset_t& dataset, const indices_t& samples)
{
    return wl.predict(dataset, samples);
}

std::string op_wl(toks_t& toks, std::string& aug)
{
    const auto sp = read_spec(toks);

    auto datasource = ds_t{sp};
    datasource.load();
    auto dataset = dataset_t{datasource, static_cast<size_t>(sp.threads)};
    dataset.add<sclass_identity_generator_t>();
    dataset.add<mclass_identity_generator_t>();
    dataset.add<scalar_identity_generator_t>();

    // the generated features must be the features of the op line, in the same order
    if (dataset.features() != static_cast<tensor_size_t>(sp.feats.size()) || dataset.target_dims() != make_dims(sp.T, 1, 1) ||
        dataset.samples() != sp.N)
    {
        throw bad_op("dataset shape");
    }
    for (tensor_size_t f = 0; f < dataset.features(); ++f)
    {
        if (dataset.feature(f).name() != "f" + std::to_string(f))
        {
            throw bad_op("feature order");
        }
    }

    tensor4d_t gradients(cat_dims(sp.N, dataset.target_dims()));
    for (tensor_size_t i = 0; i < gradients.size(); ++i)
    {
        gradients(i) = sp.grads[static_cast<size_t>(i)];
    }
    const auto all       = arange(0, sp.N);
    const auto samples   = to_indices(sp.samples);
    const auto unmodeled = false; // every fit is modelled (lean/NanoVerif/Model/WLearner{,Tree,KTable}.lean)

    out_t out;
    out << "ok"
        << "fit";
    aug += " | " + vh::f2h(epsilon1<scalar_t>());

    auto       wl    = make_wlearner(sp);
    const auto score = wl->fit(dataset, samples, gradients);
    if (score == wlearner_t::no_fit_score())
    {
        out << "nofit";
        if (unmodeled)
        {
            aug += " | nofit";
        }
        return out.str();
    }
    out << score;
    {
        out_t params;
        print_params(params, *wl);
        out.raw(params.str());
        if (unmodeled)
        {
            aug += " | " + vh::f2h(score) + " " + params.str();
        }
    }

    // predictions are added to the given outputs
    {
        tensor4d_t outputs(cat_dims(sp.N, dataset.target_dims()));
        for (tensor_size_t i = 0; i < outputs.size(); ++i)
        {
            outputs(i) = sp.base[static_cast<size_t>(i)];
        }
        wl->predict(dataset, all, outputs.tensor());
        out << "pred";
        print_tensor(out, outputs);
    }

    // the groups
    {
        const auto cluster = wl->split(dataset, all);
        if (cluster.samples() != sp.N)
        {
            throw bad_op("cluster samples");
        }
        out << "groups" << cluster.groups() << "split";
        for (tensor_size_t i = 0; i < sp.N; ++i)
        {
            out << cluster.group(i);
        }
    }

    // predictions of another (permuted, repeated) list of samples, from zero
    {
        const auto sub = to_indices(sp.sub);
        out << "sub";
        if (sub.size() > 0)
        {
            print_tensor(out, predict_zero(*wl, dataset, sub));
        }
    }

    // scaling
    {
        auto       scaled = wl->clone();
        const auto rows   = tables_of(*wl).size<0>();
        const auto size   = sp.scalemode == 0 ? tensor_size_t{1} : std::max(tensor_size_t{1}, rows);
        vector_t   scale(size);
        for (tensor_size_t i = 0; i < size; ++i)
        {
            scale(i) = sp.svals[static_cast<size_t>(i) % sp.svals.size()];
        }
        scaled->scale(scale);
        out << "scaled";
        print_tensor(out, predict_zero(*scaled, dataset, all));
    }

    // more learners of the same kind fitted on other sample lists, then merged
    {
        rwlearners_t list;
        list.emplace_back(wl->clone());
        out << "extra" << sp.extras.size();
        for (const auto& extra : sp.extras)
        {
            auto       other  = make_wlearner(sp);
            const auto oscore = other->fit(dataset, to_indices(extra), gradients);
            if (oscore == wlearner_t::no_fit_score())
            {
                out << "nofit";
                if (unmodeled)
                {
                    aug += " | nofit";
                }
            }
            else
            {
                out << oscore;
                if (unmodeled)
                {
                    out_t params;
                    print_params(params, *other);
                    aug += " | " + vh::f2h(oscore) + " " + params.str();
                }
                list.emplace_back(std::move(other));
            }
        }

        tensor4d_t before(cat_dims(sp.N, dataset.target_dims()));
        before.zero();
        for (const auto& l : list)
        {
            l->predict(dataset, all, before.tensor());
        }
        ::nano::wlearner::merge(list);
        tensor4d_t after(cat_dims(sp.N, dataset.target_dims()));
        after.zero();
        for (const auto& l : list)
        {
            l->predict(dataset, all, after.tensor());
        }
        out << "merge" << list.size() << "before";
        print_tensor(out, before);
        out << "after";
        print_tensor(out, after);
        out << "mfeat";
        for (const auto& l : list)
        {
            out.ilist(l->features());
        }
    }

    // the root of a tree is the stump fitted on the same samples; a tree of depth 1 is that stump
    if (sp.kind == "dtree")
    {
        auto stump                             = stump_wlearner_t{};
        stump.parameter("wlearner::criterion") = static_cast<wlearner_criterion>(sp.crit);
        const auto sscore                      = stump.fit(dataset, samples, gradients);
        out << "stump1";
        if (sscore == wlearner_t::no_fit_score())
        {
            out << "nofit";
        }
        else
        {
            out << sscore << stump.feature() << stump.threshold() << stump.tables().size<0>();
            print_tensor(out, stump.tables());
        }
    }
    return out.str();
}
} // namespace

std::string vh::execute(toks_t& toks, std::string& aug)
{
    const auto fam = toks.s();
    if (fam != "wl")
    {
        throw bad_op("family");
    }
    return op_wl(toks, aug);
}

int main()
{
    return vh::main_loop();
}
