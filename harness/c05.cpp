// C05 harness: penalty / augmented-Lagrangian functions and the augmented-Lagrangian solver on the real libnano code.
//
//   pen eval <n> <obj> <ncons> <cons>… <x> <ro> <lambda> <miu>
//       builds the objective, registers the constraints with function_t::constrain, evaluates the three penalty
//       functions' vgrad (value + gradient, and the value-only call) at x and dumps f(x), grad f(x) and every
//       accepted constraint's is_equality / value / gradient / nano::valid at x.
//   al solve <n> <obj> <ncons> <cons>… <x0> <eps> <max_evals> <max_outers> <tau> <gamma> <miu_max> <lmin> <lmax>
//       runs solver_augmented_lagrangian_t with the trace hooks `augmented.outer`, `augmented.return`, `solver.done`
//       installed and reports every logged outer iteration, the returned state and the constraints recomputed
//       from the problem data.
//
//   ps solve <lin|quad> <n> <obj> <ncons> <cons>… <x0> <eps> <max_evals> <eta> <epsilon0> <epsilonK> <penalty0> <max_outers>
//       runs solver_linear_penalty_t / solver_quadratic_penalty_t with the trace hooks `penalty.outer`, `solver.done`
//       installed and reports every logged outer iteration (penalty parameter, decisions, bstate.x, the value the inner
//       solver reported), the returned state and the constraints recomputed from the problem data; the objective and the
//       constraints evaluated at every valid inner-solver answer are appended to the op for the model.
//
//   <obj>  = S <id> | Q <Q:list n*n> <c:list n> | QP <Q> <c> | LP <c>     (QP/LP go through nano::make_function(program))
//   <cons> = const|min|max <value> <dim> | balleq|ballin <origin:list> <radius> | lineq|linin <q:list> <r>
//          | quadeq|quadin <rows> <cols> <P:list> <q:list> <r> | feq|fin <F>
//   <F>    = Q <rows> <cols> <P:list> <q:list> <r> | N <size> <r> | S <id> <size> <r>
//   lists are `count v1 … vn`, doubles 16 hex digits.
#include "common.h"
#include <nano/function.h>
#include <nano/function/lambda.h>
#include <nano/function/penalty.h>
#include <nano/function/program.h>
#include <nano/solver/augmented.h>
#include <nano/solver/penalty.h>
#include <nano/verif.h>

using namespace nano;
using vh::bad_op;
using vh::out_t;
using vh::toks_t;

namespace
{
using dvec = std::vector<double>;

vector_t to_vector(const dvec& v)
{
    vector_t x(static_cast<tensor_size_t>(v.size()));
    for (size_t i = 0; i < v.size(); ++i)
    {
        x(static_cast<tensor_size_t>(i)) = v[i];
    }
    return x;
}

matrix_t to_matrix(const int64_t rows, const int64_t cols, const dvec& v)
{
    if (rows < 0 || cols < 0 || static_cast<size_t>(rows * cols) != v.size())
    {
        throw bad_op("matrix size");
    }
    matrix_t m(rows, cols);
    for (int64_t r = 0; r < rows; ++r)
    {
        for (int64_t c = 0; c < cols; ++c)
        {
            m(r, c) = v[static_cast<size_t>(r * cols + c)];
        }
    }
    return m;
}

dvec to_dvec(const vector_t& x)
{
    dvec v(static_cast<size_t>(x.size()));
    for (tensor_size_t i = 0; i < x.size(); ++i)
    {
        v[static_cast<size_t>(i)] = x(i);
    }
    return v;
}

// f(x) = 1/2 x.P.x + q.x + r as a function_t (used as objective with r = 0 and inside functional constraints)
rfunction_t make_quadratic_lambda(const matrix_t& P, const vector_t& q, const scalar_t r)
{
    const auto lambda = [P, q, r](vector_cmap_t x, vector_map_t gx) -> scalar_t
    {
        if (gx.size() == x.size())
        {
            gx = P * x.vector() + q.vector();
        }
        return 0.5 * x.vector().dot(P * x.vector()) + q.vector().dot(x.vector()) + r;
    };
    return make_function(q.size(), convexity::no, smoothness::yes, 0.0, lambda).clone();
}

// f(x) = sum |x_i| - r (non-smooth)
rfunction_t make_l1_lambda(const tensor_size_t size, const scalar_t r)
{
    const auto lambda = [r](vector_cmap_t x, vector_map_t gx) -> scalar_t
    {
        if (gx.size() == x.size())
        {
            gx.array() = x.array().sign();
        }
        return x.array().abs().sum() - r;
    };
    return make_function(size, convexity::yes, smoothness::no, 0.0, lambda).clone();
}

// f(x) = registered(x) - r
rfunction_t make_shifted_registered(const std::string& id, const tensor_size_t size, const scalar_t r)
{
    const auto proto = function_t::all().get(id);
    if (!proto || size < 1)
    {
        throw bad_op("unknown function " + id);
    }
    std::shared_ptr<function_t> inner = proto->make(size, 10);
    if (!inner || inner->size() != size)
    {
        throw bad_op("cannot make " + id);
    }
    const auto lambda = [inner, r](vector_cmap_t x, vector_map_t gx) -> scalar_t { return inner->vgrad(x, gx) - r; };
    return make_function(size, inner->convex() ? convexity::yes : convexity::no,
                         inner->smooth() ? smoothness::yes : smoothness::no, 0.0, lambda)
        .clone();
}

// f(x) = quadratic_penalty[c = 2](sphere constrained by x_0 <= 1/4)(x) - r: a functional whose evaluation itself evaluates a
// penalty function (nested evaluation in the same thread)
rfunction_t make_nested_penalty(const tensor_size_t size, const scalar_t r)
{
    const auto proto = function_t::all().get("sphere");
    if (!proto || size < 1)
    {
        throw bad_op("nested penalty");
    }
    std::shared_ptr<function_t> inner = proto->make(size, 10);
    if (!inner || inner->size() != size || !inner->constrain(constraint::maximum_t{0.25, 0}))
    {
        throw bad_op("nested penalty: cannot constrain");
    }
    auto penalty = std::make_shared<quadratic_penalty_function_t>(*inner);
    penalty->penalty(2.0);
    const auto lambda = [inner, penalty, r](vector_cmap_t x, vector_map_t gx) -> scalar_t { return penalty->vgrad(x, gx) - r; };
    return make_function(size, convexity::yes, smoothness::yes, 0.0, lambda).clone();
}

rfunction_t parse_functional(toks_t& toks)
{
    const auto kind = toks.s();
    if (kind == "P")
    {
        const auto size = toks.i64();
        const auto r    = toks.f();
        return make_nested_penalty(size, r);
    }
    if (kind == "Q")
    {
        const auto rows = toks.i64();
        const auto cols = toks.i64();
        const auto P    = toks.fs();
        const auto q    = toks.fs();
        const auto r    = toks.f();
        if (rows != cols || static_cast<size_t>(rows) != q.size())
        {
            throw bad_op("functional quadratic shape");
        }
        return make_quadratic_lambda(to_matrix(rows, cols, P), to_vector(q), r);
    }
    if (kind == "N")
    {
        const auto size = toks.i64();
        const auto r    = toks.f();
        return make_l1_lambda(size, r);
    }
    if (kind == "S")
    {
        const auto id   = toks.s();
        const auto size = toks.i64();
        const auto r    = toks.f();
        return make_shifted_registered(id, size, r);
    }
    throw bad_op("functional kind " + kind);
}

struct cons_spec_t
{
    std::string  m_kind;
    constraint_t m_constraint;
};

cons_spec_t parse_constraint(toks_t& toks)
{
    using namespace nano::constraint;
    cons_spec_t spec;
    spec.m_kind = toks.s();
    const auto& k = spec.m_kind;
    if (k == "const" || k == "min" || k == "max")
    {
        const auto value = toks.f();
        const auto dim   = toks.i64();
        if (k == "const")
        {
            spec.m_constraint = constant_t{value, dim};
        }
        else if (k == "min")
        {
            spec.m_constraint = minimum_t{{value, dim}};
        }
        else
        {
            spec.m_constraint = maximum_t{{value, dim}};
        }
    }
    else if (k == "balleq" || k == "ballin")
    {
        const auto origin = toks.fs();
        const auto radius = toks.f();
        if (k == "balleq")
        {
            spec.m_constraint = euclidean_ball_equality_t{{to_vector(origin), radius}};
        }
        else
        {
            spec.m_constraint = euclidean_ball_inequality_t{{to_vector(origin), radius}};
        }
    }
    else if (k == "lineq" || k == "linin")
    {
        const auto q = toks.fs();
        const auto r = toks.f();
        if (k == "lineq")
        {
            spec.m_constraint = linear_equality_t{{to_vector(q), r}};
        }
        else
        {
            spec.m_constraint = linear_inequality_t{{to_vector(q), r}};
        }
    }
    else if (k == "quadeq" || k == "quadin")
    {
        const auto rows = toks.i64();
        const auto cols = toks.i64();
        const auto P    = toks.fs();
        const auto q    = toks.fs();
        const auto r    = toks.f();
        if (k == "quadeq")
        {
            spec.m_constraint = quadratic_equality_t{{to_matrix(rows, cols, P), to_vector(q), r}};
        }
        else
        {
            spec.m_constraint = quadratic_inequality_t{{to_matrix(rows, cols, P), to_vector(q), r}};
        }
    }
    else if (k == "feq")
    {
        spec.m_constraint = functional_equality_t{parse_functional(toks)};
    }
    else if (k == "fin")
    {
        spec.m_constraint = functional_inequality_t{parse_functional(toks)};
    }
    else
    {
        throw bad_op("constraint kind " + k);
    }
    return spec;
}

// the constrained function of an op: the objects a program-based function refers to are kept alive here
struct problem_t
{
    int64_t                                      m_n{0};
    std::string                                  m_obj;
    std::vector<cons_spec_t>                     m_cons;
    std::vector<int>                             m_accepted;
    rfunction_t                                  m_function;
    std::unique_ptr<program::linear_program_t>    m_lp;
    std::unique_ptr<program::quadratic_program_t> m_qp;
};

void parse_problem(toks_t& toks, problem_t& p, const bool allow_functional)
{
    p.m_n = toks.i64();
    if (p.m_n < 1 || p.m_n > 64)
    {
        throw bad_op("dims");
    }
    p.m_obj = toks.s();
    dvec Q;
    dvec c;
    std::string id;
    if (p.m_obj == "S")
    {
        id = toks.s();
    }
    else if (p.m_obj == "Q" || p.m_obj == "QP")
    {
        Q = toks.fs();
        c = toks.fs();
        if (static_cast<int64_t>(c.size()) != p.m_n)
        {
            throw bad_op("objective size");
        }
    }
    else if (p.m_obj == "LP")
    {
        c = toks.fs();
        if (static_cast<int64_t>(c.size()) != p.m_n)
        {
            throw bad_op("objective size");
        }
    }
    else
    {
        throw bad_op("objective kind " + p.m_obj);
    }

    const auto ncons = toks.i64();
    for (int64_t i = 0; i < ncons; ++i)
    {
        p.m_cons.push_back(parse_constraint(toks));
        const auto& k = p.m_cons.back().m_kind;
        if (!allow_functional && (k == "feq" || k == "fin"))
        {
            throw bad_op("functional constraint not supported here");
        }
    }

    if (p.m_obj == "S" || p.m_obj == "Q")
    {
        if (p.m_obj == "S")
        {
            const auto proto = function_t::all().get(id);
            if (!proto)
            {
                throw bad_op("unknown function " + id);
            }
            p.m_function = proto->make(p.m_n, 10);
            if (!p.m_function || p.m_function->size() != p.m_n)
            {
                throw bad_op("cannot make " + id);
            }
        }
        else
        {
            p.m_function = make_quadratic_lambda(to_matrix(p.m_n, p.m_n, Q), to_vector(c), 0.0);
        }
        for (auto& spec : p.m_cons)
        {
            // NB: the harness keeps its own copy of the constraint
            p.m_accepted.push_back(p.m_function->constrain(constraint_t{spec.m_constraint}) ? 1 : 0);
        }
    }
    else
    {
        // linear/quadratic program: equalities A x = b (b = -r) first, then inequalities G x <= h (h = -r)
        std::vector<const constraint::linear_equality_t*>   eqs;
        std::vector<const constraint::linear_inequality_t*> ineqs;
        for (const auto& spec : p.m_cons)
        {
            if (const auto* eq = std::get_if<constraint::linear_equality_t>(&spec.m_constraint); eq != nullptr)
            {
                if (!ineqs.empty())
                {
                    throw bad_op("program: equalities first");
                }
                eqs.push_back(eq);
            }
            else if (const auto* in = std::get_if<constraint::linear_inequality_t>(&spec.m_constraint); in != nullptr)
            {
                ineqs.push_back(in);
            }
            else
            {
                throw bad_op("program: linear constraints only");
            }
        }
        const auto fill = [&](const auto& rows, matrix_t& A, vector_t& b)
        {
            A = matrix_t(static_cast<tensor_size_t>(rows.size()), p.m_n);
            b = vector_t(static_cast<tensor_size_t>(rows.size()));
            for (size_t i = 0; i < rows.size(); ++i)
            {
                if (rows[i]->m_q.size() != p.m_n)
                {
                    throw bad_op("program: row size");
                }
                for (tensor_size_t j = 0; j < p.m_n; ++j)
                {
                    A(static_cast<tensor_size_t>(i), j) = rows[i]->m_q(j);
                }
                b(static_cast<tensor_size_t>(i)) = -rows[i]->m_r;
            }
        };
        if (p.m_obj == "LP")
        {
            p.m_lp = std::make_unique<program::linear_program_t>(to_vector(c));
            fill(eqs, p.m_lp->m_eq.m_A, p.m_lp->m_eq.m_b);
            fill(ineqs, p.m_lp->m_ineq.m_A, p.m_lp->m_ineq.m_b);
            p.m_function = make_function(*p.m_lp);
        }
        else
        {
            p.m_qp = std::make_unique<program::quadratic_program_t>(to_matrix(p.m_n, p.m_n, Q), to_vector(c));
            fill(eqs, p.m_qp->m_eq.m_A, p.m_qp->m_eq.m_b);
            fill(ineqs, p.m_qp->m_ineq.m_A, p.m_qp->m_ineq.m_b);
            p.m_function = make_function(*p.m_qp);
        }
        p.m_accepted.assign(p.m_cons.size(), 1);
        if (p.m_function->constraints().size() != p.m_cons.size())
        {
            throw bad_op("program: constraint count");
        }
    }
}

// ---- pen eval -----------------------------------------------------------------------------------------------
std::string op_pen_eval(toks_t& toks, std::string& aug)
{
    problem_t p;
    parse_problem(toks, p, true);
    const auto xs     = toks.fs();
    const auto ro     = toks.f();
    const auto lambda = toks.fs();
    const auto miu    = toks.fs();
    if (!toks.done() || static_cast<int64_t>(xs.size()) != p.m_n)
    {
        throw bad_op("pen eval arguments");
    }
    const auto& function = *p.m_function;
    if (static_cast<tensor_size_t>(lambda.size()) != count_equalities(function) ||
        static_cast<tensor_size_t>(miu.size()) != count_inequalities(function))
    {
        throw bad_op("multiplier sizes (assert of augmented_lagrangian_function_t)");
    }

    const auto x = to_vector(xs);

    // the dump: objective and every accepted constraint at x
    out_t dump;
    {
        vector_t   gx(p.m_n);
        const auto fx = function.vgrad(x, gx);
        dump << fx;
        dump.flist(to_dvec(gx));
        dump << static_cast<long long>(function.constraints().size());
        for (const auto& constraint : function.constraints())
        {
            vector_t   gc(p.m_n);
            const auto fc = ::nano::vgrad(constraint, x, gc);
            dump << (is_equality(constraint) ? 1 : 0) << fc;
            dump.flist(to_dvec(gc));
            dump << ::nano::valid(constraint, x);
        }
    }
    aug += " | " + dump.str();

    out_t out;
    out << "ok";
    out.ilist(p.m_accepted);

    // every penalty object is evaluated "lived in": it was set up with another penalty parameter (and, for the augmented
    // Lagrangian, other multipliers, changed IN PLACE afterwards as the solver does) and evaluated before; the value printed is
    // that of the object itself unless its clone / copy answers differently, in which case the clone's answer is printed (a
    // clone must be the same function: seeded changes C05-d1 stale multipliers, C05-d3 clones forgetting the penalty)
    struct answer_t
    {
        scalar_t fx{0}, fx0{0};
        dvec     gx;

        bool same(const answer_t& o) const
        {
            const auto eq = [](const double a, const double b) { return (std::isnan(a) && std::isnan(b)) || a == b; };
            if (!eq(fx, o.fx) || !eq(fx0, o.fx0) || gx.size() != o.gx.size())
            {
                return false;
            }
            for (size_t i = 0; i < gx.size(); ++i)
            {
                if (!eq(gx[i], o.gx[i]))
                {
                    return false;
                }
            }
            return true;
        }
    };
    const auto eval1 = [&](const function_t& penalty)
    {
        answer_t   a;
        vector_t   gx(p.m_n);
        a.fx  = penalty.vgrad(x, gx);
        a.fx0 = penalty.vgrad(x);
        a.gx  = to_dvec(gx);
        return a;
    };
    const auto eval = [&](const function_t& penalty)
    {
        const auto direct = eval1(penalty);
        const auto cloned = eval1(*penalty.clone());
        const auto& a     = direct.same(cloned) ? direct : cloned;
        out << a.fx;
        out.flist(a.gx);
        out << a.fx0;
    };
    const auto other = 3.0 * ro + 1.0;
    {
        auto penalty = linear_penalty_function_t{function};
        penalty.penalty(other);
        eval1(penalty);
        penalty.penalty(ro);
        eval(penalty);
    }
    {
        auto penalty = quadratic_penalty_function_t{function};
        penalty.penalty(other);
        eval1(penalty);
        penalty.penalty(ro);
        eval(penalty);
    }
    {
        auto vlambda = to_vector(lambda);
        auto vmiu    = to_vector(miu);
        for (tensor_size_t i = 0; i < vlambda.size(); ++i)
        {
            vlambda(i) = 0.5 * vlambda(i) - 1.0;
        }
        for (tensor_size_t i = 0; i < vmiu.size(); ++i)
        {
            vmiu(i) = 0.5 * vmiu(i) + 1.0;
        }
        auto penalty = augmented_lagrangian_function_t{function, vlambda, vmiu};
        penalty.penalty(ro);
        eval1(penalty);
        // the multipliers are updated in place, the penalty parameter is not set again (augmented.cpp updates them between
        // two outer iterations; an evaluation in between must see the current vectors)
        for (tensor_size_t i = 0; i < vlambda.size(); ++i)
        {
            vlambda(i) = lambda[static_cast<size_t>(i)];
        }
        for (tensor_size_t i = 0; i < vmiu.size(); ++i)
        {
            vmiu(i) = miu[static_cast<size_t>(i)];
        }
        eval(penalty);
    }
    out << "~";
    out.raw(dump.str());
    return out.str();
}

// ---- al solve -----------------------------------------------------------------------------------------------
struct record_t
{
    std::string m_tag;
    dvec        m_values;
};

thread_local std::vector<record_t>* g_records = nullptr;

// true until the first `lsearch.begin` / `osga.iter` record after the start of the run or after an outer-loop record:
// that record shows the point the (next) inner solve was started at
thread_local bool g_want_start = false;

void sink(const char* tag, const double* values, const size_t count)
{
    if (g_records != nullptr)
    {
        const std::string t = tag;
        if (t == "augmented.outer" || t == "augmented.return" || t == "solver.done" || t == "penalty.outer")
        {
            g_records->push_back(record_t{t, dvec(values, values + count)});
            if (t == "penalty.outer" || t == "augmented.outer")
            {
                g_want_start = true;
            }
        }
        else if (g_want_start && (t == "lsearch.begin" || t == "osga.iter"))
        {
            g_records->push_back(record_t{t, dvec(values, values + count)});
            g_want_start = false;
        }
    }
}

struct reader_t
{
    const dvec& m_v;
    size_t      m_i{0};

    double scalar()
    {
        if (m_i >= m_v.size())
        {
            throw bad_op("trace record too short");
        }
        return m_v[m_i++];
    }

    dvec vec()
    {
        const auto n = static_cast<size_t>(scalar());
        dvec       v;
        for (size_t k = 0; k < n; ++k)
        {
            v.push_back(scalar());
        }
        return v;
    }
};

struct outer_t
{
    double outer, ro, epsilon, iter_ok, criterion, old_criterion, converged, xconv;
    dvec   lambda, miu, cx, cceq, ccineq, bx, bceq, bcineq;
    double bvalid{-1};
    bool   has_sx{false};  // the inner solver iterated at least once: sx = the point it started at
    dvec   sx;
    bool   has_cfx{false}; // the inner solver's last `solver.done` is at cstate.x(): cfx = the value it reports there
    double cfx{0};
};

// values of the constraints recomputed from the op's coefficients with plain loops (independent of constraint.cpp)
void recompute(const problem_t& p, const dvec& x, dvec& h, dvec& g)
{
    using namespace nano::constraint;
    const auto n   = static_cast<size_t>(p.m_n);
    const auto dot = [&](const vector_t& q)
    {
        long double s = 0;
        for (size_t i = 0; i < n; ++i)
        {
            s += static_cast<long double>(q(static_cast<tensor_size_t>(i))) * x[i];
        }
        return s;
    };
    for (size_t k = 0; k < p.m_cons.size(); ++k)
    {
        if (p.m_accepted[k] == 0)
        {
            continue;
        }
        const auto& ct = p.m_cons[k].m_constraint;
        const auto& kd = p.m_cons[k].m_kind;
        long double v  = 0;
        if (kd == "const")
        {
            const auto& c = std::get<constant_t>(ct);
            v             = static_cast<long double>(x[static_cast<size_t>(c.m_dimension)]) - c.m_value;
        }
        else if (kd == "min")
        {
            const auto& c = std::get<minimum_t>(ct);
            v             = static_cast<long double>(c.m_value) - x[static_cast<size_t>(c.m_dimension)];
        }
        else if (kd == "max")
        {
            const auto& c = std::get<maximum_t>(ct);
            v             = static_cast<long double>(x[static_cast<size_t>(c.m_dimension)]) - c.m_value;
        }
        else if (kd == "balleq" || kd == "ballin")
        {
            const euclidean_ball_t& c = (kd == "balleq") ? static_cast<const euclidean_ball_t&>(std::get<euclidean_ball_equality_t>(ct))
                                                         : static_cast<const euclidean_ball_t&>(std::get<euclidean_ball_inequality_t>(ct));
            for (size_t i = 0; i < n; ++i)
            {
                const long double d = static_cast<long double>(x[i]) - c.m_origin(static_cast<tensor_size_t>(i));
                v += d * d;
            }
            v -= static_cast<long double>(c.m_radius) * c.m_radius;
        }
        else if (kd == "lineq" || kd == "linin")
        {
            const linear_t& c = (kd == "lineq") ? static_cast<const linear_t&>(std::get<linear_equality_t>(ct))
                                                : static_cast<const linear_t&>(std::get<linear_inequality_t>(ct));
            v                 = dot(c.m_q) + c.m_r;
        }
        else if (kd == "quadeq" || kd == "quadin")
        {
            const quadratic_t& c = (kd == "quadeq") ? static_cast<const quadratic_t&>(std::get<quadratic_equality_t>(ct))
                                                    : static_cast<const quadratic_t&>(std::get<quadratic_inequality_t>(ct));
            long double        s = 0;
            for (size_t i = 0; i < n; ++i)
            {
                for (size_t j = 0; j < n; ++j)
                {
                    s += static_cast<long double>(x[i]) * c.m_P(static_cast<tensor_size_t>(i), static_cast<tensor_size_t>(j)) * x[j];
                }
            }
            v = 0.5L * s + dot(c.m_q) + c.m_r;
        }
        else
        {
            throw bad_op("recompute: functional");
        }
        (is_equality(ct) ? h : g).push_back(static_cast<double>(v));
    }
}

// `<valid> <gx> <k> (<is_eq> <gc>)*k`: what `update_constraints` reads when it accumulates m_lgx at the returned point
// (the objective's gradient stored in the state, every constraint's gradient from the same call it makes)
void dump_state_gradients(const function_t& function, const solver_state_t& state, out_t& out)
{
    out << (state.valid() ? 1 : 0);
    out.flist(to_dvec(state.gx()));
    out << static_cast<long long>(function.constraints().size());
    for (const auto& constraint : function.constraints())
    {
        vector_t gc(state.x().size());
        ::nano::vgrad(constraint, state.x(), gc);
        out << (is_equality(constraint) ? 1 : 0);
        out.flist(to_dvec(gc));
    }
}

// test3, test4, test5 of a state (they expose m_mineq, m_lgx, which have no accessor); `-` for an invalid state
void print_kkt345(const solver_state_t& state, out_t& out)
{
    if (state.valid())
    {
        out << state.kkt_optimality_test3() << state.kkt_optimality_test4() << state.kkt_optimality_test5();
    }
    else
    {
        out << "-" << "-" << "-";
    }
}

std::string op_al_solve(toks_t& toks, std::string& aug)
{
    problem_t p;
    parse_problem(toks, p, false);
    const auto x0s        = toks.fs();
    const auto eps        = toks.f();
    const auto max_evals  = toks.i64();
    const auto max_outers = toks.i64();
    const auto tau        = toks.f();
    const auto gamma      = toks.f();
    const auto miu_max    = toks.f();
    const auto lmin       = toks.f();
    const auto lmax       = toks.f();
    if (!toks.done() || static_cast<int64_t>(x0s.size()) != p.m_n)
    {
        throw bad_op("al solve arguments");
    }
    const auto& function = *p.m_function;
    const auto  x0       = to_vector(x0s);

    auto solver                                           = solver_augmented_lagrangian_t{};
    solver.parameter("solver::epsilon")                   = eps;
    solver.parameter("solver::max_evals")                 = max_evals;
    solver.parameter("solver::augmented::max_outer_iters") = max_outers;
    solver.parameter("solver::augmented::tau")            = tau;
    solver.parameter("solver::augmented::gamma")          = gamma;
    solver.parameter("solver::augmented::miu_max")        = miu_max;
    solver.parameter("solver::augmented::lambda")         = std::make_tuple(lmin, lmax);

    // f(x0), read before the run (the model's make_ro1 needs it)
    const auto fx0 = function.vgrad(x0);

    std::vector<record_t> records;
    g_records                    = &records;
    g_want_start                 = true;
    nano::verif::trace_sink()    = &sink;
    const auto          logger   = make_null_logger();
    solver_state_t      state;
    try
    {
        state = solver.minimize(function, x0, logger);
    }
    catch (...)
    {
        nano::verif::trace_sink() = nullptr;
        g_records                 = nullptr;
        throw;
    }
    nano::verif::trace_sink() = nullptr;
    g_records                 = nullptr;

    // split the log: every `augmented.outer` record is followed (after the best-state update) by the outer loop's
    // own `solver.done`; the inner solver's `solver.done` records all precede the `augmented.outer` of their iteration
    std::vector<outer_t> outers;
    dvec                 ret;
    bool                 pending = false;
    bool                 has_sx  = false;
    dvec                 sx;
    const dvec*          inner_done = nullptr;
    for (const auto& rec : records)
    {
        if (rec.m_tag == "lsearch.begin")
        {
            reader_t r{rec.m_values};
            sx     = r.vec();
            has_sx = true;
        }
        else if (rec.m_tag == "osga.iter")
        {
            reader_t r{rec.m_values};
            r.scalar();
            r.scalar();
            r.scalar();
            r.scalar();
            r.vec();
            r.vec();
            sx     = r.vec();
            has_sx = true;
        }
        else if (rec.m_tag == "solver.done" && !pending)
        {
            inner_done = &rec.m_values;
        }
        else if (rec.m_tag == "augmented.outer")
        {
            reader_t r{rec.m_values};
            outer_t  o;
            o.has_sx = has_sx;
            o.sx     = sx;
            has_sx   = false;
            o.outer         = r.scalar();
            o.ro            = r.scalar();
            o.epsilon       = r.scalar();
            o.iter_ok       = r.scalar();
            o.criterion     = r.scalar();
            o.old_criterion = r.scalar();
            o.converged     = r.scalar();
            o.xconv         = r.scalar();
            o.lambda        = r.vec();
            o.miu           = r.vec();
            o.cx            = r.vec();
            o.cceq          = r.vec();
            o.ccineq        = r.vec();
            o.bx            = r.vec();
            o.bceq          = r.vec();
            o.bcineq        = r.vec();
            if (inner_done != nullptr)
            {
                // iter_ok, converged, valid, fx, gradient test, fcalls, gcalls, x, gx
                reader_t d{*inner_done};
                d.scalar();
                d.scalar();
                d.scalar();
                const auto dfx = d.scalar();
                d.scalar();
                d.scalar();
                d.scalar();
                if (d.vec() == o.cx && std::isfinite(dfx))
                {
                    o.has_cfx = true;
                    o.cfx     = dfx;
                }
                inner_done = nullptr;
            }
            outers.push_back(o);
            pending = true;
        }
        else if (rec.m_tag == "solver.done" && pending)
        {
            auto& o = outers.back();
            if (rec.m_values.size() < 3 || rec.m_values[0] != o.iter_ok || rec.m_values[1] != o.converged)
            {
                throw bad_op("solver.done does not match augmented.outer");
            }
            o.bvalid = rec.m_values[2];
            pending  = false;
        }
        else if (rec.m_tag == "augmented.return")
        {
            ret = rec.m_values;
        }
    }
    if (pending || ret.empty() || outers.empty())
    {
        throw bad_op("incomplete trace");
    }
    reader_t   rr{ret};
    const auto rstatus = rr.scalar();
    const auto rx      = rr.vec();
    const auto rceq    = rr.vec();
    const auto rcineq  = rr.vec();
    const auto rfx     = rr.scalar();

    // the returned state must be what the hook saw
    if (static_cast<double>(state.status()) != rstatus || to_dvec(state.x()) != rx || to_dvec(state.ceq()) != rceq ||
        to_dvec(state.cineq()) != rcineq || !(state.fx() == rfx || (std::isnan(state.fx()) && std::isnan(rfx))))
    {
        throw bad_op("returned state differs from augmented.return");
    }

    // oracle answers for the model
    out_t a;
    a << "|" << fx0 << outers.front().ro;
    a.flist(outers.front().bceq);
    a.flist(outers.front().bcineq);
    a << static_cast<long long>(outers.size());
    for (const auto& o : outers)
    {
        a << static_cast<long long>(o.iter_ok) << static_cast<long long>(o.bvalid);
        a.flist(o.cx);
        a.flist(o.cceq);
        a.flist(o.ccineq);
        // the objective at the answer (the model rebuilds the augmented Lagrangian the inner solver was given from it)
        const auto with_obj = o.has_cfx && o.iter_ok != 0.0;
        a << (o.has_sx ? 1 : 0) << (with_obj ? 1 : 0);
        a << (with_obj ? function.vgrad(to_vector(o.cx)) : std::numeric_limits<double>::quiet_NaN());
    }
    dump_state_gradients(function, state, a);
    aug += " " + a.str();

    out_t out;
    out << "ok" << static_cast<long long>(rstatus) << static_cast<long long>(outers.size());
    for (const auto& o : outers)
    {
        out << static_cast<long long>(o.outer) << static_cast<long long>(o.iter_ok);
        if (o.iter_ok != 0.0)
        {
            out << o.criterion;
        }
        else
        {
            out << "-";
        }
        out << static_cast<long long>(o.converged) << static_cast<long long>(o.xconv) << o.ro;
        out.flist(o.lambda);
        out.flist(o.miu);
        out << o.old_criterion;
        out.flist(o.bx);
        out.flist(o.bceq);
        out.flist(o.bcineq);
        if (o.has_sx)
        {
            out.flist(o.sx);
        }
        else
        {
            out << "-";
        }
        if (o.has_cfx && o.iter_ok != 0.0)
        {
            out << o.cfx;
        }
        else
        {
            out << "-";
        }
    }
    out.flist(rx);
    out.flist(rceq);
    out.flist(rcineq);
    out << std::max(state.kkt_optimality_test1(), state.kkt_optimality_test2());
    print_kkt345(state, out);

    // tolerant section: numbers that involve Eigen reductions
    out << "~" << outers.front().ro;
    out.flist(outers.front().bceq);
    out.flist(outers.front().bcineq);
    out.flist(rceq);
    out.flist(rcineq);
    for (const auto& o : outers)
    {
        // the class invariant of solver_state_t on every state the inner solver returned
        if (o.iter_ok != 0.0)
        {
            out.flist(o.cceq);
            out.flist(o.ccineq);
        }
    }

    // for the property oracle only (not compared with the model)
    dvec h;
    dvec g;
    recompute(p, rx, h, g);
    out << "!" << eps << state.kkt_optimality_test1() << state.kkt_optimality_test2() << (state.valid() ? 1 : 0) << rfx;
    out.flist(h);
    out.flist(g);
    return out.str();
}
// ---- ps solve -----------------------------------------------------------------------------------------------
struct pouter_t
{
    double outer, penalty, epsilon, iter_ok, xconv, cfx;
    dvec   cx, bx;
    double bvalid{-1};
    double dconv{-1}; // the `converged` argument `done` was called with
    bool   has_sx{false}; // the inner solver iterated at least once: sx = the point it started at
    dvec   sx;
};

// `<k> (<is_eq> <fc>)*k`: every accepted constraint evaluated at x (the same call penalty_vgrad makes)
void dump_constraints(const function_t& function, const vector_t& x, out_t& out)
{
    out << static_cast<long long>(function.constraints().size());
    for (const auto& constraint : function.constraints())
    {
        vector_t   gc(x.size());
        const auto fc = ::nano::vgrad(constraint, x, gc);
        out << (is_equality(constraint) ? 1 : 0) << fc;
    }
}

std::string op_ps_solve(toks_t& toks, std::string& aug)
{
    const auto which = toks.s();
    if (which != "lin" && which != "quad")
    {
        throw bad_op("ps solve: lin or quad");
    }
    problem_t p;
    parse_problem(toks, p, true);
    const auto x0s        = toks.fs();
    const auto eps        = toks.f();
    const auto max_evals  = toks.i64();
    const auto eta        = toks.f();
    const auto epsilon0   = toks.f();
    const auto epsilonK   = toks.f();
    const auto penalty0   = toks.f();
    const auto max_outers = toks.i64();
    if (!toks.done() || static_cast<int64_t>(x0s.size()) != p.m_n)
    {
        throw bad_op("ps solve arguments");
    }
    const auto& function = *p.m_function;
    const auto  x0       = to_vector(x0s);

    rsolver_t solver;
    if (which == "lin")
    {
        solver = std::make_unique<solver_linear_penalty_t>();
    }
    else
    {
        solver = std::make_unique<solver_quadratic_penalty_t>();
    }
    solver->parameter("solver::epsilon")                  = eps;
    solver->parameter("solver::max_evals")                = max_evals;
    solver->parameter("solver::penalty::eta")             = eta;
    solver->parameter("solver::penalty::epsilon0")        = epsilon0;
    solver->parameter("solver::penalty::epsilonK")        = epsilonK;
    solver->parameter("solver::penalty::penalty0")        = penalty0;
    solver->parameter("solver::penalty::max_outer_iters") = max_outers;

    std::vector<record_t> records;
    g_records                  = &records;
    g_want_start               = true;
    nano::verif::trace_sink()  = &sink;
    const auto     logger      = make_null_logger();
    solver_state_t state;
    try
    {
        state = solver->minimize(function, x0, logger);
    }
    catch (...)
    {
        nano::verif::trace_sink() = nullptr;
        g_records                 = nullptr;
        throw;
    }
    nano::verif::trace_sink() = nullptr;
    g_records                 = nullptr;

    // split the log: a `penalty.outer` record with iter_ok is followed (after bstate.update) by the outer loop's own
    // `solver.done`; the inner solver's `solver.done` records all precede the `penalty.outer` of their iteration
    std::vector<pouter_t> outers;
    bool                  pending = false;
    bool                  has_sx  = false;
    dvec                  sx;
    for (const auto& rec : records)
    {
        if (rec.m_tag == "lsearch.begin")
        {
            // x, gx, fx, descent, last step size
            reader_t r{rec.m_values};
            sx     = r.vec();
            has_sx = true;
        }
        else if (rec.m_tag == "osga.iter")
        {
            // alpha, eta, gamma, fb, h, u, xb
            reader_t r{rec.m_values};
            r.scalar();
            r.scalar();
            r.scalar();
            r.scalar();
            r.vec();
            r.vec();
            sx     = r.vec();
            has_sx = true;
        }
        else if (rec.m_tag == "penalty.outer")
        {
            if (pending)
            {
                throw bad_op("penalty.outer without the solver.done of the previous iteration");
            }
            reader_t r{rec.m_values};
            pouter_t o;
            o.has_sx = has_sx;
            o.sx     = sx;
            has_sx   = false;
            o.outer   = r.scalar();
            o.penalty = r.scalar();
            o.epsilon = r.scalar();
            o.iter_ok = r.scalar();
            o.xconv   = r.scalar();
            o.cx      = r.vec();
            o.cfx     = r.scalar();
            o.bx      = r.vec();
            outers.push_back(o);
            pending = o.iter_ok != 0.0;
        }
        else if (rec.m_tag == "solver.done" && pending)
        {
            auto& o = outers.back();
            if (rec.m_values.size() < 3 || rec.m_values[0] != 1.0)
            {
                throw bad_op("solver.done does not match penalty.outer");
            }
            o.dconv  = rec.m_values[1];
            o.bvalid = rec.m_values[2];
            pending  = false;
        }
    }
    if (pending)
    {
        throw bad_op("incomplete trace");
    }

    // oracle answers for the model
    out_t a;
    a << "|";
    dump_constraints(function, x0, a);
    a << static_cast<long long>(outers.size());
    for (const auto& o : outers)
    {
        a << static_cast<long long>(o.iter_ok) << static_cast<long long>(o.iter_ok != 0.0 ? o.bvalid : 0.0);
        a << (o.has_sx ? 1 : 0);
        a.flist(o.cx);
        a << o.cfx;
        if (o.iter_ok != 0.0)
        {
            const auto cx = to_vector(o.cx);
            a << function.vgrad(cx);
            dump_constraints(function, cx, a);
        }
        else
        {
            a << std::numeric_limits<double>::quiet_NaN() << 0LL;
        }
    }
    dump_state_gradients(function, state, a);
    aug += " " + a.str();

    const auto rx     = to_dvec(state.x());
    const auto rceq   = to_dvec(state.ceq());
    const auto rcineq = to_dvec(state.cineq());

    out_t out;
    out << "ok" << static_cast<long long>(state.status()) << static_cast<long long>(outers.size());
    for (const auto& o : outers)
    {
        out << o.penalty << static_cast<long long>(o.iter_ok);
        if (o.iter_ok != 0.0)
        {
            out << static_cast<long long>(o.xconv) << static_cast<long long>(o.dconv);
        }
        else
        {
            out << "-" << "-";
        }
        out.flist(o.bx);
        if (o.has_sx)
        {
            out.flist(o.sx);
        }
        else
        {
            out << "-";
        }
        if (o.iter_ok != 0.0)
        {
            out << o.cfx;
        }
        else
        {
            out << "-";
        }
    }
    out.flist(rx);
    print_kkt345(state, out);

    // tolerant section: numbers that involve Eigen reductions
    out << "~";
    out.flist(rceq);
    out.flist(rcineq);
    out << state.kkt_optimality_test1() << state.kkt_optimality_test2();

    // for the property oracle only (not compared with the model)
    dvec h;
    dvec g;
    bool functional = false;
    for (size_t k = 0; k < p.m_cons.size(); ++k)
    {
        functional = functional || (p.m_accepted[k] != 0 && (p.m_cons[k].m_kind == "feq" || p.m_cons[k].m_kind == "fin"));
    }
    if (!functional)
    {
        recompute(p, rx, h, g);
    }
    out << "!" << eps << (state.valid() ? 1 : 0) << state.fx() << (functional ? 0 : 1);
    out.flist(h);
    out.flist(g);
    for (const auto& o : outers)
    {
        out << static_cast<long long>(o.outer) << o.epsilon << static_cast<long long>(o.xconv);
        out.flist(o.cx);
    }
    return out.str();
}
} // namespace

std::string vh::execute(toks_t& toks, std::string& aug)
{
    const auto fam = toks.s();
    const auto op  = toks.s();
    if (fam == "pen" && op == "eval")
    {
        return op_pen_eval(toks, aug);
    }
    if (fam == "al" && op == "solve")
    {
        return op_al_solve(toks, aug);
    }
    if (fam == "ps" && op == "solve")
    {
        return op_ps_solve(toks, aug);
    }
    throw bad_op("unknown op " + fam + " " + op);
}

int main()
{
    return vh::main_loop();
}
