// C14 harness: per-column statistics (make_flatten_stats / make_targets_stats / make_feature_stats and the ones held by
// flatten_iterator_t), scalar_stats_t::scale / upscale, nano::upscale(weights, bias) and linear::predict on a dataset
// built in memory from the op line. One self-contained op per line (the format is described in
// lean/NanoVerif/Driver/Scaling.lean).
#include "common.h"
#include <limits>
#include <nano/core/numeric.h>
#include <nano/dataset.h>
#include <nano/dataset/iterator.h>
#include <nano/dataset/hash.h>
#include <nano/dataset/stats.h>
#include <nano/generator/elemwise_identity.h>
#include <nano/linear/util.h>

using namespace nano;
using vh::bad_op;
using vh::out_t;
using vh::toks_t;

namespace
{
struct feat_t
{
    char    kind{'F'};
    int64_t size{1};
    int64_t d2{1}, d3{1}; // structured features / targets: dims (size, d2, d3)

    int64_t cols() const
    {
        switch (kind)
        {
        case 'S': return size - 1;
        case 'M': return size;
        case 'F': return 1;
        default: return size * d2 * d3;
        }
    }
};

struct spec_t
{
    std::vector<char>    group_kinds; // generator order
    std::vector<feat_t>  feats;       // input features in flatten-column order
    feat_t               target;
    int64_t              rows{0}, cols{0}, tcols{0};
    std::vector<double>  X, Y;
    std::vector<int64_t> samples;
};

char to_kind(const std::string& s)
{
    if (s.size() != 1 || std::string("SMFT").find(s[0]) == std::string::npos)
    {
        throw bad_op("kind " + s);
    }
    return s[0];
}

spec_t read_spec(toks_t& toks)
{
    spec_t     sp;
    const auto ngroups = toks.i64();
    for (int64_t g = 0; g < ngroups; ++g)
    {
        const auto kind = to_kind(toks.s());
        for (const auto k : sp.group_kinds)
        {
            if (k == kind)
            {
                throw bad_op("duplicated group");
            }
        }
        sp.group_kinds.push_back(kind);
        for (const auto size : toks.ints())
        {
            const auto f = feat_t{kind, size, 1, 1};
            if (f.cols() < 1)
            {
                throw bad_op("feature size");
            }
            sp.feats.push_back(f);
        }
    }
    sp.target.kind = to_kind(toks.s());
    sp.target.size = toks.i64();
    sp.rows        = toks.i64();
    sp.cols        = toks.i64();
    sp.X           = toks.fs();
    sp.tcols       = toks.i64();
    sp.Y           = toks.fs();
    sp.samples     = toks.ints();

    int64_t cols = 0;
    for (const auto& f : sp.feats)
    {
        cols += f.cols();
    }
    const auto tcols = (sp.target.kind == 'S') ? sp.target.size : sp.target.cols();
    if (cols != sp.cols || tcols != sp.tcols || sp.rows < 1 || sp.cols < 1 || sp.tcols < 1 ||
        static_cast<int64_t>(sp.X.size()) != sp.rows * sp.cols || static_cast<int64_t>(sp.Y.size()) != sp.rows * sp.tcols)
    {
        throw bad_op("sizes");
    }
    for (const auto s : sp.samples)
    {
        if (s < 0 || s >= sp.rows)
        {
            throw bad_op("sample index");
        }
    }
    return sp;
}

bool same_bits(const double a, const double b)
{
    return (std::isnan(a) && std::isnan(b)) || std::memcmp(&a, &b, sizeof(double)) == 0;
}

// in-memory data source whose flatten features / targets are the matrices of the op line
class ds_t final : public datasource_t
{
public:
    explicit ds_t(const spec_t& spec)
        : datasource_t("c14")
        , m_spec(spec)
    {
    }

    rdatasource_t clone() const override { return std::make_unique<ds_t>(*this); }

private:
    static feature_t make_feature(const feat_t& f, const std::string& name)
    {
        switch (f.kind)
        {
        case 'S': return feature_t{name}.sclass(static_cast<size_t>(f.size));
        case 'M': return feature_t{name}.mclass(static_cast<size_t>(f.size));
        case 'F': return feature_t{name}.scalar(feature_type::float64);
        default: return feature_t{name}.scalar(feature_type::float64, make_dims(f.size, f.d2, f.d3));
        }
    }

    template <bool is_target>
    void set_value(const tensor_size_t sample, const tensor_size_t ifeature, const feat_t& f, const double* v)
    {
        // number of matrix columns of this feature (a single-label target keeps all its one-hot columns)
        const auto n = (is_target && f.kind == 'S') ? f.size : f.cols();

        auto all_nan = true;
        for (int64_t i = 0; i < n; ++i)
        {
            all_nan = all_nan && std::isnan(v[i]);
        }
        if (all_nan && !(is_target && (f.kind == 'F' || f.kind == 'T')))
        {
            if (is_target)
            {
                throw bad_op("missing categorical target");
            }
            return; // missing feature value: not set
        }

        switch (f.kind)
        {
        case 'S':
        {
            int64_t label = is_target ? -1 : (f.size - 1);
            int64_t hits  = 0;
            for (int64_t i = 0; i < n; ++i)
            {
                if (v[i] == 1.0)
                {
                    label = i;
                    ++hits;
                }
                else if (v[i] != -1.0)
                {
                    throw bad_op("one-hot value");
                }
            }
            if (hits > 1 || label < 0)
            {
                throw bad_op("one-hot row");
            }
            set(sample, ifeature, label);
            break;
        }
        case 'M':
        {
            tensor_mem_t<int8_t, 1> hits(n);
            for (int64_t i = 0; i < n; ++i)
            {
                if (v[i] != 1.0 && v[i] != -1.0)
                {
                    throw bad_op("multi-label value");
                }
                hits(i) = static_cast<int8_t>(v[i] == 1.0 ? 1 : 0);
            }
            set(sample, ifeature, hits);
            break;
        }
        case 'F': set(sample, ifeature, v[0]); break;
        default:
        {
            tensor1d_t values(n);
            for (int64_t i = 0; i < n; ++i)
            {
                values(i) = v[i];
            }
            set(sample, ifeature, values);
            break;
        }
        }
    }

    void do_load() override
    {
        features_t features;
        for (size_t i = 0; i < m_spec.feats.size(); ++i)
        {
            features.push_back(make_feature(m_spec.feats[i], "f" + std::to_string(i)));
        }
        features.push_back(make_feature(m_spec.target, "target"));
        const auto itarget = features.size() - 1U;
        resize(m_spec.rows, features, itarget);

        for (tensor_size_t sample = 0; sample < m_spec.rows; ++sample)
        {
            int64_t column = 0;
            for (size_t i = 0; i < m_spec.feats.size(); ++i)
            {
                const auto& f = m_spec.feats[i];
                set_value<false>(sample, static_cast<tensor_size_t>(i), f, &m_spec.X[static_cast<size_t>(sample * m_spec.cols + column)]);
                column += f.cols();
            }
            set_value<true>(sample, static_cast<tensor_size_t>(itarget), m_spec.target,
                            &m_spec.Y[static_cast<size_t>(sample * m_spec.tcols)]);
        }
    }

    spec_t m_spec;
};

void add_generators(dataset_t& dataset, const spec_t& sp)
{
    for (const auto kind : sp.group_kinds)
    {
        switch (kind)
        {
        case 'S': dataset.add<sclass_identity_generator_t>(); break;
        case 'M': dataset.add<mclass_identity_generator_t>(); break;
        case 'F': dataset.add<scalar_identity_generator_t>(); break;
        default: dataset.add<struct_identity_generator_t>(); break;
        }
    }
}

indices_t to_indices(const std::vector<int64_t>& v)
{
    indices_t idx(static_cast<tensor_size_t>(v.size()));
    for (size_t i = 0; i < v.size(); ++i)
    {
        idx(static_cast<tensor_size_t>(i)) = v[i];
    }
    return idx;
}

scaling_type to_scaling(const int64_t m)
{
    if (m < 0 || m > 3)
    {
        throw bad_op("scaling");
    }
    return static_cast<scaling_type>(m);
}

void print_stats(out_t& out, const scalar_stats_t& st)
{
    out.ilist(st.m_samples);
    out.flist(st.m_min).flist(st.m_max).flist(st.m_mean).flist(st.m_stdev);
    out.flist(st.m_div_range).flist(st.m_mul_range).flist(st.m_div_stdev).flist(st.m_mul_stdev);
}

template <class ta, class tb>
bool same_tensor(const ta& a, const tb& b)
{
    if (a.size() != b.size())
    {
        return false;
    }
    for (tensor_size_t i = 0; i < a.size(); ++i)
    {
        if (!same_bits(static_cast<double>(a(i)), static_cast<double>(b(i))))
        {
            return false;
        }
    }
    return true;
}

bool same_stats(const scalar_stats_t& a, const scalar_stats_t& b)
{
    return same_tensor(a.m_samples, b.m_samples) && same_tensor(a.m_min, b.m_min) && same_tensor(a.m_max, b.m_max) &&
           same_tensor(a.m_mean, b.m_mean) && same_tensor(a.m_stdev, b.m_stdev) &&
           same_tensor(a.m_div_range, b.m_div_range) && same_tensor(a.m_mul_range, b.m_mul_range) &&
           same_tensor(a.m_div_stdev, b.m_div_stdev) && same_tensor(a.m_mul_stdev, b.m_mul_stdev);
}

struct world_t
{
    explicit world_t(const spec_t& sp, const size_t threads)
        : m_datasource(sp)
    {
        m_datasource.load();
        m_dataset = std::make_unique<dataset_t>(m_datasource, threads);
        add_generators(*m_dataset, sp);

        // the flatten features and targets the library produces must be the matrices of the op line, bit for bit
        const auto all = arange(0, sp.rows);
        if (m_dataset->columns() != sp.cols)
        {
            throw bad_op("columns");
        }
        tensor2d_t fbuffer;
        m_X = m_dataset->flatten(all, fbuffer);
        tensor4d_t tbuffer;
        m_Y = m_dataset->targets(all, tbuffer);
        if (m_X.size() != static_cast<tensor_size_t>(sp.X.size()) || m_Y.size() != static_cast<tensor_size_t>(sp.Y.size()))
        {
            throw bad_op("flatten size");
        }
        for (tensor_size_t i = 0; i < m_X.size(); ++i)
        {
            if (!same_bits(m_X(i), sp.X[static_cast<size_t>(i)]))
            {
                throw bad_op("flatten mismatch");
            }
        }
        for (tensor_size_t i = 0; i < m_Y.size(); ++i)
        {
            if (!same_bits(m_Y(i), sp.Y[static_cast<size_t>(i)]))
            {
                throw bad_op("targets mismatch");
            }
        }
    }

    ds_t                       m_datasource;
    std::unique_ptr<dataset_t> m_dataset;
    tensor2d_t                 m_X;
    tensor4d_t                 m_Y;
};

// the statistics and the scaled values seen through flatten_iterator_t (what linear models are trained on) must be
// bit-identical to the direct calls
bool check_iterator(const dataset_t& dataset, const indices_t& samples, const tensor_size_t batch,
                    const scaling_type scaling, const scalar_stats_t& fstats, const scalar_stats_t& tstats,
                    const tensor2d_t& X, const tensor4d_t& Y, const bool cached)
{
    auto it = flatten_iterator_t{dataset, samples};
    it.batch(batch);
    it.scaling(scaling);
    if (cached)
    {
        it.cache_flatten(std::numeric_limits<tensor_size_t>::max());
        it.cache_targets(std::numeric_limits<tensor_size_t>::max());
    }
    if (!same_stats(it.flatten_stats(), fstats) || !same_stats(it.targets_stats(), tstats))
    {
        return false;
    }

    // expected: the selected rows scaled by the direct calls
    tensor2d_t eX(samples.size(), X.size<1>());
    tensor4d_t eY(samples.size(), Y.size<1>(), Y.size<2>(), Y.size<3>());
    for (tensor_size_t i = 0; i < samples.size(); ++i)
    {
        eX.vector(i) = X.vector(samples(i));
        eY.vector(i) = Y.vector(samples(i));
    }
    if (samples.size() > 0)
    {
        fstats.scale(scaling, eX.tensor());
        tstats.scale(scaling, eY.tensor());
    }

    tensor2d_t gX(samples.size(), X.size<1>());
    tensor4d_t gY(samples.size(), Y.size<1>(), Y.size<2>(), Y.size<3>());
    gX.full(-12345.0);
    gY.full(-12345.0);
    it.loop(
        [&](const tensor_range_t range, size_t, tensor2d_cmap_t inputs, tensor4d_cmap_t targets)
        {
            gX.slice(range) = inputs;
            gY.slice(range) = targets;
        });
    return same_tensor(eX, gX) && same_tensor(eY, gY);
}

std::string op_run(toks_t& toks, std::string& aug)
{
    const auto threads = toks.i64();
    const auto batch   = toks.i64();
    const auto xmode   = to_scaling(toks.i64());
    const auto tmode   = to_scaling(toks.i64());
    const auto sp      = read_spec(toks);
    const auto w       = toks.fs();
    const auto b       = toks.fs();
    if (!toks.done() || threads < 1 || threads > 8 || batch < 1 || static_cast<int64_t>(w.size()) != sp.tcols * sp.cols ||
        static_cast<int64_t>(b.size()) != sp.tcols)
    {
        throw bad_op("run arguments");
    }

    const auto world   = world_t{sp, static_cast<size_t>(threads)};
    const auto& dataset = *world.m_dataset;
    const auto samples = to_indices(sp.samples);

    const auto fstats = scalar_stats_t::make_flatten_stats(dataset, samples, batch);
    const auto tstats = scalar_stats_t::make_targets_stats(dataset, samples, batch);

    // scale / upscale every row (the rows outside `samples` are unseen data)
    tensor2d_t SX = world.m_X;
    fstats.scale(xmode, SX.tensor());
    tensor2d_t UX = SX;
    fstats.upscale(xmode, UX.tensor());

    tensor4d_t SY = world.m_Y;
    tstats.scale(tmode, SY.tensor());
    tensor4d_t UY = SY;
    tstats.upscale(tmode, UY.tensor());

    // predictions of the original model on the scaled inputs (fixed summation order: the model's `dot`), up-scaled
    tensor2d_t W(sp.tcols, sp.cols);
    tensor1d_t B(sp.tcols);
    for (tensor_size_t i = 0; i < W.size(); ++i)
    {
        W(i) = w[static_cast<size_t>(i)];
    }
    for (tensor_size_t i = 0; i < B.size(); ++i)
    {
        B(i) = b[static_cast<size_t>(i)];
    }
    tensor2d_t PS(sp.rows, sp.tcols);
    for (tensor_size_t r = 0; r < sp.rows; ++r)
    {
        for (tensor_size_t o = 0; o < sp.tcols; ++o)
        {
            double acc = 0.0;
            for (tensor_size_t j = sp.cols; j-- > 0;)
            {
                acc = W(o, j) * SX(r, j) + acc;
            }
            PS(r, o) = acc + B(o);
        }
    }
    tensor2d_t PU = PS;
    tstats.upscale(tmode, PU.tensor());

    // the converted model and its predictions on the raw inputs (missing values -> 0 as linear_t::do_predict does)
    tensor2d_t W2 = W;
    tensor1d_t B2 = B;
    ::nano::upscale(fstats, xmode, tstats, tmode, W2.tensor(), B2.tensor());

    tensor2d_t RX = world.m_X;
    fstats.scale(scaling_type::none, RX.tensor());
    tensor4d_t PR(sp.rows, sp.tcols, 1, 1);
    ::nano::linear::predict(RX, W2, B2, PR.tensor());

    auto iter_ok = true;
    iter_ok      = iter_ok && check_iterator(dataset, samples, batch, xmode, fstats, tstats, world.m_X, world.m_Y, false);
    iter_ok      = iter_ok && check_iterator(dataset, samples, batch, xmode, fstats, tstats, world.m_X, world.m_Y, true);

    out_t extra;
    extra << epsilon2<scalar_t>() << std::numeric_limits<scalar_t>::max() << std::numeric_limits<scalar_t>::lowest();
    aug += " " + extra.str();

    out_t out;
    out << "ok" << (iter_ok ? 1 : 0);
    print_stats(out, fstats);
    print_stats(out, tstats);
    out.flist(SX).flist(UX).flist(SY).flist(UY).flist(PS).flist(PU).flist(W2).flist(B2).flist(PR);
    return out.str();
}

std::string op_feature(toks_t& toks, std::string& aug)
{
    const auto threads  = toks.i64();
    const auto batch    = toks.i64();
    const auto ifeature = toks.i64();
    const auto sp       = read_spec(toks);
    if (!toks.done() || threads < 1 || threads > 8 || batch < 1 || ifeature < 0 ||
        ifeature >= static_cast<int64_t>(sp.feats.size()))
    {
        throw bad_op("feature arguments");
    }

    out_t extra;
    extra << epsilon2<scalar_t>() << std::numeric_limits<scalar_t>::max() << std::numeric_limits<scalar_t>::lowest();
    aug += " " + extra.str();

    const auto world   = world_t{sp, static_cast<size_t>(threads)};
    const auto samples = to_indices(sp.samples);
    const auto stats   = scalar_stats_t::make_feature_stats(*world.m_dataset, samples, ifeature, batch);

    out_t out;
    out << "ok";
    print_stats(out, stats);
    return out.str();
}

// structured (4-D) targets and features: one struct feature and a struct target, both with dims (d1, d2, d3) and the same
// values; statistics through make_targets_stats / make_feature_stats, scale / upscale through the tensor4d overloads; the
// scaled values are read back element by element with four indices
std::string op_t4(toks_t& toks, std::string& aug)
{
    const auto batch = toks.i64();
    const auto tmode = to_scaling(toks.i64());
    const auto d1    = toks.i64();
    const auto d2    = toks.i64();
    const auto d3    = toks.i64();
    const auto rows  = toks.i64();
    const auto y     = toks.fs();
    const auto sel   = toks.ints();
    if (!toks.done() || batch < 1 || d1 < 1 || d2 < 1 || d3 < 1 || rows < 1 || d1 * d2 * d3 > 64 ||
        static_cast<int64_t>(y.size()) != rows * d1 * d2 * d3)
    {
        throw bad_op("t4 arguments");
    }

    spec_t sp;
    // dims (1, 1, 1) make a scalar feature (served by the scalar generator, 1-D path of make_feature_stats)
    const auto scalar = d1 * d2 * d3 == 1;
    sp.group_kinds = {scalar ? 'F' : 'T'};
    sp.feats       = {scalar ? feat_t{'F', 1, 1, 1} : feat_t{'T', d1, d2, d3}};
    sp.target      = feat_t{'T', d1, d2, d3};
    sp.rows        = rows;
    sp.cols        = d1 * d2 * d3;
    sp.tcols       = sp.cols;
    sp.X           = y;
    sp.Y           = y;
    sp.samples     = sel;
    for (const auto s : sp.samples)
    {
        if (s < 0 || s >= sp.rows)
        {
            throw bad_op("sample index");
        }
    }

    out_t extra;
    extra << epsilon2<scalar_t>() << std::numeric_limits<scalar_t>::max() << std::numeric_limits<scalar_t>::lowest();
    aug += " " + extra.str();

    const auto  world   = world_t{sp, 1U};
    const auto& dataset = *world.m_dataset;
    const auto  samples = to_indices(sp.samples);

    const auto tstats = scalar_stats_t::make_targets_stats(dataset, samples, batch);
    const auto fstats = scalar_stats_t::make_feature_stats(dataset, samples, 0, batch);

    const auto tdims = dataset.target_dims();

    tensor4d_t SY = world.m_Y;
    tstats.scale(tmode, SY.tensor());
    tensor4d_t UY = SY;
    tstats.upscale(tmode, UY.tensor());

    // the structured feature selected as a 4-D tensor and scaled with its own statistics (same values: same answer expected)
    tensor4d_t fbuffer;
    const auto all = arange(0, sp.rows);
    tensor4d_t SF(sp.rows, d1, d2, d3);
    if (scalar)
    {
        tensor1d_t sbuffer;
        const auto values = dataset.select(all, 0, sbuffer);
        for (tensor_size_t i = 0; i < sp.rows; ++i)
        {
            SF(i) = values(i);
        }
    }
    else
    {
        SF = dataset.select(all, 0, fbuffer);
    }
    fstats.scale(tmode, SF.tensor());

    out_t out;
    out << "ok" << static_cast<int64_t>(std::get<0>(tdims)) << static_cast<int64_t>(std::get<1>(tdims))
        << static_cast<int64_t>(std::get<2>(tdims));
    print_stats(out, tstats);
    print_stats(out, fstats);
    std::vector<double> sy, uy, sf;
    for (tensor_size_t s = 0; s < SY.size<0>(); ++s)
    {
        for (tensor_size_t i = 0; i < SY.size<1>(); ++i)
        {
            for (tensor_size_t j = 0; j < SY.size<2>(); ++j)
            {
                for (tensor_size_t k = 0; k < SY.size<3>(); ++k)
                {
                    sy.push_back(SY(s, i, j, k));
                    uy.push_back(UY(s, i, j, k));
                    sf.push_back(SF(s, i, j, k));
                }
            }
        }
    }
    out.flist(sy).flist(uy).flist(sf);
    return out.str();
}

// class statistics (xclass_stats_t) of a single-label / multi-label feature, optionally also used as the target
//   scaling xclass <kind S|M> <classes> <astarget 0|1> <rows> <labels> <samples>
//   <labels>: S: one label per row (-1 = missing); M: rows*classes indicators 0/1, a row starting with -1 is missing
std::string op_xclass(toks_t& toks, std::string& aug)
{
    const auto kind     = to_kind(toks.s());
    const auto classes  = toks.i64();
    const auto astarget = toks.i64();
    const auto rows     = toks.i64();
    const auto labels   = toks.ints();
    const auto sel      = toks.ints();
    const auto per      = (kind == 'S') ? int64_t{1} : classes;
    if (!toks.done() || (kind != 'S' && kind != 'M') || classes < (kind == 'S' ? 2 : 1) || classes > 8 || rows < 1 ||
        (astarget != 0 && astarget != 1) || static_cast<int64_t>(labels.size()) != rows * per)
    {
        throw bad_op("xclass arguments");
    }

    spec_t sp;
    const auto f   = feat_t{kind, classes, 1, 1};
    sp.group_kinds = {kind, 'F'};
    sp.feats       = {f, feat_t{'F', 1, 1, 1}};
    sp.target      = astarget != 0 ? f : feat_t{'F', 1, 1, 1};
    sp.rows        = rows;
    sp.cols        = f.cols() + 1;
    sp.tcols       = astarget != 0 ? classes : 1;
    sp.samples     = sel;
    const auto nan = std::numeric_limits<double>::quiet_NaN();
    for (int64_t r = 0; r < rows; ++r)
    {
        const auto* l       = &labels[static_cast<size_t>(r * per)];
        const auto  missing = l[0] < 0;
        if (missing && astarget != 0)
        {
            throw bad_op("missing categorical target");
        }
        for (int64_t c = 0; c < f.cols(); ++c)
        {
            const auto hit = (kind == 'S') ? (l[0] == c) : (l[c] == 1);
            if (kind == 'S' ? (l[0] >= classes) : (!missing && l[c] != 0 && l[c] != 1))
            {
                throw bad_op("label");
            }
            sp.X.push_back(missing ? nan : (hit ? 1.0 : -1.0));
        }
        sp.X.push_back(static_cast<double>(r)); // the scalar feature
        if (astarget != 0)
        {
            for (int64_t c = 0; c < classes; ++c)
            {
                const auto hit = (kind == 'S') ? (l[0] == c) : (l[c] == 1);
                sp.Y.push_back(hit ? 1.0 : -1.0);
            }
        }
        else
        {
            sp.Y.push_back(0.5);
        }
    }
    for (const auto s : sp.samples)
    {
        if (s < 0 || s >= sp.rows)
        {
            throw bad_op("sample index");
        }
    }

    const auto  world   = world_t{sp, 1U};
    const auto& dataset = *world.m_dataset;
    const auto  samples = to_indices(sp.samples);

    // the oracle answers the model needs: (present, hash) of every selected sample
    out_t extra;
    extra << static_cast<int64_t>(samples.size());
    if (kind == 'S')
    {
        sclass_mem_t buffer;
        const auto   values = dataset.select(samples, 0, buffer);
        for (tensor_size_t i = 0; i < values.size(); ++i)
        {
            extra << (values(i) >= 0 ? 1 : 0);
            extra.raw(std::to_string(::nano::hash(values(i))));
        }
    }
    else
    {
        mclass_mem_t buffer;
        const auto   values = dataset.select(samples, 0, buffer);
        for (tensor_size_t i = 0; i < values.size<0>(); ++i)
        {
            extra << (values(i, 0) >= 0 ? 1 : 0);
            extra.raw(std::to_string(::nano::hash(values.array(i))));
        }
    }
    aug += " " + extra.str();

    const auto print = [](out_t& out, const xclass_stats_t& st)
    {
        out << static_cast<int64_t>(st.m_class_hashes.size());
        for (const auto h : st.m_class_hashes)
        {
            out.raw(std::to_string(h));
        }
        out.ilist(st.m_class_samples).ilist(st.m_sample_classes).flist(st.m_sample_weights);
    };

    out_t out;
    out << "ok";
    print(out, xclass_stats_t::make_feature_stats(dataset, samples, 0));
    out << astarget;
    if (astarget != 0)
    {
        print(out, xclass_stats_t::make_targets_stats(dataset, samples));
    }
    // a continuous feature (and a continuous target) must be refused
    auto refused = 0;
    try
    {
        xclass_stats_t::make_feature_stats(dataset, samples, 1);
    }
    catch (const std::runtime_error&)
    {
        ++refused;
    }
    if (astarget == 0)
    {
        try
        {
            xclass_stats_t::make_targets_stats(dataset, samples);
        }
        catch (const std::runtime_error&)
        {
            ++refused;
        }
    }
    else
    {
        ++refused;
    }
    out << refused;
    return out.str();
}
} // namespace

std::string vh::execute(toks_t& toks, std::string& aug)
{
    const auto fam = toks.s();
    if (fam != "scaling")
    {
        throw bad_op("family");
    }
    const auto op = toks.s();
    if (op == "run")
    {
        return op_run(toks, aug);
    }
    if (op == "feature")
    {
        return op_feature(toks, aug);
    }
    if (op == "t4")
    {
        return op_t4(toks, aug);
    }
    if (op == "xclass")
    {
        return op_xclass(toks, aug);
    }
    throw bad_op("unknown op " + op);
}

int main()
{
    return vh::main_loop();
}
