// C02 harness: runs any of the 35 registered solvers or the 3 constrained ones on the function of the op line with the
// trace hooks installed and the user function wrapped by an independent counting/logging wrapper (harness/c01_common.h).
//
//   R ok <status> <units> <fevals> <gevals> <fcalls> <gcalls> <x> <fx> <gx> <fr> <gr> <f0> <|g0|inf> <monitor checked> <monitor bad>
//        <max units of one inner solve> <smooth> <convex> <line-search solver> <constraints> <traced>
//        M <status> <x> <fx> <gx> U <n> {best value before the k-th update_if_better} D <m> {<converged> <fx>}
//   A <op line> | <class: ls|nm|skip> <family> <eps> <max_evals> <patience> <value-test solver> <update_if_better solver>
//        I <x0> <f0> <g0> E <events> { U <fx> <x> <gx> | L <ok> <x> <gx> <fx> | D <iter_ok> <converged> <fcalls> <gcalls> <x> <fx> <gx> }
// The part after `M` is what the Lean model recomputes from the oracle answers of the A line.
#include "c01_common.h"
#include <nano/core/numeric.h>

using namespace vs;

namespace
{
constexpr size_t max_doubles = 60000; // per A line

void put_vec(out_t& out, const double* v, size_t n)
{
    out << static_cast<long long>(n);
    for (size_t i = 0; i < n; ++i)
    {
        out << v[i];
    }
}

bool is_in(const std::string& s, std::initializer_list<const char*> set)
{
    for (const auto* e : set)
    {
        if (s == e)
        {
            return true;
        }
    }
    return false;
}

// family `solvernm`: the solvers whose iteration body is in the Lean model (Model/SolverNM.lean).
//   A <op line> | <sid> <n> <eps> <max_evals> PF <scalar parameters> PI <integer parameters> <smooth> <strong convexity> <epsilon0>
//        X <x0> N <count> { <with gradient> <x> <f(x)> <g(x)> }   -- the wrapper's log of ALL evaluations, in call order
//        H <count> { <alpha> <eta> <gamma> <fb> <h> <u> <xb> }    -- osga's private variables per iteration (optional hook osga.iter)
//   R … M <status> <x> <fx> <gx> <fcalls> <gcalls> Q <n> {<x>} U <n> {<fx> <best before> <x>} D <n> {<iter_ok> <converged> <fcalls> <gcalls> <fx>}
// the model gets the answers f, g by position only and recomputes every point, candidate and decision.
std::string execute_nm(const vs::run_t& r, std::string& aug, out_t& res)
{
    const auto  n      = static_cast<size_t>(r.problem.plain->size());
    const auto& solver = *r.solver;
    const auto& st     = r.state;

    std::vector<double>    pf;
    std::vector<long long> pi;
    const auto F = [&](const char* name) { pf.push_back(solver.parameter(name).value<scalar_t>()); };
    const auto I = [&](const char* name) { pi.push_back(solver.parameter(name).value<tensor_size_t>()); };
    if (r.sid == "sgm")
    {
        F("solver::sgm::power");
        I("solver::sgm::patience");
    }
    else if (r.sid == "cocob")
    {
        F("solver::cocob::L0-smooth");
        F("solver::cocob::L0-nonsmooth");
        I("solver::cocob::patience");
    }
    else if (r.sid == "sda" || r.sid == "wda")
    {
        F("solver::pdsgm::D");
        I("solver::pdsgm::patience");
    }
    else if (r.sid == "pgm" || r.sid == "dgm" || r.sid == "fgm")
    {
        F("solver::universal::L0");
        I("solver::universal::patience");
        I("solver::universal::lsearch_max_iters");
    }
    else if (r.sid == "asga2" || r.sid == "asga4")
    {
        F("solver::asga::L0");
        F("solver::asga::gamma1");
        F("solver::asga::gamma2");
        I("solver::asga::patience");
        I("solver::asga::lsearch_max_iters");
    }
    else if (r.sid == "osga")
    {
        F("solver::osga::lambda");
        F("solver::osga::alpha_max");
        const auto kappas = solver.parameter("solver::osga::kappas").value_pair<scalar_t>();
        pf.push_back(std::get<0>(kappas));
        pf.push_back(std::get<1>(kappas));
        I("solver::osga::patience");
    }
    else
    {
        throw bad_op("solvernm: the body of this solver is not modelled");
    }

    res << st.fcalls() << st.gcalls();
    const auto& evs = r.log->evs;
    size_t      doubles = 0;
    for (const auto& e : evs)
    {
        doubles += 2 * n + 4;
        (void)e;
    }
    const bool traced = doubles <= max_doubles && !evs.empty();

    res << "Q" << static_cast<long long>(evs.empty() ? 0 : evs.size() - 1);
    for (size_t i = 1; i < evs.size(); ++i)
    {
        put_vec(res, evs[i].x.data(), n);
    }
    out_t us, ds;
    long long nU = 0, nD = 0;
    for (const auto& rec : r.records)
    {
        const auto& v = rec.v;
        if (rec.tag == "state.update_if_better")
        {
            // fx, m_fx, x, gx
            us << v[0] << v[1];
            put_vec(us, &v[3], n);
            ++nU;
        }
        else if (rec.tag == "solver.done")
        {
            // iter_ok, converged, valid, fx, gradient test, fcalls, gcalls, x, gx
            ds << static_cast<long long>(v[0]) << static_cast<long long>(v[1]) << static_cast<long long>(v[5])
               << static_cast<long long>(v[6]) << v[3];
            ++nD;
        }
    }
    res << "U" << nU;
    if (nU > 0)
    {
        res << us.str();
    }
    res << "D" << nD;
    if (nD > 0)
    {
        res << ds.str();
    }
    if (!traced)
    {
        return res.str(); // the A line stays the op line: no model run
    }

    out_t a;
    a << aug << "|" << r.sid << static_cast<long long>(n) << solver.parameter("solver::epsilon").value<scalar_t>()
      << static_cast<long long>(solver.parameter("solver::max_evals").value<tensor_size_t>());
    a << "PF" << static_cast<long long>(pf.size());
    for (const auto v : pf)
    {
        a << v;
    }
    a << "PI" << static_cast<long long>(pi.size());
    for (const auto v : pi)
    {
        a << v;
    }
    a << (r.problem.smooth ? 1 : 0) << r.problem.plain->strong_convexity() << nano::epsilon0<scalar_t>();
    a << "X";
    put_vec(a, r.x0.data(), n);
    a << "N" << static_cast<long long>(evs.size());
    for (const auto& e : evs)
    {
        a << (e.has_g ? 1 : 0);
        put_vec(a, e.x.data(), n);
        a << e.f;
        put_vec(a, e.g.data(), e.g.size());
    }
    // optional hook `osga.iter` (hooks/C02-osga-iter.patch): the private variables at the top of every iteration
    // alpha, eta, gamma, fb, h, u, xb — lets the model be re-synchronised per iteration
    long long nH = 0;
    out_t     hs;
    for (const auto& rec : r.records)
    {
        if (rec.tag == "osga.iter" && rec.v.size() == 4 + 3 * (n + 1))
        {
            hs << rec.v[0] << rec.v[1] << rec.v[2] << rec.v[3];
            put_vec(hs, &rec.v[5], n);
            put_vec(hs, &rec.v[5 + n + 1], n);
            put_vec(hs, &rec.v[5 + 2 * (n + 1)], n);
            ++nH;
        }
    }
    a << "H" << nH;
    if (nH > 0)
    {
        a << hs.str();
    }
    aug = a.str();
    return res.str();
}
} // namespace

std::string vh::execute(toks_t& t, std::string& aug)
{
    const auto fam = t.s();
    const auto op  = t.s();
    if (fam == "solver2" && op == "list")
    {
        return vs::list_functions();
    }
    if ((fam != "solver2" && fam != "solvernm") || op != "run")
    {
        throw bad_op("unknown op");
    }
    const auto  nmfam  = fam == "solvernm";
    auto        r      = vs::run(t);
    const auto  n      = static_cast<size_t>(r.problem.plain->size());
    const auto& solver = *r.solver;
    const auto& st     = r.state;
    const auto  ls     = solver.type() == solver_type::line_search;
    const auto  cons   = solver.type() == solver_type::constrained;

    const auto eps       = solver.parameter("solver::epsilon").value<scalar_t>();
    const auto max_evals = solver.parameter("solver::max_evals").value<tensor_size_t>();
    long long  patience  = 0;
    for (const auto* name : {"solver::sgm::patience", "solver::cocob::patience", "solver::asga::patience",
                             "solver::pdsgm::patience", "solver::universal::patience", "solver::osga::patience"})
    {
        if (has_param(solver, name))
        {
            patience = solver.parameter(name).value<tensor_size_t>();
        }
    }
    const auto vt_family = is_in(r.sid, {"sgm", "cocob", "asga2", "asga4", "sda", "wda", "pgm", "dgm", "fgm"});
    const auto ub_family =
        vt_family || is_in(r.sid, {"osga", "ellipsoid", "fpba1", "fpba2"}); // the state only moves through update_if_better
    std::string family = "gd";
    if (r.sid.rfind("cgd-", 0) == 0)
    {
        family = "cgd";
    }
    else if (r.sid == "lbfgs")
    {
        family = "lbfgs";
    }
    else if (is_in(r.sid, {"dfp", "sr1", "bfgs", "hoshino", "fletcher"}))
    {
        family = "quasi";
    }

    // evaluations of one inner solve (constrained solvers): between two consecutive outer records
    long max_inner = r.log->units;
    if (cons)
    {
        max_inner = 0;
        long last = 0;
        for (const auto& rec : r.records)
        {
            if (rec.tag == "penalty.outer" || rec.tag == "augmented.outer")
            {
                max_inner = std::max(max_inner, rec.units - last);
                last      = rec.units;
            }
        }
        max_inner = std::max(max_inner, r.log->units - last);
    }

    // events
    size_t doubles = 0;
    size_t nU = 0, nD = 0, nL = 0;
    for (const auto& rec : r.records)
    {
        if (rec.tag == "state.update_if_better" || rec.tag == "solver.done" || rec.tag == "lsearch.end")
        {
            doubles += rec.v.size();
            nU += rec.tag == "state.update_if_better";
            nD += rec.tag == "solver.done";
            nL += rec.tag == "lsearch.end";
        }
    }
    const bool traced = !cons && doubles <= max_doubles && (!ls || nD == nL + 1);

    double g0norm = 0.0;
    for (const auto v : r.g0)
    {
        g0norm = std::max(g0norm, std::fabs(v));
    }

    out_t res;
    res << "ok" << static_cast<long long>(st.status()) << r.log->units << r.log->fevals << r.log->gevals << st.fcalls()
        << st.gcalls();
    put_vec(res, st.x().data(), static_cast<size_t>(st.x().size()));
    res << st.fx();
    put_vec(res, st.gx().data(), static_cast<size_t>(st.gx().size()));
    res << r.fr;
    put_vec(res, r.gr.data(), r.gr.size());
    res << r.f0 << g0norm << r.monitor_checked << r.monitor_bad << max_inner << (r.problem.smooth ? 1 : 0)
        << (r.problem.convex ? 1 : 0) << (ls ? 1 : 0) << r.problem.constraints << (traced ? 1 : 0);
    res << "M" << static_cast<long long>(st.status());
    put_vec(res, st.x().data(), static_cast<size_t>(st.x().size()));
    res << st.fx();
    put_vec(res, st.gx().data(), static_cast<size_t>(st.gx().size()));

    if (nmfam)
    {
        return execute_nm(r, aug, res);
    }

    if (!traced)
    {
        res << "U" << 0 << "D" << 0;
        return res.str(); // the A line stays the op line: no model run
    }

    out_t a;
    a << aug << "|" << (ls ? "ls" : "nm") << family << eps << static_cast<long long>(max_evals) << patience
      << (vt_family ? 1 : 0) << (ub_family ? 1 : 0);
    a << "I";
    put_vec(a, r.x0.data(), n);
    a << r.f0;
    put_vec(a, r.g0.data(), n);
    a << "E" << static_cast<long long>(nU + nD + nL);

    out_t us, ds;
    for (const auto& rec : r.records)
    {
        const auto& v = rec.v;
        if (rec.tag == "state.update_if_better")
        {
            // fx, m_fx, x, gx
            a << "U" << v[0];
            put_vec(a, &v[3], n);
            put_vec(a, &v[3 + n + 1], n);
            us << v[1];
        }
        else if (rec.tag == "lsearch.end")
        {
            // t0, ok, t, x, gx, fx
            a << "L" << static_cast<long long>(v[1]);
            put_vec(a, &v[4], n);
            put_vec(a, &v[4 + n + 1], n);
            a << v[4 + 2 * (n + 1) - 1];
        }
        else if (rec.tag == "solver.done")
        {
            // iter_ok, converged, valid, fx, gradient test, fcalls, gcalls, x, gx
            a << "D" << static_cast<long long>(v[0]) << static_cast<long long>(v[1]) << static_cast<long long>(v[5])
              << static_cast<long long>(v[6]);
            put_vec(a, &v[8], n);
            a << v[3];
            put_vec(a, &v[8 + n + 1], n);
            ds << static_cast<long long>(v[1]) << v[3];
        }
    }
    a << "F" << r.log->fevals << r.log->gevals;
    res << "U" << static_cast<long long>(nU);
    if (nU > 0)
    {
        res << us.str();
    }
    res << "D" << static_cast<long long>(nD);
    if (nD > 0)
    {
        res << ds.str();
    }
    aug = a.str();
    return res.str();
}

int main()
{
    return vh::main_loop();
}
