// C02 harness: runs any of the 35 registered solvers or the 3 constrained ones on the function of the op line with the
// trace hooks installed and the user function wrapped by an independent counting/logging wrapper (harness/c01_common.h).
//
//   R ok <status> <units> <fevals> <gevals> <fcalls> <gcalls> <x> <fx> <gx> <fr> <gr> <f0> <|g0|inf> <monitor checked> <monitor bad>
//        <max units of one inner solve> <smooth> <convex> <line-search solver> <constraints> <traced>
//        M <status> <x> <fx> <gx> U <n> {best value before the k-th update_if_better} D <m> {<converged> <fx>}
//   A <op line> | <class: ls|nm|skip> <family> <eps> <max_evals> <patience> <value-test solver> <update_if_better solver>
//        I <x0> <f0> <g0> E <events> { U <fx> <x> <gx> | L <ok> <x> <gx> <fx> | D <iter_ok> <converged> <fcalls> <gcalls> <x> <fx> <gx> }
// The part after `M` is what the Lean model recomputes from the oracle answers of the A line.
#include "c01_common.h"

using namespace vs;

namespace
{
constexpr size_t max_doubles = 60000; // per A line

void put_vec(out_t& out, const double* v, size_t n)
{
    out << static_cast<long long>(n);
    for (size_t i = 0; i < n; ++i)
    {
        out << v[i];
    }
}

bool is_in(const std::string& s, std::initializer_list<const char*> set)
{
    for (const auto* e : set)
    {
        if (s == e)
        {
            return true;
        }
    }
    return false;
}
} // namespace

std::string vh::execute(toks_t& t, std::string& aug)
{
    const auto fam = t.s();
    const auto op  = t.s();
    if (fam == "solver2" && op == "list")
    {
        return vs::list_functions();
    }
    if (fam != "solver2" || op != "run")
    {
        throw bad_op("unknown op");
    }
    auto        r      = vs::run(t);
    const auto  n      = static_cast<size_t>(r.problem.plain->size());
    const auto& solver = *r.solver;
    const auto& st     = r.state;
    const auto  ls     = solver.type() == solver_type::line_search;
    const auto  cons   = solver.type() == solver_type::constrained;

    const auto eps       = solver.parameter("solver::epsilon").value<scalar_t>();
    const auto max_evals = solver.parameter("solver::max_evals").value<tensor_size_t>();
    long long  patience  = 0;
    for (const auto* name : {"solver::sgm::patience", "solver::cocob::patience", "solver::asga::patience",
                             "solver::pdsgm::patience", "solver::universal::patience", "solver::osga::patience"})
    {
        if (has_param(solver, name))
        {
            patience = solver.parameter(name).value<tensor_size_t>();
        }
    }
    const auto vt_family = is_in(r.sid, {"sgm", "cocob", "asga2", "asga4", "sda", "wda", "pgm", "dgm", "fgm"});
    const auto ub_family =
        vt_family || is_in(r.sid, {"osga", "ellipsoid", "fpba1", "fpba2"}); // the state only moves through update_if_better
    std::string family = "gd";
    if (r.sid.rfind("cgd-", 0) == 0)
    {
        family = "cgd";
    }
    else if (r.sid == "lbfgs")
    {
        family = "lbfgs";
    }
    else if (is_in(r.sid, {"dfp", "sr1", "bfgs", "hoshino", "fletcher"}))
    {
        family = "quasi";
    }

    // evaluations of one inner solve (constrained solvers): between two consecutive outer records
    long max_inner = r.log->units;
    if (cons)
    {
        max_inner = 0;
        long last = 0;
        for (const auto& rec : r.records)
        {
            if (rec.tag == "penalty.outer" || rec.tag == "augmented.outer")
            {
                max_inner = std::max(max_inner, rec.units - last);
                last      = rec.units;
            }
        }
        max_inner = std::max(max_inner, r.log->units - last);
    }

    // events
    size_t doubles = 0;
    size_t nU = 0, nD = 0, nL = 0;
    for (const auto& rec : r.records)
    {
        if (rec.tag == "state.update_if_better" || rec.tag == "solver.done" || rec.tag == "lsearch.end")
        {
            doubles += rec.v.size();
            nU += rec.tag == "state.update_if_better";
            nD += rec.tag == "solver.done";
            nL += rec.tag == "lsearch.end";
        }
    }
    const bool traced = !cons && doubles <= max_doubles && (!ls || nD == nL + 1);

    double g0norm = 0.0;
    for (const auto v : r.g0)
    {
        g0norm = std::max(g0norm, std::fabs(v));
    }

    out_t res;
    res << "ok" << static_cast<long long>(st.status()) << r.log->units << r.log->fevals << r.log->gevals << st.fcalls()
        << st.gcalls();
    put_vec(res, st.x().data(), static_cast<size_t>(st.x().size()));
    res << st.fx();
    put_vec(res, st.gx().data(), static_cast<size_t>(st.gx().size()));
    res << r.fr;
    put_vec(res, r.gr.data(), r.gr.size());
    res << r.f0 << g0norm << r.monitor_checked << r.monitor_bad << max_inner << (r.problem.smooth ? 1 : 0)
        << (r.problem.convex ? 1 : 0) << (ls ? 1 : 0) << r.problem.constraints << (traced ? 1 : 0);
    res << "M" << static_cast<long long>(st.status());
    put_vec(res, st.x().data(), static_cast<size_t>(st.x().size()));
    res << st.fx();
    put_vec(res, st.gx().data(), static_cast<size_t>(st.gx().size()));

    if (!traced)
    {
        res << "U" << 0 << "D" << 0;
        return res.str(); // the A line stays the op line: no model run
    }

    out_t a;
    a << aug << "|" << (ls ? "ls" : "nm") << family << eps << static_cast<long long>(max_evals) << patience
      << (vt_family ? 1 : 0) << (ub_family ? 1 : 0);
    a << "I";
    put_vec(a, r.x0.data(), n);
    a << r.f0;
    put_vec(a, r.g0.data(), n);
    a << "E" << static_cast<long long>(nU + nD + nL);

    out_t us, ds;
    for (const auto& rec : r.records)
    {
        const auto& v = rec.v;
        if (rec.tag == "state.update_if_better")
        {
            // fx, m_fx, x, gx
            a << "U" << v[0];
            put_vec(a, &v[3], n);
            put_vec(a, &v[3 + n + 1], n);
            us << v[1];
        }
        else if (rec.tag == "lsearch.end")
        {
            // t0, ok, t, x, gx, fx
            a << "L" << static_cast<long long>(v[1]);
            put_vec(a, &v[4], n);
            put_vec(a, &v[4 + n + 1], n);
            a << v[4 + 2 * (n + 1) - 1];
        }
        else if (rec.tag == "solver.done")
        {
            // iter_ok, converged, valid, fx, gradient test, fcalls, gcalls, x, gx
            a << "D" << static_cast<long long>(v[0]) << static_cast<long long>(v[1]) << static_cast<long long>(v[5])
              << static_cast<long long>(v[6]);
            put_vec(a, &v[8], n);
            a << v[3];
            put_vec(a, &v[8 + n + 1], n);
            ds << static_cast<long long>(v[1]) << v[3];
        }
    }
    a << "F" << r.log->fevals << r.log->gevals;
    res << "U" << static_cast<long long>(nU);
    if (nU > 0)
    {
        res << us.str();
    }
    res << "D" << static_cast<long long>(nD);
    if (nD > 0)
    {
        res << ds.str();
    }
    aug = a.str();
    return res.str();
}

int main()
{
    return vh::main_loop();
}
