// C13 harness: the tuner utilities (`local_search`, `evaluate`), both tuners (`tuner_t::optimize`) and `ml::tune` on the
// real libnano code. One self-contained op per line (family `tuner`):
//
//   tuner lsearch  <min igrid> <max igrid> <src igrid> <radius>
//   tuner evaluate <spaces> <landscape> <steps: n {igrid value}> <igrids: k {igrid}>
//   tuner run      <local-search|surrogate> <max_evals> <spaces> <landscape>
//   tuner tune     <local-search|surrogate> <max_evals> <folds> <seed> <offset> <nsamples> <spaces> <gen>
//   tuner space    <type> <n v1 … vn> <k q1 … qk>          param_space_t: constructor guards, then per query value
//                                                          to_surrogate / from_surrogate / closest_grid_point / _value
//   tuner sfit     <n> <d> <n*d p…> <n y…> <m x…>          quadratic_surrogate_fit_t{mse, p, y}.vgrad(x, gx)
//   tuner squad    <m model…> <d x…>                       quadratic_surrogate_t{model}.vgrad(x, gx)
//
// `run surrogate` additionally hands over the final state of every L-BFGS run of the tuner (hook `solver.done`:
// fit and minimisation of the surrogate, alternating) — the ORACLE of the model (`Tuner.Solver`) — together with the
// number of steps evaluated when the run ended and the solver's epsilon; the result line repeats the value and the
// gradient the implementation reported at these points (compared with the model's evaluation of the same functions).
//
//   igrid     = d i1 … id                            spaces = d {type(0 log10, 1 linear) n v1 … vn}
//   landscape = lin d a1 … ad n T1 … Tn              value(g) = T[(sum a_i g_i) mod n]
//             | sep d {n t1 … tn}                    value(g) = (t_1[g_1] + t_2[g_2]) + t_3[g_3]
//   gen       = A B C D E n T1 … Tn                  entry(grid point gi, fold f, split s, kind k, sample id) =
//                                                    T[(A gi + B f + C s + D k + E id) mod n]   (per-sample errors/losses)
//
// The augmented op handed to the Lean model appends what the implementation was observed to do (the grid points of every
// callback batch and the first returned step; for `tune` also the splitter's folds and the statistics `store_stats`
// computes for the tensors of each (grid point, fold)): the model uses them only to resolve what the C++ standard leaves
// open (order of equal values after std::sort) or what is not modelled (the surrogate's proposed centre, the percentiles).
#include "common.h"
#include <algorithm>
#include <any>
#include <cstdlib>
#include <filesystem>
#include <mutex>
#include <nano/core/parallel.h>
#include <nano/machine/params.h>
#include <nano/machine/result.h>
#include <nano/machine/stats.h>
#include <nano/machine/tune.h>
#include <nano/splitter.h>
#include <nano/loss.h>
#include <nano/solver.h>
#include <nano/tuner.h>
#include <nano/tuner/surrogate.h>
#include <nano/verif.h>
#include <nano/tuner/util.h>
#include <unistd.h>

using namespace nano;
using vh::bad_op;
using vh::out_t;
using vh::toks_t;

namespace
{
using ivec = std::vector<int64_t>;
using fvec = std::vector<double>;

igrid_t to_igrid(const ivec& v)
{
    igrid_t g(static_cast<tensor_size_t>(v.size()));
    for (size_t i = 0; i < v.size(); ++i)
    {
        g(static_cast<tensor_size_t>(i)) = v[i];
    }
    return g;
}

ivec from_igrid(const igrid_t& g)
{
    ivec v;
    for (tensor_size_t i = 0; i < g.size(); ++i)
    {
        v.push_back(g(i));
    }
    return v;
}

struct spaces_in_t
{
    std::vector<int>  types;
    std::vector<fvec> values;
    param_spaces_t    spaces;
};

spaces_in_t read_spaces(toks_t& toks)
{
    spaces_in_t s;
    const auto  d = toks.i64();
    if (d < 0 || d > 8)
    {
        throw bad_op("spaces");
    }
    for (int64_t i = 0; i < d; ++i)
    {
        const auto type = toks.i64();
        const auto vals = toks.fs();
        tensor1d_t grid(static_cast<tensor_size_t>(vals.size()));
        for (size_t k = 0; k < vals.size(); ++k)
        {
            grid(static_cast<tensor_size_t>(k)) = vals[k];
        }
        s.types.push_back(static_cast<int>(type));
        s.values.push_back(vals);
        s.spaces.emplace_back("p" + std::to_string(i),
                              type == 0 ? param_space_t::type::log10 : param_space_t::type::linear, grid);
    }
    return s;
}

// grid index of a hyper-parameter value by exact look-up (-1: not a grid value)
int64_t decode1(const fvec& grid, const double v)
{
    for (size_t k = 0; k < grid.size(); ++k)
    {
        if (grid[k] == v)
        {
            return static_cast<int64_t>(k);
        }
    }
    return -1;
}

template <class tvector>
ivec decode(const spaces_in_t& s, const tvector& params)
{
    ivec g;
    for (size_t i = 0; i < s.values.size(); ++i)
    {
        g.push_back(decode1(s.values[i], params(static_cast<tensor_size_t>(i))));
    }
    return g;
}

struct landscape_t
{
    std::string       kind;
    ivec              a;
    fvec              table;
    std::vector<fvec> seps;

    static landscape_t read(toks_t& toks)
    {
        landscape_t l;
        l.kind = toks.s();
        if (l.kind == "lin")
        {
            l.a     = toks.ints();
            l.table = toks.fs();
            if (l.table.empty())
            {
                throw bad_op("empty table");
            }
        }
        else if (l.kind == "sep")
        {
            const auto d = toks.i64();
            for (int64_t i = 0; i < d; ++i)
            {
                l.seps.push_back(toks.fs());
                if (l.seps.back().empty())
                {
                    throw bad_op("empty table");
                }
            }
        }
        else
        {
            throw bad_op("landscape");
        }
        return l;
    }

    static size_t wrap(const int64_t k, const size_t n)
    {
        const auto m = static_cast<int64_t>(n);
        return static_cast<size_t>(((k % m) + m) % m);
    }

    double value(const ivec& g) const
    {
        if (kind == "lin")
        {
            int64_t k = 0;
            for (size_t i = 0; i < g.size() && i < a.size(); ++i)
            {
                k += a[i] * g[i];
            }
            return table[wrap(k, table.size())];
        }
        double v = 0.0;
        for (size_t i = 0; i < g.size() && i < seps.size(); ++i)
        {
            const auto x = seps[i][wrap(g[i], seps[i].size())];
            v            = (i == 0) ? x : (v + x);
        }
        return v;
    }
};

struct trace_t
{
    std::vector<std::vector<ivec>> batches;     // decoded grid points of every callback batch
    std::vector<tensor2d_t>        raw_batches; // the hyper-parameter values as handed to the callback
};

void print_batches(out_t& out, const trace_t& trace)
{
    out << static_cast<long long>(trace.raw_batches.size());
    for (const auto& b : trace.raw_batches)
    {
        out << b.size<0>() << b.size<1>();
        for (tensor_size_t i = 0; i < b.size(); ++i)
        {
            out << b(i);
        }
    }
}

std::string trace_aug(const trace_t& trace, const ivec* first)
{
    out_t out;
    out << "|" << static_cast<long long>(trace.batches.size());
    for (const auto& b : trace.batches)
    {
        out << static_cast<long long>(b.size());
        for (const auto& g : b)
        {
            out.ilist(g);
        }
    }
    if (first != nullptr)
    {
        out << 1;
        out.ilist(*first);
    }
    else
    {
        out << 0;
    }
    return out.str();
}

// canonical order of the returned steps: by value, then by grid point (std::sort leaves the order of equal values open);
// whether the steps were sorted as returned and which step came first are printed separately
void print_steps(out_t& out, const tuner_steps_t& steps)
{
    std::vector<size_t> order(steps.size());
    for (size_t i = 0; i < order.size(); ++i)
    {
        order[i] = i;
    }
    std::sort(order.begin(), order.end(),
              [&](const size_t i, const size_t j)
              {
                  const auto& a = steps[i];
                  const auto& b = steps[j];
                  if (a.m_value != b.m_value)
                  {
                      return a.m_value < b.m_value;
                  }
                  return from_igrid(a.m_igrid) < from_igrid(b.m_igrid);
              });
    out << "steps" << static_cast<long long>(steps.size());
    for (const auto i : order)
    {
        const auto& s = steps[i];
        out.ilist(from_igrid(s.m_igrid));
        out << s.m_param.size();
        for (tensor_size_t k = 0; k < s.m_param.size(); ++k)
        {
            out << s.m_param(k);
        }
        out << s.m_value;
    }
    bool sorted = true;
    for (size_t i = 1; i < steps.size(); ++i)
    {
        if (steps[i].m_value < steps[i - 1].m_value)
        {
            sorted = false;
        }
    }
    out << "first";
    if (steps.empty())
    {
        out << 0;
    }
    else
    {
        out.ilist(from_igrid(steps[0].m_igrid));
    }
    out << "sorted" << (sorted ? 1 : 0);
}

tuner_callback_t make_callback(const spaces_in_t& s, const landscape_t& land, trace_t& trace)
{
    return [&](const tensor2d_t& params)
    {
        tensor1d_t        values(params.size<0>());
        std::vector<ivec> batch;
        for (tensor_size_t t = 0; t < params.size<0>(); ++t)
        {
            const auto g = decode(s, params.tensor(t));
            values(t)    = land.value(g);
            batch.push_back(g);
        }
        trace.batches.push_back(batch);
        trace.raw_batches.push_back(params);
        return values;
    };
}

// ---- local_search --------------------------------------------------------------------------------------
std::string op_lsearch(toks_t& toks)
{
    const auto mn = toks.ints();
    const auto mx = toks.ints();
    const auto sr = toks.ints();
    const auto r  = toks.i64();
    if (mn.empty() || mn.size() != mx.size() || mn.size() != sr.size() || mn.size() > 6)
    {
        throw bad_op("lsearch sizes");
    }
    const auto igrids = local_search(to_igrid(mn), to_igrid(mx), to_igrid(sr), r);
    out_t      out;
    out << "ok" << static_cast<long long>(igrids.size());
    for (const auto& g : igrids)
    {
        out.ilist(from_igrid(g));
    }
    return out.str();
}

// ---- evaluate ------------------------------------------------------------------------------------------
std::string op_evaluate(toks_t& toks, std::string& aug)
{
    const auto s    = read_spaces(toks);
    const auto land = landscape_t::read(toks);
    const auto d    = s.spaces.size();

    const auto in_grid = [&](const ivec& g)
    {
        if (g.size() != d)
        {
            return false;
        }
        for (size_t i = 0; i < d; ++i)
        {
            if (g[i] < 0 || g[i] >= static_cast<int64_t>(s.values[i].size()))
            {
                return false;
            }
        }
        return true;
    };

    tuner_steps_t steps;
    const auto    nsteps = toks.i64();
    for (int64_t k = 0; k < nsteps; ++k)
    {
        const auto g = toks.ints();
        const auto v = toks.f();
        if (!in_grid(g))
        {
            throw bad_op("step outside the grid");
        }
        const auto ig = to_igrid(g);
        const auto pm = map_to_grid(s.spaces, igrids_t{ig});
        steps.emplace_back(tuner_step_t{ig, pm.tensor(0), v});
    }
    igrids_t   igrids;
    const auto nigrids = toks.i64();
    for (int64_t k = 0; k < nigrids; ++k)
    {
        const auto g = toks.ints();
        if (!in_grid(g))
        {
            throw bad_op("grid point outside the grid"); // map_to_grid would read out of bounds
        }
        igrids.push_back(to_igrid(g));
    }

    trace_t    trace;
    const auto callback = make_callback(s, land, trace);
    out_t      out;
    try
    {
        const auto ret = evaluate(s.spaces, callback, igrids, make_null_logger(), steps);
        out << "ok" << (ret ? 1 : 0);
        print_batches(out, trace);
        print_steps(out, steps);
        const auto first = steps.empty() ? ivec{} : from_igrid(steps[0].m_igrid);
        aug += " " + trace_aug(trace, steps.empty() ? nullptr : &first);
    }
    catch (const std::runtime_error&)
    {
        out << "throw critical";
        print_batches(out, trace);
        aug += " " + trace_aug(trace, nullptr);
    }
    return out.str();
}

// ---- the L-BFGS runs inside the surrogate tuner (hook `solver.done`) ---------------------------------------
struct solve_t
{
    size_t nsteps    = 0; // evaluations so far when the run ended
    bool   converged = false;
    bool   valid     = false;
    double fx        = 0.0;
    fvec   x0, x, gx; // start point, final point, final gradient
};

struct solver_log_t
{
    std::vector<solve_t> solves;
    const trace_t*       trace = nullptr;
};

solver_log_t*& current_log()
{
    static thread_local solver_log_t* log = nullptr;
    return log;
}

// `solver.done`: iter_ok, converged, valid, fx, gradient test, fcalls, gcalls, x (size, …), gx (size, …);
// a run starts with the state built from x0 (one function call, one gradient call) and ends with its last record
void solver_sink(const char* tag, const double* values, const size_t count)
{
    auto* const log = current_log();
    if (log == nullptr || std::string(tag) != "solver.done" || count < 9)
    {
        return;
    }
    const auto first = values[5] == 1.0 && values[6] == 1.0;
    if (first || log->solves.empty())
    {
        log->solves.emplace_back();
    }
    auto& s     = log->solves.back();
    s.nsteps    = 0;
    for (const auto& b : log->trace->batches)
    {
        s.nsteps += b.size();
    }
    s.converged = values[1] != 0.0;
    s.valid     = values[2] != 0.0;
    s.fx        = values[3];
    const auto nx = static_cast<size_t>(values[7]);
    s.x.assign(values + 8, values + 8 + nx);
    const auto ng = static_cast<size_t>(values[8 + nx]);
    s.gx.assign(values + 9 + nx, values + 9 + nx + ng);
    if (first)
    {
        s.x0 = s.x;
    }
}

struct solver_guard_t
{
    explicit solver_guard_t(solver_log_t& log)
    {
        current_log()             = &log;
        nano::verif::trace_sink() = &solver_sink;
    }
    ~solver_guard_t()
    {
        nano::verif::trace_sink() = nullptr;
        current_log()             = nullptr;
    }
    solver_guard_t(const solver_guard_t&)            = delete;
    solver_guard_t& operator=(const solver_guard_t&) = delete;
};

std::string solves_aug(const solver_log_t& log)
{
    const auto solver = solver_t::all().get("lbfgs");
    out_t      out;
    out << "|" << solver->parameter("solver::epsilon").value<scalar_t>() << static_cast<long long>(log.solves.size());
    for (const auto& s : log.solves)
    {
        out << static_cast<long long>(s.nsteps) << (s.converged ? 1 : 0) << (s.valid ? 1 : 0) << s.fx;
        out << static_cast<long long>(s.x0.size());
        for (const auto v : s.x0)
        {
            out << v;
        }
        out << static_cast<long long>(s.x.size());
        for (const auto v : s.x)
        {
            out << v;
        }
        out << static_cast<long long>(s.gx.size());
        for (const auto v : s.gx)
        {
            out << v;
        }
    }
    return out.str();
}

void print_solves(out_t& out, const solver_log_t& log)
{
    out << "solves" << static_cast<long long>(log.solves.size());
    for (const auto& s : log.solves)
    {
        out << s.fx << static_cast<long long>(s.gx.size());
        for (const auto v : s.gx)
        {
            out << v;
        }
    }
}

rtuner_t make_tuner(const std::string& id, const int64_t max_evals)
{
    auto tuner = tuner_t::all().get(id);
    if (!tuner)
    {
        throw bad_op("tuner id");
    }
    tuner->parameter("tuner::max_evals") = max_evals;
    return tuner;
}

// ---- tuner_t::optimize ---------------------------------------------------------------------------------
std::string op_run(toks_t& toks, std::string& aug)
{
    const auto id        = toks.s();
    const auto max_evals = toks.i64();
    const auto s         = read_spaces(toks);
    const auto land      = landscape_t::read(toks);
    const auto tuner     = make_tuner(id, max_evals);

    trace_t      trace;
    solver_log_t log;
    log.trace           = &trace;
    const auto callback = make_callback(s, land, trace);
    out_t      out;
    try
    {
        const auto guard = solver_guard_t{log};
        const auto steps = tuner->optimize(s.spaces, callback, make_null_logger());
        out << "ok";
        print_batches(out, trace);
        print_steps(out, steps);
        const auto first = steps.empty() ? ivec{} : from_igrid(steps[0].m_igrid);
        aug += " " + trace_aug(trace, steps.empty() ? nullptr : &first);
    }
    catch (const std::runtime_error&)
    {
        out << "throw critical";
        print_batches(out, trace);
        aug += " " + trace_aug(trace, nullptr);
    }
    print_solves(out, log);
    aug += " " + solves_aug(log);
    return out.str();
}

// ---- param_space_t -------------------------------------------------------------------------------------
std::string op_space(toks_t& toks)
{
    const auto type    = toks.i64();
    const auto vals    = toks.fs();
    const auto queries = toks.fs();
    tensor1d_t grid(static_cast<tensor_size_t>(vals.size()));
    for (size_t k = 0; k < vals.size(); ++k)
    {
        grid(static_cast<tensor_size_t>(k)) = vals[k];
    }
    out_t out;
    try
    {
        const auto space =
            param_space_t{"p", type == 0 ? param_space_t::type::log10 : param_space_t::type::linear, grid};
        out << "ok" << static_cast<long long>(queries.size());
        for (const auto q : queries)
        {
            try
            {
                out << space.to_surrogate(q);
            }
            catch (const std::runtime_error&)
            {
                out << "x";
            }
            out << space.from_surrogate(q) << space.closest_grid_point_from_surrogate(q)
                << space.closest_grid_value_from_surrogate(q);
        }
    }
    catch (const std::runtime_error&)
    {
        return "throw critical";
    }
    return out.str();
}

template <class tfunction>
std::string print_vgrad(const tfunction& function, const fvec& xs)
{
    vector_t x(static_cast<tensor_size_t>(xs.size()));
    for (size_t i = 0; i < xs.size(); ++i)
    {
        x(static_cast<tensor_size_t>(i)) = xs[i];
    }
    vector_t   gx(x.size());
    const auto fx = function.vgrad(x, gx);
    const auto f0 = function.vgrad(x);
    out_t      out;
    out << "ok" << fx << f0 << gx.size();
    for (tensor_size_t i = 0; i < gx.size(); ++i)
    {
        out << gx(i);
    }
    return out.str();
}

// ---- quadratic_surrogate_fit_t -------------------------------------------------------------------------
std::string op_sfit(toks_t& toks)
{
    const auto n  = toks.i64();
    const auto d  = toks.i64();
    const auto ps = toks.fs();
    const auto ys = toks.fs();
    const auto xs = toks.fs();
    if (n < 1 || d < 1 || d > 6 || n > 4096 || static_cast<int64_t>(ps.size()) != n * d ||
        static_cast<int64_t>(ys.size()) != n || static_cast<int64_t>(xs.size()) != (d + 1) * (d + 2) / 2)
    {
        throw bad_op("sfit sizes");
    }
    tensor2d_t p(n, d);
    tensor1d_t y(n);
    for (int64_t i = 0; i < n * d; ++i)
    {
        p(i) = ps[static_cast<size_t>(i)];
    }
    for (int64_t i = 0; i < n; ++i)
    {
        y(i) = ys[static_cast<size_t>(i)];
    }
    const auto loss = loss_t::all().get("mse");
    const auto fit  = quadratic_surrogate_fit_t{*loss, p, y};
    if (fit.size() != static_cast<tensor_size_t>(xs.size()))
    {
        return "size-mismatch";
    }
    return print_vgrad(fit, xs);
}

// ---- quadratic_surrogate_t -----------------------------------------------------------------------------
std::string op_squad(toks_t& toks)
{
    const auto ms = toks.fs();
    const auto xs = toks.fs();
    const auto d  = static_cast<int64_t>(xs.size());
    if (d < 1 || d > 8 || static_cast<int64_t>(ms.size()) != (d + 1) * (d + 2) / 2)
    {
        throw bad_op("squad sizes"); // the constructor only asserts
    }
    vector_t model(static_cast<tensor_size_t>(ms.size()));
    for (size_t i = 0; i < ms.size(); ++i)
    {
        model(static_cast<tensor_size_t>(i)) = ms[i];
    }
    const auto quad = quadratic_surrogate_t{model};
    if (quad.size() != static_cast<tensor_size_t>(d))
    {
        return "size-mismatch " + std::to_string(quad.size());
    }
    return print_vgrad(quad, xs);
}

// ---- ml::tune ------------------------------------------------------------------------------------------
struct gen_t
{
    int64_t A = 0, B = 0, C = 0, D = 0, E = 0;
    fvec    table;

    double entry(const int64_t gi, const int64_t fold, const int64_t split, const int64_t kind, const int64_t id) const
    {
        return table[landscape_t::wrap(A * gi + B * fold + C * split + D * kind + E * id, table.size())];
    }

    tensor2d_t tensor(const int64_t gi, const int64_t fold, const int64_t split, const indices_t& samples) const
    {
        tensor2d_t t(2, samples.size());
        for (tensor_size_t kind = 0; kind < 2; ++kind)
        {
            for (tensor_size_t j = 0; j < samples.size(); ++j)
            {
                t(kind, j) = entry(gi, fold, split, kind, samples(j));
            }
        }
        return t;
    }
};

struct call_t
{
    int64_t gi      = -1; // flattened (row-major) grid point of the trial, -1 when a value is not on the grid
    int64_t fold    = -1; // fold whose (training, validation) indices were handed over, -1 when none matches
    int64_t closest = -1; // the model-specific data handed over (-1: empty std::any)

    bool operator<(const call_t& o) const
    {
        return std::tie(gi, fold, closest) < std::tie(o.gi, o.fold, o.closest);
    }
};

bool same(const indices_t& a, const indices_t& b)
{
    if (a.size() != b.size())
    {
        return false;
    }
    for (tensor_size_t i = 0; i < a.size(); ++i)
    {
        if (a(i) != b(i))
        {
            return false;
        }
    }
    return true;
}

// the 18 numbers kept per (trial, fold): all statistics of the validation errors, mean and count of the other three
template <class tresult>
void print_slot(out_t& out, const tresult& stats_of)
{
    const auto ve = stats_of(ml::split_type::valid, ml::value_type::errors);
    out << ve.m_mean << ve.m_stdev << ve.m_count << ve.m_per01 << ve.m_per05 << ve.m_per10 << ve.m_per20 << ve.m_per50
        << ve.m_per80 << ve.m_per90 << ve.m_per95 << ve.m_per99;
    for (const auto& [split, value] : {std::make_pair(ml::split_type::valid, ml::value_type::losses),
                                       std::make_pair(ml::split_type::train, ml::value_type::errors),
                                       std::make_pair(ml::split_type::train, ml::value_type::losses)})
    {
        const auto st = stats_of(split, value);
        out << st.m_mean << st.m_count;
    }
}

ml::stats_t direct_stats(const tensor2d_t& values, const tensor_size_t kind)
{
    auto       copy = values;
    tensor1d_t buffer(12);
    ml::store_stats(copy.tensor(kind), buffer.tensor());
    return ml::load_stats(buffer.tensor());
}

// the batches of `ml::tune`: every `tuner_callback` runs its (trial, fold) tasks through one `pool_t::map` of the calling
// thread (pool hook H1, event `map_enter`: number of elements = folds * trials of the batch)
std::mutex             g_maps_mutex;
std::vector<long long> g_maps;

void pool_observer(const int event, const void*, const long long a, const long long)
{
    if (event == static_cast<int>(nano::verif::pool_event::map_enter))
    {
        const std::scoped_lock lock(g_maps_mutex);
        g_maps.push_back(a);
    }
}

struct pool_guard_t
{
    pool_guard_t()
    {
        {
            const std::scoped_lock lock(g_maps_mutex);
            g_maps.clear();
        }
        nano::verif::pool_hook().store(&pool_observer, std::memory_order_release);
    }
    ~pool_guard_t() { nano::verif::pool_hook().store(nullptr, std::memory_order_release); }
    pool_guard_t(const pool_guard_t&)            = delete;
    pool_guard_t& operator=(const pool_guard_t&) = delete;
};

std::string op_tune(toks_t& toks, std::string& aug)
{
    const auto id        = toks.s();
    const auto max_evals = toks.i64();
    const auto folds     = toks.i64();
    const auto seed      = toks.i64();
    const auto offset    = toks.i64();
    const auto nsamples  = toks.i64();
    const auto s         = read_spaces(toks);
    gen_t      gen;
    gen.A     = toks.i64();
    gen.B     = toks.i64();
    gen.C     = toks.i64();
    gen.D     = toks.i64();
    gen.E     = toks.i64();
    gen.table = toks.fs();
    if (gen.table.empty() || nsamples < folds || nsamples > 4096)
    {
        throw bad_op("tune sizes");
    }

    auto splitter                          = splitter_t::all().get("k-fold");
    splitter->parameter("splitter::folds") = folds;
    splitter->parameter("splitter::seed")  = seed;

    auto params = ml::params_t{};
    params.tuner(make_tuner(id, max_evals));
    params.splitter(*splitter);

    const auto samples = arange(offset, offset + nsamples);
    const auto splits  = splitter->split(samples);

    // flattened row-major grid index
    int64_t total = 1;
    for (const auto& v : s.values)
    {
        total *= static_cast<int64_t>(v.size());
    }
    if (total > 4096)
    {
        throw bad_op("grid too large for tune");
    }
    const auto flatten = [&](const ivec& g)
    {
        int64_t gi = 0;
        for (size_t i = 0; i < g.size(); ++i)
        {
            if (g[i] < 0)
            {
                return int64_t{-1};
            }
            gi = gi * static_cast<int64_t>(s.values[i].size()) + g[i];
        }
        return gi;
    };

    std::mutex          mutex;
    std::vector<call_t> calls;

    const auto callback = [&](const indices_t& tr, const indices_t& vd, tensor1d_cmap_t trial_params,
                              const std::any& closest, const logger_t&)
    {
        call_t call;
        call.gi = flatten(decode(s, trial_params));
        for (size_t f = 0; f < splits.size(); ++f)
        {
            if (same(tr, splits[f].first) && same(vd, splits[f].second))
            {
                call.fold = static_cast<int64_t>(f);
                break;
            }
        }
        if (closest.has_value())
        {
            call.closest = std::any_cast<int64_t>(closest);
        }
        {
            const std::scoped_lock lock(mutex);
            calls.push_back(call);
        }
        const auto fold = call.fold < 0 ? int64_t{0} : call.fold;
        return std::make_tuple(gen.tensor(call.gi, fold, 0, tr), gen.tensor(call.gi, fold, 1, vd),
                               std::any{int64_t{call.gi * 1000 + call.fold}});
    };

    // oracle answers for the model: the folds and the statistics of the tensors of every (grid point, fold)
    {
        out_t a;
        a << "|" << static_cast<long long>(splits.size());
        for (const auto& [tr, vd] : splits)
        {
            a.ilist(from_igrid(tr));
            a.ilist(from_igrid(vd));
        }
        a << static_cast<long long>(total * static_cast<int64_t>(splits.size()));
        for (int64_t gi = 0; gi < total; ++gi)
        {
            for (size_t f = 0; f < splits.size(); ++f)
            {
                const auto trv = gen.tensor(gi, static_cast<int64_t>(f), 0, splits[f].first);
                const auto vdv = gen.tensor(gi, static_cast<int64_t>(f), 1, splits[f].second);
                a << gi << static_cast<long long>(f);
                print_slot(a,
                           [&](const ml::split_type split, const ml::value_type value)
                           {
                               return direct_stats(split == ml::split_type::train ? trv : vdv,
                                                   value == ml::value_type::errors ? 0 : 1);
                           });
            }
        }
        aug += " " + a.str();
    }

    out_t out;
    bool  thrown = false;
    auto  result = ml::result_t{};
    try
    {
        const auto guard = pool_guard_t{};
        result           = ml::tune("verif", samples, params, s.spaces, callback);
    }
    catch (const std::runtime_error&)
    {
        thrown = true;
    }
    std::sort(calls.begin(), calls.end());

    out << (thrown ? "throw critical" : "ok");
    out << "calls" << static_cast<long long>(calls.size());
    for (const auto& c : calls)
    {
        out << c.gi << c.fold << c.closest;
    }
    // the order in which the grid points were tried (as far as the implementation shows it)
    out_t order;
    order << "|";
    if (!thrown)
    {
        out << "trials" << result.trials() << "folds" << result.folds() << "optimum" << result.optimum_trial();
        order << result.trials();
        for (tensor_size_t trial = 0; trial < result.trials(); ++trial)
        {
            const auto p = result.params(trial);
            order << flatten(decode(s, p));
            out << p.size();
            for (tensor_size_t k = 0; k < p.size(); ++k)
            {
                out << p(k);
            }
            out << result.value(trial);
            for (tensor_size_t fold = 0; fold < result.folds(); ++fold)
            {
                print_slot(out, [&](const ml::split_type split, const ml::value_type value)
                           { return result.stats(trial, fold, split, value); });
                const auto& extra = result.extra(trial, fold);
                out << (extra.has_value() ? static_cast<long long>(std::any_cast<int64_t>(extra)) : -1LL);
                std::error_code ec;
                std::filesystem::remove(result.log_path(trial, fold), ec);
            }
        }
    }
    else
    {
        // the trial order is lost with the result: hand over the distinct grid points of the call log instead
        ivec seen;
        for (const auto& c : calls)
        {
            if (std::find(seen.begin(), seen.end(), c.gi) == seen.end())
            {
                seen.push_back(c.gi);
            }
        }
        order << -1;
        order.ilist(seen);
    }
    // the call log as observed (the model uses it to tell apart batch splits the trial order alone leaves open)
    order << "|" << static_cast<long long>(calls.size());
    for (const auto& c : calls)
    {
        order << c.gi << c.fold << c.closest;
    }
    // the number of trials of every batch
    {
        const std::scoped_lock lock(g_maps_mutex);
        out << "batches" << static_cast<long long>(g_maps.size());
        order << "|" << static_cast<long long>(g_maps.size());
        for (const auto elements : g_maps)
        {
            const auto k = elements / std::max<long long>(1, static_cast<long long>(splits.size()));
            out << k;
            order << k;
        }
    }
    aug += " " + order.str();
    return out.str();
}

std::string g_tmpdir;
} // namespace

std::string vh::execute(toks_t& toks, std::string& aug)
{
    const auto fam = toks.s();
    if (fam != "tuner")
    {
        throw bad_op("family");
    }
    const auto  op = toks.s();
    std::string res;
    if (op == "lsearch")
    {
        res = op_lsearch(toks);
    }
    else if (op == "evaluate")
    {
        res = op_evaluate(toks, aug);
    }
    else if (op == "run")
    {
        res = op_run(toks, aug);
    }
    else if (op == "tune")
    {
        res = op_tune(toks, aug);
    }
    else if (op == "space")
    {
        res = op_space(toks);
    }
    else if (op == "sfit")
    {
        res = op_sfit(toks);
    }
    else if (op == "squad")
    {
        res = op_squad(toks);
    }
    else
    {
        throw bad_op("unknown op " + op);
    }
    if (!toks.done())
    {
        throw bad_op("trailing tokens");
    }
    // ml::tune opens one log file per (trial, fold) in the temporary directory: nothing may be left behind
    if (!g_tmpdir.empty())
    {
        std::error_code ec;
        for (const auto& e : std::filesystem::directory_iterator(g_tmpdir, ec))
        {
            std::filesystem::remove(e.path(), ec);
        }
    }
    return res;
}

int main()
{
    // private temporary directory (the log files of ml::tune go to std::filesystem::temp_directory_path())
    std::error_code ec;
    auto            base = std::filesystem::temp_directory_path(ec);
    if (ec)
    {
        base = "/tmp";
    }
    auto templ = (base / "verif-c13-XXXXXX").string();
    if (mkdtemp(templ.data()) != nullptr)
    {
        g_tmpdir = templ;
        setenv("TMPDIR", g_tmpdir.c_str(), 1);
    }
    const auto rc = vh::main_loop();
    if (!g_tmpdir.empty())
    {
        std::filesystem::remove_all(g_tmpdir, ec);
    }
    return rc;
}
