// C11 harness: (a) `early_stopping_t` driven directly over a history of calls (one history per op line);
//              (b) full `fit()` of gboost / linear models on small random datasets; every reported statistic is printed next
//                  to the per-sample errors/losses recomputed from scratch with the stored per-fold / final models.
#include "common.h"
#include <nano/dataset.h>
#include <nano/dataset/iterator.h>
#include <nano/datasource.h>
#include <nano/gboost/early_stopping.h>
#include <nano/gboost/enums.h>
#include <nano/gboost/model.h>
#include <nano/gboost/result.h>
#include <nano/generator/elemwise_identity.h>
#include <nano/linear.h>
#include <nano/linear/result.h>
#include <nano/linear/util.h>
#include <nano/loss.h>
#include <nano/machine/params.h>
#include <nano/machine/result.h>
#include <nano/solver.h>
#include <nano/splitter.h>
#include <nano/tuner.h>
#include <nano/wlearner.h>

using namespace nano;
using vh::bad_op;
using vh::out_t;
using vh::toks_t;

namespace
{
// ---- (a) early stopping histories -------------------------------------------------------------------------------
struct call_t
{
    double  train;
    double  valid;
    int64_t n;
};

std::string run_history(const double eps, const int64_t patience, const int64_t ntrain, const int64_t nvalid,
                        const std::vector<call_t>& calls)
{
    if (ntrain < 1 || nvalid < 0 || patience < 0)
    {
        throw bad_op("sizes");
    }
    const auto n     = static_cast<tensor_size_t>(ntrain + nvalid);
    const auto train = arange(0, static_cast<tensor_size_t>(ntrain));
    const auto valid = arange(static_cast<tensor_size_t>(ntrain), n);

    // the constructor argument: error row 0, tag row 0
    auto init = tensor2d_t{2, n};
    init.zero();
    auto monitor = gboost::early_stopping_t{init};

    std::string bits;
    for (size_t k = 0; k < calls.size(); ++k)
    {
        // every training sample has the error `train`, every validation sample `valid` (1, 2 or 4 equal values: their
        // mean is exact); the loss row carries the number of the call so that the copied tensor can be recognised
        auto values = tensor2d_t{2, n};
        for (tensor_size_t i = 0; i < n; ++i)
        {
            values(0, i) = i < ntrain ? calls[k].train : calls[k].valid;
            values(1, i) = static_cast<scalar_t>(k + 1);
        }
        const auto wlearners = rwlearners_t(static_cast<size_t>(calls[k].n)); // only size() is read
        const auto stop = monitor.done(values, train, valid, wlearners, eps, static_cast<size_t>(patience));
        bits.push_back(stop ? '1' : '0');
    }
    if (bits.empty())
    {
        bits = "-";
    }

    const auto& stored = monitor.values();
    int64_t     snap   = -1;
    if (stored.size<0>() == 2 && stored.size<1>() == n)
    {
        snap = static_cast<int64_t>(stored(1, 0));
        for (tensor_size_t i = 0; i < n; ++i)
        {
            if (stored(1, i) != stored(1, 0))
            {
                snap = -1;
            }
        }
    }
    out_t out;
    out << "ok" << bits << static_cast<long long>(monitor.round()) << monitor.value() << snap;
    out << static_cast<long long>(stored.size<1>());
    for (tensor_size_t i = 0; i < stored.size<1>(); ++i)
    {
        out << stored(0, i);
    }
    return out.str();
}

std::string op_es(toks_t& toks)
{
    const auto kind     = toks.s();
    const auto eps      = toks.f();
    const auto patience = toks.i64();
    const auto ntrain   = toks.i64();
    const auto nvalid   = toks.i64();

    std::vector<call_t> calls;
    if (kind == "a")
    {
        // alphabet word: digit d -> validation error {0, eps/2, eps, 2 eps, 1}[d % 5], training error eps/2 (d >= 5) or eps
        const auto word = toks.s();
        if (word != "-")
        {
            for (size_t k = 0; k < word.size(); ++k)
            {
                if (word[k] < '0' || word[k] > '9')
                {
                    throw bad_op("word");
                }
                const int    d          = word[k] - '0';
                const double alphabet[] = {0.0, eps / 2.0, eps, eps * 2.0, 1.0};
                calls.push_back(call_t{d >= 5 ? eps / 2.0 : eps, alphabet[d % 5], static_cast<int64_t>(k)});
            }
        }
    }
    else if (kind == "h")
    {
        const auto count = toks.i64();
        for (int64_t k = 0; k < count; ++k)
        {
            const auto t = toks.f();
            const auto v = toks.f();
            const auto n = toks.i64();
            if (n < 0 || n > 100000)
            {
                throw bad_op("learners");
            }
            calls.push_back(call_t{t, v, n});
        }
    }
    else
    {
        throw bad_op("es kind");
    }
    if (!toks.done())
    {
        throw bad_op("trailing tokens");
    }
    return run_history(eps, patience, ntrain, nvalid, calls);
}
} // namespace

std::string op_fit(toks_t& toks); // below

std::string vh::execute(toks_t& toks, std::string&)
{
    const auto fam = toks.s();
    if (fam == "es")
    {
        return op_es(toks);
    }
    if (fam == "fit")
    {
        return op_fit(toks);
    }
    throw bad_op("family");
}

std::string op_fit(toks_t&)
{
    throw bad_op("fit: not yet");
}

int main()
{
    return vh::main_loop();
}
