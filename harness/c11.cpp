// C11 harness: (a) `early_stopping_t` driven directly over a history of calls (one history per op line);
//              (b) full `fit()` of gboost / linear models on small random datasets; every reported statistic is printed next
//                  to the per-sample errors/losses recomputed from scratch with the stored per-fold / final models;
//              (c) `gbloop`: the same full gboost `fit()` with the trace sink of hook H3 installed (round loop of
//                  src/gboost/model.cpp, result.cpp): the logged oracle answers (weak-learner scores, scaling minimum, mean
//                  errors) go to the augmented op line, the logged decisions (chosen learner, exits, done() answers, monitor
//                  state, learners / statistics kept by result_t::done, fold averaging of the bias) to the result.
//                  Without the hook (macro NANO_VERIF_GBOOST_TRACE of <nano/verif.h>) the op reports `skipped`.
#include "common.h"
#include <nano/dataset.h>
#include <nano/dataset/iterator.h>
#include <nano/datasource.h>
#include <nano/gboost/early_stopping.h>
#include <nano/gboost/enums.h>
#include <nano/gboost/model.h>
#include <nano/gboost/result.h>
#include <nano/generator/elemwise_identity.h>
#include <nano/linear.h>
#include <nano/linear/result.h>
#include <nano/linear/util.h>
#include <nano/loss.h>
#include <nano/machine/params.h>
#include <nano/machine/result.h>
#include <nano/solver.h>
#include <nano/splitter.h>
#include <nano/tuner.h>
#include <nano/wlearner.h>
#if defined(__has_include)
#if __has_include(<nano/verif.h>)
#include <nano/verif.h>
#endif
#endif
#include <map>
#include <mutex>

using namespace nano;
using vh::bad_op;
using vh::out_t;
using vh::toks_t;

namespace
{
// ---- (a) early stopping histories -------------------------------------------------------------------------------
struct call_t
{
    double  train;
    double  valid;
    int64_t n;
};

std::string run_history(const double eps, const int64_t patience, const int64_t ntrain, const int64_t nvalid,
                        const std::vector<call_t>& calls)
{
    if (ntrain < 1 || nvalid < 0 || patience < 0)
    {
        throw bad_op("sizes");
    }
    const auto n     = static_cast<tensor_size_t>(ntrain + nvalid);
    const auto train = arange(0, static_cast<tensor_size_t>(ntrain));
    const auto valid = arange(static_cast<tensor_size_t>(ntrain), n);

    // the constructor argument: error row 0, tag row 0
    auto init = tensor2d_t{2, n};
    init.zero();
    auto monitor = gboost::early_stopping_t{init};

    std::string bits;
    for (size_t k = 0; k < calls.size(); ++k)
    {
        // every training sample has the error `train`, every validation sample `valid` (1, 2 or 4 equal values: their
        // mean is exact); the loss row carries the number of the call so that the copied tensor can be recognised
        auto values = tensor2d_t{2, n};
        for (tensor_size_t i = 0; i < n; ++i)
        {
            values(0, i) = i < ntrain ? calls[k].train : calls[k].valid;
            values(1, i) = static_cast<scalar_t>(k + 1);
        }
        const auto wlearners = rwlearners_t(static_cast<size_t>(calls[k].n)); // only size() is read
        const auto stop = monitor.done(values, train, valid, wlearners, eps, static_cast<size_t>(patience));
        bits.push_back(stop ? '1' : '0');
    }
    if (bits.empty())
    {
        bits = "-";
    }

    const auto& stored = monitor.values();
    int64_t     snap   = -1;
    if (stored.size<0>() == 2 && stored.size<1>() == n)
    {
        snap = static_cast<int64_t>(stored(1, 0));
        for (tensor_size_t i = 0; i < n; ++i)
        {
            if (stored(1, i) != stored(1, 0))
            {
                snap = -1;
            }
        }
    }
    out_t out;
    out << "ok" << bits << static_cast<long long>(monitor.round()) << monitor.value() << snap;
    out << static_cast<long long>(stored.size<1>());
    for (tensor_size_t i = 0; i < stored.size<1>(); ++i)
    {
        out << stored(0, i);
    }
    return out.str();
}

std::string op_es(toks_t& toks)
{
    const auto kind     = toks.s();
    const auto eps      = toks.f();
    const auto patience = toks.i64();
    const auto ntrain   = toks.i64();
    const auto nvalid   = toks.i64();

    std::vector<call_t> calls;
    if (kind == "a")
    {
        // alphabet word: digit d -> validation error {0, eps/2, eps, 2 eps, 1}[d % 5], training error eps/2 (d >= 5) or eps
        const auto word = toks.s();
        if (word != "-")
        {
            for (size_t k = 0; k < word.size(); ++k)
            {
                if (word[k] < '0' || word[k] > '9')
                {
                    throw bad_op("word");
                }
                const int    d          = word[k] - '0';
                const double alphabet[] = {0.0, eps / 2.0, eps, eps * 2.0, 1.0};
                calls.push_back(call_t{d >= 5 ? eps / 2.0 : eps, alphabet[d % 5], static_cast<int64_t>(k)});
            }
        }
    }
    else if (kind == "h")
    {
        const auto count = toks.i64();
        for (int64_t k = 0; k < count; ++k)
        {
            const auto t = toks.f();
            const auto v = toks.f();
            const auto n = toks.i64();
            if (n < 0 || n > 100000)
            {
                throw bad_op("learners");
            }
            calls.push_back(call_t{t, v, n});
        }
    }
    else
    {
        throw bad_op("es kind");
    }
    if (!toks.done())
    {
        throw bad_op("trailing tokens");
    }
    return run_history(eps, patience, ntrain, nvalid, calls);
}
} // namespace

std::string op_fit(toks_t& toks);                      // below
std::string op_gbloop(toks_t& toks, std::string& aug); // below
std::string op_gbres(toks_t& toks);                    // below
std::string op_mlres(toks_t& toks);                    // below

std::string vh::execute(toks_t& toks, std::string& aug)
{
    const auto fam = toks.s();
    if (fam == "es")
    {
        return op_es(toks);
    }
    if (fam == "fit")
    {
        return op_fit(toks);
    }
    if (fam == "gbloop")
    {
        return op_gbloop(toks, aug);
    }
    if (fam == "gbres")
    {
        return op_gbres(toks);
    }
    if (fam == "mlres")
    {
        return op_mlres(toks);
    }
    throw bad_op("family");
}

// ---- (b) full fits -------------------------------------------------------------------------------------------------
namespace
{
struct rng64_t // splitmix64: the dataset is a function of the seed on the op line only
{
    uint64_t s;

    uint64_t u64()
    {
        s += 0x9E3779B97F4A7C15ULL;
        uint64_t z = s;
        z          = (z ^ (z >> 30)) * 0xBF58476D1CE4E5B9ULL;
        z          = (z ^ (z >> 27)) * 0x94D049BB133111EBULL;
        return z ^ (z >> 31);
    }

    double unit() { return static_cast<double>(u64() >> 11) / 9007199254740992.0; }

    double uniform(const double a, const double b) { return a + (b - a) * unit(); }
};

// `d` continuous features, `ncat` categorical features with 3 classes, then the target: a scalar (planted affine +
// table function plus uniform noise) or a class label (sign / tercile of the same function)
class synth_datasource_t final : public datasource_t
{
public:
    synth_datasource_t(const uint64_t seed, const tensor_size_t samples, const tensor_size_t d, const tensor_size_t ncat,
                       const int classes, const double noise)
        : datasource_t("synth")
        , m_seed(seed)
        , m_samples(samples)
        , m_d(d)
        , m_ncat(ncat)
        , m_classes(classes)
        , m_noise(noise)
    {
    }

    rdatasource_t clone() const override { return std::make_unique<synth_datasource_t>(*this); }

private:
    void do_load() override
    {
        features_t features;
        for (tensor_size_t i = 0; i < m_d; ++i)
        {
            features.push_back(feature_t{"x" + std::to_string(i)}.scalar(feature_type::float64));
        }
        for (tensor_size_t i = 0; i < m_ncat; ++i)
        {
            features.push_back(feature_t{"c" + std::to_string(i)}.sclass(strings_t{"a", "b", "c"}));
        }
        if (m_classes == 0)
        {
            features.push_back(feature_t{"y"}.scalar(feature_type::float64));
        }
        else
        {
            strings_t labels;
            for (int c = 0; c < m_classes; ++c)
            {
                labels.push_back("k" + std::to_string(c));
            }
            features.push_back(feature_t{"y"}.sclass(labels));
        }
        const auto itarget = static_cast<tensor_size_t>(features.size()) - 1;
        resize(m_samples, features, static_cast<size_t>(itarget));

        auto rng = rng64_t{m_seed * 0x9E3779B97F4A7C15ULL + 77U};

        std::vector<double> weights(static_cast<size_t>(m_d));
        for (auto& w : weights)
        {
            w = rng.uniform(-1.0, 1.0);
        }
        std::vector<double> tables(static_cast<size_t>(3 * m_ncat));
        for (auto& t : tables)
        {
            t = rng.uniform(-1.0, 1.0);
        }
        const auto bias = rng.uniform(-0.5, 0.5);

        for (tensor_size_t sample = 0; sample < m_samples; ++sample)
        {
            auto y = bias;
            for (tensor_size_t i = 0; i < m_d; ++i)
            {
                const auto x = rng.uniform(-1.0, 1.0);
                set(sample, i, x);
                y += weights[static_cast<size_t>(i)] * x;
            }
            for (tensor_size_t i = 0; i < m_ncat; ++i)
            {
                const auto c = static_cast<int32_t>(rng.u64() % 3U);
                set(sample, m_d + i, c);
                y += tables[static_cast<size_t>(3 * i + c)];
            }
            y += m_noise * rng.uniform(-1.0, 1.0);
            if (m_classes == 0)
            {
                set(sample, itarget, y);
            }
            else if (m_classes == 2)
            {
                set(sample, itarget, static_cast<int32_t>(y < bias ? 0 : 1));
            }
            else
            {
                set(sample, itarget, static_cast<int32_t>(y < bias - 0.4 ? 0 : (y < bias + 0.4 ? 1 : 2)));
            }
        }
    }

    uint64_t      m_seed;
    tensor_size_t m_samples;
    tensor_size_t m_d;
    tensor_size_t m_ncat;
    int           m_classes;
    double        m_noise;
};

std::vector<std::string> split_commas(const std::string& s)
{
    std::vector<std::string> out;
    std::string              cur;
    for (const char ch : s)
    {
        if (ch == ',')
        {
            out.push_back(cur);
            cur.clear();
        }
        else
        {
            cur.push_back(ch);
        }
    }
    out.push_back(cur);
    return out;
}

// targets of the given samples, (sample, flattened target)
tensor4d_t targets_of(const dataset_t& dataset, const indices_t& samples)
{
    tensor4d_t targets(cat_dims(samples.size(), dataset.target_dims()));
    auto       iterator = targets_iterator_t{dataset, samples};
    iterator.batch(7);
    iterator.scaling(scaling_type::none);
    iterator.loop([&](const tensor_range_t range, size_t, tensor4d_cmap_t batch) { targets.slice(range) = batch; });
    return targets;
}

// per-sample errors and loss values of given predictions, computed one sample at a time
void print_errors_losses(out_t& out, const dataset_t& dataset, const indices_t& samples, const loss_t& loss,
                         const tensor4d_t& outputs)
{
    const auto targets = targets_of(dataset, samples);
    tensor1d_t errors(samples.size());
    tensor1d_t values(samples.size());
    for (tensor_size_t i = 0; i < samples.size(); ++i)
    {
        loss.error(targets.slice(i, i + 1), outputs.slice(i, i + 1), errors.slice(i, i + 1));
        loss.value(targets.slice(i, i + 1), outputs.slice(i, i + 1), values.slice(i, i + 1));
    }
    out << static_cast<long long>(samples.size());
    for (tensor_size_t i = 0; i < samples.size(); ++i)
    {
        out << errors(i);
    }
    for (tensor_size_t i = 0; i < samples.size(); ++i)
    {
        out << values(i);
    }
}

void print_stats(out_t& out, const ml::stats_t& st)
{
    out << st.m_mean << st.m_stdev << st.m_count << st.m_per01 << st.m_per05 << st.m_per10 << st.m_per20 << st.m_per50
        << st.m_per80 << st.m_per90 << st.m_per95 << st.m_per99;
}

void print_reported(out_t& out, const ml::result_t& result, const tensor_size_t trial, const tensor_size_t fold)
{
    using namespace nano::ml;
    print_stats(out, result.stats(trial, fold, split_type::train, value_type::errors));
    print_stats(out, result.stats(trial, fold, split_type::train, value_type::losses));
    print_stats(out, result.stats(trial, fold, split_type::valid, value_type::errors));
    print_stats(out, result.stats(trial, fold, split_type::valid, value_type::losses));
}

// bias + the sum of the weak learners' predictions, each weak learner evaluated on its own zero buffer
tensor4d_t predict_sum(const dataset_t& dataset, const indices_t& samples, const tensor1d_t& bias,
                       const rwlearners_t& wlearners)
{
    tensor4d_t outputs(cat_dims(samples.size(), dataset.target_dims()));
    const auto tsize = ::nano::size(dataset.target_dims());
    for (tensor_size_t i = 0; i < samples.size(); ++i)
    {
        for (tensor_size_t k = 0; k < tsize; ++k)
        {
            outputs(i * tsize + k) = bias(k);
        }
    }
    for (const auto& wlearner : wlearners)
    {
        tensor4d_t woutputs(outputs.dims());
        woutputs.zero();
        wlearner->predict(dataset, samples, woutputs.tensor());
        for (tensor_size_t k = 0; k < outputs.size(); ++k)
        {
            outputs(k) += woutputs(k);
        }
    }
    return outputs;
}

void print_tensor(out_t& out, const tensor4d_t& t)
{
    out << static_cast<long long>(t.size());
    for (tensor_size_t k = 0; k < t.size(); ++k)
    {
        out << t(k);
    }
}

void remove_logs(const ml::result_t& result)
{
    for (tensor_size_t trial = 0; trial < result.trials(); ++trial)
    {
        for (tensor_size_t fold = 0; fold < result.folds(); ++fold)
        {
            std::remove(result.log_path(trial, fold).c_str());
        }
    }
    std::remove(result.refit_log_path().c_str());
}

struct common_args_t
{
    uint64_t      seed;
    tensor_size_t samples, d, ncat;
    int           classes;
    std::string   loss;
    tensor_size_t folds;
    int64_t       split_seed;
};

common_args_t read_common(toks_t& toks)
{
    common_args_t a{};
    a.seed    = static_cast<uint64_t>(toks.i64());
    a.samples = toks.i64();
    a.d       = toks.i64();
    a.ncat    = toks.i64();
    const auto task = toks.s();
    a.classes = task == "reg" ? 0 : task == "cls2" ? 2 : task == "cls3" ? 3 : -1;
    a.loss    = toks.s();
    a.folds   = toks.i64();
    a.split_seed = toks.i64();
    if (a.classes < 0 || a.samples < 8 || a.samples > 2000 || a.d < 0 || a.d > 16 || a.ncat < 0 || a.ncat > 8 || a.d + a.ncat < 1)
    {
        throw bad_op("fit arguments");
    }
    return a;
}

dataset_t make_dataset(const datasource_t& datasource)
{
    auto dataset = dataset_t{datasource};
    dataset.add<sclass_identity_generator_t>();
    dataset.add<scalar_identity_generator_t>();
    return dataset;
}

// the samples handed to fit(): not all of them and not contiguous
indices_t fit_samples(const tensor_size_t total)
{
    std::vector<tensor_size_t> keep;
    for (tensor_size_t i = 0; i < total; ++i)
    {
        if (i % 7 != 3)
        {
            keep.push_back(i);
        }
    }
    indices_t samples(static_cast<tensor_size_t>(keep.size()));
    for (size_t i = 0; i < keep.size(); ++i)
    {
        samples(static_cast<tensor_size_t>(i)) = keep[i];
    }
    return samples;
}

// ---- (c) the trace of the round loop (hook H3) ---------------------------------------------------------------------
#ifdef NANO_VERIF_GBOOST_TRACE
struct record_t
{
    std::string         tag;
    std::vector<double> v;
};

using trace_t = std::vector<record_t>;

std::mutex           g_trace_mutex;
std::vector<trace_t> g_fit_traces;  // one per call of ::fit (model.cpp), in the order of completion
trace_t              g_model_trace; // the records of gboost_model_t::fit itself

// the fold fits run concurrently on worker threads (the hook forwards the observer to them): every thread collects the
// records of the ::fit call it is executing in its own buffer and hands the buffer over at `gboost.fit.done`
void gboost_sink(const char* tag, const double* values, const size_t count)
{
    if (std::strncmp(tag, "gboost.", 7) != 0)
    {
        return; // the H2 records of the inner solvers
    }
    thread_local trace_t current;
    thread_local bool    open = false;

    auto record = record_t{tag, std::vector<double>(values, values + count)};
    if (record.tag.rfind("gboost.model.", 0) == 0)
    {
        const std::scoped_lock lock(g_trace_mutex);
        g_model_trace.push_back(std::move(record));
        return;
    }
    if (record.tag == "gboost.fit.begin")
    {
        current.clear();
        open = true;
    }
    if (!open)
    {
        return;
    }
    const auto last = record.tag == "gboost.fit.done";
    current.push_back(std::move(record));
    if (last)
    {
        const std::scoped_lock lock(g_trace_mutex);
        g_fit_traces.push_back(std::move(current));
        current.clear();
        open = false;
    }
}

struct bad_trace : std::runtime_error
{
    using std::runtime_error::runtime_error;
};

// reader of one record: scalars and `size, elements...` vectors
struct fields_t
{
    const record_t& r;
    size_t          i = 0;

    double d()
    {
        if (i >= r.v.size())
        {
            throw bad_trace(r.tag + ": short record");
        }
        return r.v[i++];
    }

    int64_t n()
    {
        const auto x = d();
        if (!(x >= 0.0 && x < 1e15) || x != std::floor(x))
        {
            throw bad_trace(r.tag + ": not a count");
        }
        return static_cast<int64_t>(x);
    }

    bool b()
    {
        const auto x = d();
        if (x != 0.0 && x != 1.0)
        {
            throw bad_trace(r.tag + ": not a flag");
        }
        return x == 1.0;
    }

    std::vector<double> vec()
    {
        const auto          size = n();
        std::vector<double> x;
        for (int64_t k = 0; k < size; ++k)
        {
            x.push_back(d());
        }
        return x;
    }

    void end() const
    {
        if (i != r.v.size())
        {
            throw bad_trace(r.tag + ": long record");
        }
    }
};

bool same_bits(const std::vector<double>& a, const std::vector<double>& b)
{
    return a.size() == b.size() && (a.empty() || std::memcmp(a.data(), b.data(), a.size() * sizeof(double)) == 0);
}

struct round_t
{
    std::vector<double> scores;        // wlearner->fit(...) per prototype, in order
    std::vector<double> clones;        // the address of each fitted clone
    double              best_score = 0;
    bool                has_best   = false;
    int64_t             chosen     = -1; // index of the prototype whose clone is the best one (from the addresses)
    char                kind       = 'n'; // n: no learner, s: scaling failed, f: fitted
    double              xmin = 0, epsmach = 0;
    std::vector<double> x;
    int64_t             learners = 0; // result.m_wlearners.size() after the append
    double              appended = 0; // address of the appended learner
    std::vector<double> stats;        // the statistics row written by result.update(round + 1, ...)
    double              train = 0, valid = 0, shrinkage = 0;
    std::vector<double> values;
    bool                stop     = false;
    int64_t             es_round = 0;
    double              es_value = 0;
    // hook H3b (optional records)
    bool                has_samples = false, has_tune = false, has_outputs = false;
    std::vector<double> fit_samples;      // sampler.sample(...)
    std::vector<double> tune;             // (grid ratio, mean validation loss) pairs of tune_shrinkage, flattened
    double              tune_best = 0, tune_best_value = 0;
    double              out_ratio = 0;    // shrinkage_ratio at the update of the predictions
    std::vector<double> woutputs, outputs; // what was added, the tracked predictions after the update
};

struct fit_trace_t
{
    int64_t              ntrain = 0, nvalid = 0, max_rounds = 0, patience = 0, protos = 0;
    double               epsilon = 0, nofit = 0;
    std::vector<double>  params, valid_samples;
    std::vector<double>  stats0;
    int64_t              max_rounds_after = 0, learners0 = 0, round0 = 0;
    double               train0 = 0, valid0 = 0, value0 = 0;
    std::vector<double>  values0;
    std::vector<round_t> rounds;
    int64_t              done_round = 0;
    std::vector<double>  kept, kept_stats; // addresses and statistics after the erase / slice of result_t::done
    int64_t              fin_round = 0, fin_learners = 0, fin_rows = 0;
    double               fin_value = 0;
    std::vector<double>  fin_values;
};

// the records of one ::fit call must follow the statement order of the round loop exactly
fit_trace_t parse_fit_trace(const trace_t& trace)
{
    fit_trace_t f;
    size_t      pos  = 0;
    const auto  peek = [&]() -> const std::string&
    {
        static const std::string none = "<end>";
        return pos < trace.size() ? trace[pos].tag : none;
    };
    const auto next = [&](const char* tag) -> fields_t
    {
        if (peek() != tag)
        {
            throw bad_trace(std::string("expected ") + tag + ", found " + peek());
        }
        return fields_t{trace[pos++]};
    };
    const auto stats_row = [&](const int64_t round)
    {
        auto r = next("gboost.result.stats");
        if (r.n() != round)
        {
            throw bad_trace("statistics row index");
        }
        auto row = r.vec();
        r.end();
        return row;
    };
    {
        auto r          = next("gboost.fit.begin");
        f.ntrain        = r.n();
        f.nvalid        = r.n();
        f.max_rounds    = r.n();
        f.epsilon       = r.d();
        f.patience      = r.n();
        f.protos        = r.n();
        f.nofit         = r.d();
        f.params        = r.vec();
        f.valid_samples = r.vec();
        r.end();
    }
    f.stats0 = stats_row(0);
    {
        auto r             = next("gboost.fit.start");
        f.max_rounds_after = r.n();
        f.learners0        = r.n();
        f.train0           = r.d();
        f.valid0           = r.d();
        f.round0           = r.n();
        f.value0           = r.d();
        f.values0          = r.vec();
        r.end();
    }
    while (peek() == "gboost.round.score" || peek() == "gboost.round.samples")
    {
        round_t    q;
        const auto round = static_cast<int64_t>(f.rounds.size());
        if (peek() == "gboost.round.samples")
        {
            auto r = next("gboost.round.samples");
            if (r.n() != round)
            {
                throw bad_trace("round index of the fitted samples");
            }
            q.fit_samples = r.vec();
            q.has_samples = true;
            r.end();
        }
        while (peek() == "gboost.round.score")
        {
            auto r = next("gboost.round.score");
            if (r.n() != round)
            {
                throw bad_trace("round index of a score");
            }
            q.scores.push_back(r.d());
            q.clones.push_back(r.d());
            r.end();
        }
        double best = 0;
        {
            auto r = next("gboost.round.best");
            if (r.n() != round)
            {
                throw bad_trace("round index");
            }
            q.best_score = r.d();
            q.has_best   = r.b();
            best         = r.d();
            r.end();
        }
        if (q.has_best)
        {
            // the chosen clone is alive from its fit to the append, so the last clone with its address is the one
            for (size_t k = 0; k < q.clones.size(); ++k)
            {
                if (q.clones[k] == best)
                {
                    q.chosen = static_cast<int64_t>(k);
                }
            }
            {
                auto r = next("gboost.round.scale");
                if (r.n() != round)
                {
                    throw bad_trace("round index");
                }
                q.xmin    = r.d();
                q.epsmach = r.d();
                q.x       = r.vec();
                r.end();
            }
            while (peek() == "gboost.tune.value")
            {
                auto r = next("gboost.tune.value");
                q.tune.push_back(r.d());
                q.tune.push_back(r.d());
                r.end();
            }
            if (peek() == "gboost.tune.best")
            {
                auto r            = next("gboost.tune.best");
                q.tune_best       = r.d();
                q.tune_best_value = r.d();
                q.has_tune        = true;
                r.end();
            }
            else if (!q.tune.empty())
            {
                throw bad_trace("grid values of tune_shrinkage without its answer");
            }
            if (peek() == "gboost.round.outputs")
            {
                auto r = next("gboost.round.outputs");
                if (r.n() != round)
                {
                    throw bad_trace("round index of the predictions");
                }
                q.out_ratio   = r.d();
                q.woutputs    = r.vec();
                q.outputs     = r.vec();
                q.has_outputs = true;
                r.end();
            }
            q.stats = stats_row(round + 1);
            {
                auto r = next("gboost.result.append");
                if (r.n() != round + 1)
                {
                    throw bad_trace("round of the append");
                }
                q.learners = r.n();
                q.appended = r.d();
                r.end();
                if (q.appended != best)
                {
                    throw bad_trace("the appended learner is not the best one");
                }
            }
            if (peek() == "gboost.round.failed")
            {
                auto r = next("gboost.round.failed");
                if (r.n() != round || r.n() != q.learners)
                {
                    throw bad_trace("failed round");
                }
                r.end();
                q.kind = 's';
                if (q.has_tune || q.has_outputs)
                {
                    throw bad_trace("predictions updated in a round whose scaling failed");
                }
            }
            else
            {
                q.kind = 'f';
                {
                    auto r = next("gboost.round.errors");
                    if (r.n() != round || r.n() != q.learners)
                    {
                        throw bad_trace("errors of the round");
                    }
                    q.train     = r.d();
                    q.valid     = r.d();
                    q.shrinkage = r.d();
                    q.values    = r.vec();
                    r.end();
                }
                {
                    auto r = next("gboost.round.done");
                    if (r.n() != round)
                    {
                        throw bad_trace("round index");
                    }
                    q.stop     = r.b();
                    q.es_round = r.n();
                    q.es_value = r.d();
                    r.end();
                }
            }
        }
        const auto leave = q.kind != 'f' || q.stop;
        f.rounds.push_back(std::move(q));
        if (leave)
        {
            break;
        }
    }
    {
        auto r       = next("gboost.result.done");
        f.done_round = r.n();
        f.kept       = r.vec();
        f.kept_stats = r.vec();
        r.end();
    }
    {
        auto r         = next("gboost.fit.done");
        f.fin_round    = r.n();
        f.fin_value    = r.d();
        f.fin_learners = r.n();
        f.fin_rows     = r.n();
        f.fin_values   = r.vec();
        r.end();
    }
    if (pos != trace.size())
    {
        throw bad_trace("records after gboost.fit.done");
    }
    return f;
}

size_t count_tokens(const std::string& text)
{
    size_t count = 0;
    bool   in    = false;
    for (const char ch : text)
    {
        if (ch == ' ')
        {
            in = false;
        }
        else if (!in)
        {
            in = true;
            ++count;
        }
    }
    return count;
}

// the data flow of one ::fit call (Model/BoostFit.lean). aug: `X <shrinkage> <params> <hasV> [<train> <valid> <values of the
// bias-only model> <rounds: s | f T <grid pairs> <logged ratio> <values>>] Y <count> <python-only tokens>`; result: the
// statistics rows (columns 0-4) that result_t::update wrote, in order.
void print_fit_ext(out_t& aug, out_t& out, const fit_trace_t& f, const std::string& shrinkage, const indices_t& train,
                   const indices_t& valid, const bool with_values, const double inv_diff, const double inv_scale)
{
    aug << "X" << shrinkage;
    aug.flist(f.params);
    aug << (with_values ? 1 : 0);
    std::vector<std::vector<double>> rows;
    rows.push_back(f.stats0);
    for (const auto& q : f.rounds)
    {
        if (q.kind != 'n')
        {
            rows.push_back(q.stats);
        }
    }
    if (with_values)
    {
        aug << static_cast<long long>(train.size());
        for (tensor_size_t i = 0; i < train.size(); ++i)
        {
            aug << static_cast<long long>(train(i));
        }
        aug << static_cast<long long>(valid.size());
        for (tensor_size_t i = 0; i < valid.size(); ++i)
        {
            aug << static_cast<long long>(valid(i));
        }
        aug.flist(f.values0);
        long long written = 0;
        for (const auto& q : f.rounds)
        {
            written += q.kind != 'n' ? 1 : 0;
        }
        aug << written;
        for (const auto& q : f.rounds)
        {
            if (q.kind == 's')
            {
                aug << "s";
            }
            else if (q.kind == 'f')
            {
                aug << "f"
                    << "T" << static_cast<long long>(q.tune.size() / 2);
                for (const auto v : q.tune)
                {
                    aug << v;
                }
                aug << q.shrinkage;
                aug.flist(q.values);
            }
        }
        out << "X" << static_cast<long long>(rows.size());
        for (const auto& row : rows)
        {
            for (size_t c = 0; c < 5; ++c)
            {
                out << row.at(c);
            }
        }
    }
    else
    {
        out << "X" << 0;
    }
    // read by the python oracle only: per round the fitted samples, the answer of tune_shrinkage, the ratio at the update; the
    // distance between the tracked predictions at the optimum round and the predictions of the stored fold model
    out_t extra;
    extra << static_cast<long long>(f.rounds.size());
    for (const auto& q : f.rounds)
    {
        extra << std::string(1, q.kind) << (q.has_samples ? 1 : 0);
        if (q.has_samples)
        {
            extra << static_cast<long long>(q.fit_samples.size());
            for (const auto v : q.fit_samples)
            {
                extra << static_cast<long long>(v);
            }
        }
        extra << (q.has_tune ? 1 : 0);
        if (q.has_tune)
        {
            extra << static_cast<long long>(q.tune.size() / 2);
            for (const auto v : q.tune)
            {
                extra << v;
            }
            extra << q.tune_best << q.tune_best_value;
        }
        extra << (q.has_outputs ? 1 : 0);
        if (q.has_outputs)
        {
            extra << q.out_ratio;
        }
        if (q.kind == 'f')
        {
            extra << q.shrinkage << q.stats.at(4);
        }
    }
    extra << "I" << inv_diff << inv_scale;
    const auto text = extra.str();
    aug << "Y" << static_cast<long long>(count_tokens(text)) << text;
}

// oracle answers of one ::fit call -> augmented op line; logged decisions -> result line
void print_fit_trace(out_t& aug, out_t& out, const fit_trace_t& f)
{
    aug << f.ntrain << f.nvalid << f.max_rounds << f.epsilon << f.patience << f.protos << f.nofit << f.train0 << f.valid0
        << static_cast<long long>(f.rounds.size());
    out << (f.max_rounds_after == 0 ? 1 : 0) << f.learners0 << f.round0 << f.value0;

    std::map<double, long long> ids; // address of an appended learner -> round * prototypes + prototype index
    for (size_t k = 0; k < f.rounds.size(); ++k)
    {
        const auto& q = f.rounds[k];
        aug << std::string(1, q.kind);
        aug.flist(q.scores);
        out << "R" << q.chosen << q.best_score << std::string(1, q.kind);
        if (q.kind == 'n')
        {
            continue;
        }
        ids[q.appended] = static_cast<long long>(k) * f.protos + q.chosen;
        aug << q.xmin << q.epsmach;
        aug.flist(q.x);
        out << q.learners;
        if (q.kind == 's')
        {
            continue;
        }
        // the statistics row of the round and the monitor must have seen the same mean errors (columns 0 and 2)
        aug << q.train << q.valid << q.stats.at(0) << q.stats.at(2);
        out << (q.stop ? 1 : 0) << q.es_round << q.es_value;
    }

    // why the loop was left
    std::string exit = "open";
    if (f.max_rounds_after == 0)
    {
        exit = "start";
    }
    else if (!f.rounds.empty() && f.rounds.back().kind == 'n')
    {
        exit = "nolearner";
    }
    else if (!f.rounds.empty() && f.rounds.back().kind == 's')
    {
        exit = "scalefail";
    }
    else if (!f.rounds.empty() && f.rounds.back().stop)
    {
        exit = "stopped";
    }
    else if (static_cast<int64_t>(f.rounds.size()) == f.max_rounds_after)
    {
        exit = "maxrounds";
    }

    // which call's per-sample tensor the monitor hands back (1 = the call on the bias-only model, k + 1 = the call made
    // with k learners); bitwise equal tensors cannot be told apart: the call made with round() learners is named first
    long long snap = 0;
    {
        std::vector<std::pair<long long, const std::vector<double>*>> calls;
        calls.emplace_back(1, &f.values0);
        for (const auto& q : f.rounds)
        {
            if (q.kind == 'f')
            {
                calls.emplace_back(q.learners + 1, &q.values);
            }
        }
        for (const auto& [idx, values] : calls)
        {
            if (same_bits(*values, f.fin_values) && (snap == 0 || idx == f.fin_round + 1))
            {
                snap = idx;
            }
        }
    }
    out << "E" << exit << f.fin_round << f.fin_value << snap << f.done_round;
    out << static_cast<long long>(f.kept.size());
    for (const auto address : f.kept)
    {
        const auto it = ids.find(address);
        out << (it == ids.end() ? -1LL : it->second);
    }
    // the statistics kept by result_t::done: rows of 8, the mean train / validation errors are columns 0 and 2
    if (f.kept_stats.size() % 8 != 0 || static_cast<int64_t>(f.kept_stats.size() / 8) != f.fin_rows)
    {
        throw bad_trace("shape of the kept statistics");
    }
    out << f.fin_rows;
    for (int64_t row = 0; row < f.fin_rows; ++row)
    {
        out << f.kept_stats[static_cast<size_t>(8 * row)] << f.kept_stats[static_cast<size_t>(8 * row + 2)];
    }
    // the statistics row of the bias-only model; the number of learners left by wlearner::merge (not modelled)
    aug << f.stats0.at(0) << f.stats0.at(2) << f.fin_learners;
}
#endif

std::string fit_gboost(toks_t& toks, std::string* const loop_aug = nullptr)
{
    const auto a          = read_common(toks);
    const auto max_rounds = toks.i64();
    const auto patience   = toks.i64();
    const auto epsilon    = toks.f();
    const auto wscale     = toks.s();
    const auto shrinkage  = toks.s();
    const auto subsample  = toks.s();
    const auto protos     = split_commas(toks.s());
    const auto noise      = toks.f();
    const auto batch      = toks.i64();
    // optional: the same model object is fitted on another sample set first (the observed fit is a RE-fit)
    const auto refit      = !toks.done() && toks.s() == "refit";
    if (!toks.done())
    {
        throw bad_op("trailing tokens");
    }
#ifndef NANO_VERIF_GBOOST_TRACE
    if (loop_aug != nullptr)
    {
        *loop_aug += " nohook"; // /repo without hook H3: nothing to observe
        return "skipped";
    }
#endif

    auto datasource = synth_datasource_t{a.seed, a.samples, a.d, a.ncat, a.classes, noise};
    datasource.load();
    const auto dataset = make_dataset(datasource);
    const auto samples = fit_samples(dataset.samples());
    const auto loss    = loss_t::all().get(a.loss);
    auto       splitter = splitter_t::all().get("k-fold");
    if (!loss || !splitter)
    {
        throw bad_op("loss/splitter id");
    }
    splitter->parameter("splitter::seed")  = a.split_seed;
    splitter->parameter("splitter::folds") = a.folds;

    auto model                                 = gboost_model_t{};
    model.parameter("gboost::max_rounds")      = max_rounds;
    model.parameter("gboost::epsilon")         = epsilon;
    model.parameter("gboost::patience")        = patience;
    model.parameter("gboost::batch")           = batch;
    model.parameter("gboost::wscale")          = wscale;
    model.parameter("gboost::shrinkage")       = shrinkage;
    model.parameter("gboost::subsample")       = subsample;
    model.parameter("gboost::subsample_ratio") = 0.8;
    auto prototypes                            = rwlearners_t{};
    for (const auto& id : protos)
    {
        auto wlearner = wlearner_t::all().get(id);
        if (!wlearner)
        {
            throw bad_op("wlearner id");
        }
        prototypes.emplace_back(std::move(wlearner));
    }
    model.prototypes(std::move(prototypes));

    auto tuner = tuner_t::all().get("surrogate");
    tuner->parameter("tuner::max_evals") = 10;
    auto solver = solver_t::all().get("lbfgs");
    solver->parameter("solver::max_evals") = 300; // the quality of the fit is not the subject
    const auto fit_params = ml::params_t{}.splitter(*splitter).tuner(*tuner).solver(*solver).logger(make_null_logger());
    if (refit)
    {
        // every second sample of the fitted set, so that the first fit leaves other weak learners / another bias behind
        indices_t first(samples.size() / 2);
        for (tensor_size_t i = 0; i < first.size(); ++i)
        {
            first(i) = samples(2 * i);
        }
        remove_logs(model.fit(dataset, first, *loss, fit_params));
    }
#ifdef NANO_VERIF_GBOOST_TRACE
    if (loop_aug != nullptr)
    {
        const std::scoped_lock lock(g_trace_mutex);
        g_fit_traces.clear();
        g_model_trace.clear();
    }
    const auto scope = nano::verif::scoped_trace_sink_t{loop_aug != nullptr ? &gboost_sink : nullptr};
#endif
    const auto result     = model.fit(dataset, samples, *loss, fit_params);
    remove_logs(result);

    const auto splits = splitter->split(samples);
    if (static_cast<tensor_size_t>(splits.size()) != result.folds())
    {
        throw bad_op("splits");
    }
    const auto all_samples = arange(0, dataset.samples());

#ifdef NANO_VERIF_GBOOST_TRACE
    if (loop_aug != nullptr)
    {
        const std::scoped_lock lock(g_trace_mutex);
        out_t                  aug;
        out_t                  out;
        aug << "H3" << result.trials() << result.folds() << result.optimum_trial();
        out << "ok";
        try
        {
            std::vector<fit_trace_t> fits;
            for (const auto& trace : g_fit_traces)
            {
                fits.push_back(parse_fit_trace(trace));
            }
            if (static_cast<tensor_size_t>(fits.size()) != result.trials() * result.folds())
            {
                throw bad_trace("number of fold fits");
            }
            std::vector<bool> used(fits.size(), false);
            size_t            values_budget = 30000; // doubles of per-sample tensors on the augmented line
            for (tensor_size_t trial = 0; trial < result.trials(); ++trial)
            {
                for (tensor_size_t fold = 0; fold < result.folds(); ++fold)
                {
                    // the fold fit of this (trial, fold): same hyper-parameter values, same validation samples
                    const auto  params = result.params(trial);
                    const auto& valid  = splits[static_cast<size_t>(fold)].second;
                    size_t      found  = fits.size();
                    for (size_t k = 0; k < fits.size() && found == fits.size(); ++k)
                    {
                        auto same = !used[k] && static_cast<tensor_size_t>(fits[k].params.size()) == params.size() &&
                                    static_cast<tensor_size_t>(fits[k].valid_samples.size()) == valid.size();
                        for (tensor_size_t i = 0; same && i < params.size(); ++i)
                        {
                            same = fits[k].params[static_cast<size_t>(i)] == params(i);
                        }
                        for (tensor_size_t i = 0; same && i < valid.size(); ++i)
                        {
                            same = fits[k].valid_samples[static_cast<size_t>(i)] == static_cast<double>(valid(i));
                        }
                        if (same)
                        {
                            found = k;
                        }
                    }
                    if (found == fits.size())
                    {
                        throw bad_trace("no trace for a (trial, fold)");
                    }
                    used[found] = true;
                    const auto* const pfold = std::any_cast<gboost::result_t>(&result.extra(trial, fold));
                    if (pfold == nullptr)
                    {
                        throw bad_op("no fold result");
                    }
                    aug << "F" << trial << fold;
                    out << "F" << trial << fold;
                    print_fit_trace(aug, out, fits[found]);
                    // what the public result holds for this fold (after wlearner::merge)
                    aug << pfold->m_statistics.size<0>() << static_cast<long long>(pfold->m_wlearners.size());
                    {
                        // the data flow: per-sample tensors only while the op line stays below ~0.5 MB
                        const auto& ft    = fits[found];
                        const auto& train = splits[static_cast<size_t>(fold)].first;
                        size_t      cost  = ft.values0.size();
                        for (const auto& q : ft.rounds)
                        {
                            cost += q.values.size();
                        }
                        const auto with_values = values_budget >= cost;
                        values_budget -= with_values ? cost : 0U;
                        // invariant at the optimum round: the tracked predictions logged after the round that appended the
                        // last kept learner against bias + sum of the stored (merged) learners' predictions, all samples
                        double inv_diff = -1.0, inv_scale = -1.0;
                        if (ft.fin_round >= 1 && static_cast<size_t>(ft.fin_round) <= ft.rounds.size() &&
                            ft.rounds[static_cast<size_t>(ft.fin_round - 1)].has_outputs)
                        {
                            const auto& logged = ft.rounds[static_cast<size_t>(ft.fin_round - 1)].outputs;
                            const auto  stored = predict_sum(dataset, all_samples, pfold->m_bias, pfold->m_wlearners);
                            if (static_cast<tensor_size_t>(logged.size()) != stored.size())
                            {
                                throw bad_trace("size of the logged predictions");
                            }
                            inv_diff  = 0.0;
                            inv_scale = 0.0;
                            for (tensor_size_t i = 0; i < stored.size(); ++i)
                            {
                                const auto d = std::fabs(logged[static_cast<size_t>(i)] - stored(i));
                                inv_diff     = (d > inv_diff || d != d) ? d : inv_diff;
                                inv_scale    = std::max(inv_scale, std::fabs(stored(i)));
                            }
                        }
                        print_fit_ext(aug, out, ft, shrinkage, train, valid, with_values, inv_diff, inv_scale);
                    }
                }
            }
            // gboost_model_t::fit: the biases of the optimum trial's folds are summed and scaled by 1 / folds
            aug << "M";
            out << "M";
            tensor_size_t folds_seen = 0;
            long long     concat     = 0;
            for (const auto& record : g_model_trace)
            {
                auto r = fields_t{record};
                if (record.tag == "gboost.model.fold")
                {
                    if (r.n() != result.optimum_trial() || r.n() != folds_seen)
                    {
                        throw bad_trace("fold order of the averaging");
                    }
                    aug.flist(r.vec());
                    aug << r.n();
                    r.vec();
                    concat = r.n();
                    r.end();
                    ++folds_seen;
                }
                else if (record.tag == "gboost.model.averaged")
                {
                    if (r.n() != result.optimum_trial() || r.n() != result.folds() || folds_seen != result.folds())
                    {
                        throw bad_trace("averaging");
                    }
                    out << r.d();
                    out.flist(r.vec());
                    out << concat;
                    aug << r.n(); // the number of learners after the merge (not modelled)
                    r.end();
                    folds_seen = -1;
                }
                else
                {
                    throw bad_trace("unknown model record " + record.tag);
                }
            }
            if (folds_seen != -1)
            {
                throw bad_trace("no averaging record");
            }
        }
        catch (const bad_trace& e)
        {
            // a trace that does not follow the statement order of the loop is an answer of the implementation
            std::string why = e.what();
            for (auto& ch : why)
            {
                ch = ch == ' ' ? '_' : ch;
            }
            *loop_aug += " " + aug.str() + " bad-trace";
            return "bad-trace " + why;
        }
        *loop_aug += " " + aug.str();
        return out.str();
    }
#endif

    out_t out;
    out << "ok"
        << "gboost" << result.trials() << result.folds() << result.optimum_trial();
    tensor4d_t mean_outputs(cat_dims(all_samples.size(), dataset.target_dims()));
    mean_outputs.zero();
    for (tensor_size_t trial = 0; trial < result.trials(); ++trial)
    {
        for (tensor_size_t fold = 0; fold < result.folds(); ++fold)
        {
            const auto& [train_samples, valid_samples] = splits[static_cast<size_t>(fold)];
            const auto* const pfold = std::any_cast<gboost::result_t>(&result.extra(trial, fold));
            if (pfold == nullptr)
            {
                throw bad_op("no fold result");
            }
            out << "T" << trial << fold;
            // the statistics of the boosting rounds that were kept
            out << pfold->m_statistics.size<0>() << static_cast<long long>(pfold->m_wlearners.size());
            for (tensor_size_t round = 0; round < pfold->m_statistics.size<0>(); ++round)
            {
                out << pfold->m_statistics(round, 0) << pfold->m_statistics(round, 1) << pfold->m_statistics(round, 2)
                    << pfold->m_statistics(round, 3);
            }
            print_reported(out, result, trial, fold);
            // from scratch: predict with the stored fold model on the fold's samples
            print_errors_losses(out, dataset, train_samples, *loss,
                                predict_sum(dataset, train_samples, pfold->m_bias, pfold->m_wlearners));
            print_errors_losses(out, dataset, valid_samples, *loss,
                                predict_sum(dataset, valid_samples, pfold->m_bias, pfold->m_wlearners));
            if (trial == result.optimum_trial())
            {
                const auto outputs = predict_sum(dataset, all_samples, pfold->m_bias, pfold->m_wlearners);
                for (tensor_size_t k = 0; k < outputs.size(); ++k)
                {
                    mean_outputs(k) += outputs(k);
                }
            }
        }
    }
    for (tensor_size_t k = 0; k < mean_outputs.size(); ++k)
    {
        mean_outputs(k) /= static_cast<scalar_t>(result.folds());
    }
    out << "F";
    print_stats(out, result.stats(ml::value_type::errors));
    print_stats(out, result.stats(ml::value_type::losses));
    print_errors_losses(out, dataset, samples, *loss, model.predict(dataset, samples));
    out << "P";
    print_tensor(out, model.predict(dataset, all_samples));
    print_tensor(out, predict_sum(dataset, all_samples, model.bias(), model.wlearners()));
    print_tensor(out, mean_outputs);
    return out.str();
}

// W x + b on the unscaled flattened inputs, one sample at a time
tensor4d_t predict_linear(const dataset_t& dataset, const indices_t& samples, const tensor2d_t& weights,
                          const tensor1d_t& bias)
{
    tensor4d_t outputs(cat_dims(samples.size(), dataset.target_dims()));
    const auto tsize    = ::nano::size(dataset.target_dims());
    auto       iterator = flatten_iterator_t{dataset, samples};
    iterator.batch(5);
    iterator.scaling(scaling_type::none);
    iterator.loop(
        [&](const tensor_range_t range, size_t, tensor2d_cmap_t inputs)
        {
            for (tensor_size_t i = 0; i < range.size(); ++i)
            {
                for (tensor_size_t k = 0; k < tsize; ++k)
                {
                    auto acc = bias(k);
                    for (tensor_size_t c = 0; c < inputs.size<1>(); ++c)
                    {
                        acc += weights(k, c) * inputs(i, c);
                    }
                    outputs((range.begin() + i) * tsize + k) = acc;
                }
            }
        });
    return outputs;
}

std::string fit_linear(toks_t& toks)
{
    const auto a        = read_common(toks);
    const auto model_id = toks.s();
    const auto scaling  = toks.s();
    const auto solver_id = toks.s();
    const auto noise    = toks.f();
    const auto batch    = toks.i64();
    const auto refit    = !toks.done() && toks.s() == "refit";
    if (!toks.done())
    {
        throw bad_op("trailing tokens");
    }

    auto datasource = synth_datasource_t{a.seed, a.samples, a.d, a.ncat, a.classes, noise};
    datasource.load();
    const auto dataset  = make_dataset(datasource);
    const auto samples  = fit_samples(dataset.samples());
    const auto loss     = loss_t::all().get(a.loss);
    auto       splitter = splitter_t::all().get("k-fold");
    auto       model    = linear_t::all().get(model_id);
    auto       solver   = solver_t::all().get(solver_id);
    if (!loss || !splitter || !model || !solver)
    {
        throw bad_op("loss/splitter/model/solver id");
    }
    splitter->parameter("splitter::seed")  = a.split_seed;
    splitter->parameter("splitter::folds") = a.folds;
    model->parameter("linear::batch")      = batch;
    model->parameter("linear::scaling")    = scaling;
    solver->parameter("solver::epsilon")   = 1e-8;
    solver->parameter("solver::max_evals") = 300; // the quality of the fit is not the subject

    auto tuner = tuner_t::all().get("surrogate");
    tuner->parameter("tuner::max_evals") = 10;
    const auto fit_params = ml::params_t{}.splitter(*splitter).tuner(*tuner).solver(*solver).logger(make_null_logger());
    if (refit)
    {
        indices_t first(samples.size() / 2);
        for (tensor_size_t i = 0; i < first.size(); ++i)
        {
            first(i) = samples(2 * i);
        }
        remove_logs(model->fit(dataset, first, *loss, fit_params));
    }
    const auto result     = model->fit(dataset, samples, *loss, fit_params);
    remove_logs(result);

    const auto splits = splitter->split(samples);
    if (static_cast<tensor_size_t>(splits.size()) != result.folds())
    {
        throw bad_op("splits");
    }

    out_t out;
    out << "ok"
        << "linear" << result.trials() << result.folds() << result.optimum_trial();
    for (tensor_size_t trial = 0; trial < result.trials(); ++trial)
    {
        for (tensor_size_t fold = 0; fold < result.folds(); ++fold)
        {
            const auto& [train_samples, valid_samples] = splits[static_cast<size_t>(fold)];
            const auto* const pfold = std::any_cast<linear::result_t>(&result.extra(trial, fold));
            if (pfold == nullptr)
            {
                throw bad_op("no fold result");
            }
            out << "T" << trial << fold;
            print_reported(out, result, trial, fold);
            print_errors_losses(out, dataset, train_samples, *loss,
                                predict_linear(dataset, train_samples, pfold->m_weights, pfold->m_bias));
            print_errors_losses(out, dataset, valid_samples, *loss,
                                predict_linear(dataset, valid_samples, pfold->m_weights, pfold->m_bias));
        }
    }
    out << "F";
    print_stats(out, result.stats(ml::value_type::errors));
    print_stats(out, result.stats(ml::value_type::losses));
    print_errors_losses(out, dataset, samples, *loss, model->predict(dataset, samples));
    out << "P";
    const auto all_samples = arange(0, dataset.samples());
    print_tensor(out, model->predict(dataset, all_samples));
    print_tensor(out, predict_linear(dataset, all_samples, model->weights(), model->bias()));
    // the refit result stored next to the final statistics must be the model itself
    const auto* const prefit = std::any_cast<linear::result_t>(&result.extra());
    if (prefit == nullptr)
    {
        throw bad_op("no refit result");
    }
    print_tensor(out, predict_linear(dataset, all_samples, prefit->m_weights, prefit->m_bias));
    return out.str();
}
} // namespace

std::string op_fit(toks_t& toks)
{
    const auto kind = toks.s();
    if (kind == "gboost")
    {
        return fit_gboost(toks);
    }
    if (kind == "linear")
    {
        return fit_linear(toks);
    }
    throw bad_op("fit kind");
}

std::string op_gbloop(toks_t& toks, std::string& aug)
{
    return fit_gboost(toks, &aug);
}

// ---- (d) gboost::result_t driven directly: `gbres <train> <valid> <N> <max_rounds> <R> {<ratio> <values 2N>}xR <done round>` --
namespace
{
indices_t read_indices(toks_t& toks, const tensor_size_t bound)
{
    const auto count = toks.i64();
    if (count < 0 || count > 100000)
    {
        throw bad_op("count");
    }
    indices_t idx(count);
    for (tensor_size_t i = 0; i < count; ++i)
    {
        idx(i) = toks.i64();
        if (idx(i) < 0 || idx(i) >= bound)
        {
            throw bad_op("sample index");
        }
    }
    return idx;
}

std::vector<double> read_floats(toks_t& toks)
{
    const auto count = toks.i64();
    if (count < 0 || count > 1000000)
    {
        throw bad_op("count");
    }
    std::vector<double> v(static_cast<size_t>(count));
    for (auto& x : v)
    {
        x = toks.f();
    }
    return v;
}
} // namespace

std::string op_gbres(toks_t& toks)
{
    // the index lists are bounded by N, which follows them on the line: read them unbounded first
    const auto train0 = read_indices(toks, std::numeric_limits<tensor_size_t>::max());
    const auto valid0 = read_indices(toks, std::numeric_limits<tensor_size_t>::max());
    const auto n      = toks.i64();
    const auto max_rounds = toks.i64();
    const auto calls  = toks.i64();
    if (n < 1 || n > 10000 || max_rounds < 0 || max_rounds > 1000 || calls < 1 || calls > max_rounds + 1)
    {
        throw bad_op("gbres sizes");
    }
    for (const auto* const idx : {&train0, &valid0})
    {
        for (tensor_size_t i = 0; i < idx->size(); ++i)
        {
            if ((*idx)(i) >= n)
            {
                throw bad_op("sample index");
            }
        }
    }
    auto values = tensor2d_t{2, n};
    values.zero();
    auto result = gboost::result_t{&values, &train0, &valid0, max_rounds};
    const auto state = solver_state_t{};
    for (int64_t k = 0; k < calls; ++k)
    {
        const auto ratio = toks.f();
        const auto v     = read_floats(toks);
        if (static_cast<int64_t>(v.size()) != 2 * n)
        {
            throw bad_op("values size");
        }
        for (tensor_size_t i = 0; i < 2 * n; ++i)
        {
            values(i) = v[static_cast<size_t>(i)];
        }
        if (k == 0)
        {
            result.update(k, ratio, state);
        }
        else
        {
            // the weak learner itself is not read by update / done (`merge` skips and removes empty slots)
            result.update(k, ratio, state, rwlearner_t{});
        }
    }
    const auto round = toks.i64();
    if (round < 0 || round >= calls || !toks.done())
    {
        throw bad_op("gbres round");
    }
    result.done(round);
    out_t out;
    out << "ok" << result.m_statistics.size<0>();
    for (tensor_size_t r = 0; r < result.m_statistics.size<0>(); ++r)
    {
        for (tensor_size_t c = 0; c < 5; ++c)
        {
            out << result.m_statistics(r, c);
        }
    }
    return out.str();
}

// ---- (e) ml::result_t driven directly: `mlres <folds> <nops> {A k | S trial fold <tr err> <tr loss> <vd err> <vd loss> id |
//          F <err> <loss> id}` then every stats / extra / value / optimum_trial / final stats ----------------------------------
std::string op_mlres(toks_t& toks)
{
    const auto folds = toks.i64();
    const auto nops  = toks.i64();
    if (folds < 1 || folds > 64 || nops < 0 || nops > 10000)
    {
        throw bad_op("mlres sizes");
    }
    auto result = ml::result_t{param_spaces_t{}, folds};
    const auto read_values = [&]()
    {
        const auto e = read_floats(toks);
        const auto l = read_floats(toks);
        if (e.size() != l.size() || e.empty())
        {
            throw bad_op("errors/losses sizes");
        }
        tensor2d_t t(2, static_cast<tensor_size_t>(e.size()));
        for (size_t i = 0; i < e.size(); ++i)
        {
            t(0, static_cast<tensor_size_t>(i)) = e[i];
            t(1, static_cast<tensor_size_t>(i)) = l[i];
        }
        return t;
    };
    for (int64_t k = 0; k < nops; ++k)
    {
        const auto op = toks.s();
        if (op == "A")
        {
            const auto trials = toks.i64();
            if (trials < 1 || trials > 64)
            {
                throw bad_op("trials");
            }
            result.add(tensor2d_t{trials, 0});
        }
        else if (op == "S")
        {
            const auto trial = toks.i64();
            const auto fold  = toks.i64();
            auto       tr    = read_values();
            auto       vd    = read_values();
            const auto id    = toks.i64();
            if (trial < 0 || trial >= result.trials() || fold < 0 || fold >= result.folds())
            {
                throw bad_op("slot"); // the asserts of result_t::store
            }
            result.store(trial, fold, std::move(tr), std::move(vd), std::any{id});
        }
        else if (op == "F")
        {
            auto       values = read_values();
            const auto id     = toks.i64();
            result.store(std::move(values), std::any{id});
        }
        else
        {
            throw bad_op("mlres op");
        }
    }
    if (!toks.done())
    {
        throw bad_op("trailing tokens");
    }
    const auto id_of = [](const std::any& extra) -> long long
    {
        const auto* const p = std::any_cast<int64_t>(&extra);
        return p == nullptr ? -1LL : static_cast<long long>(*p);
    };
    out_t out;
    out << "ok" << result.trials() << result.folds();
    for (tensor_size_t trial = 0; trial < result.trials(); ++trial)
    {
        for (tensor_size_t fold = 0; fold < result.folds(); ++fold)
        {
            out << "C" << id_of(result.extra(trial, fold));
            print_reported(out, result, trial, fold);
        }
    }
    out << "V" << result.trials();
    for (tensor_size_t trial = 0; trial < result.trials(); ++trial)
    {
        out << result.value(trial);
    }
    out << "O" << result.optimum_trial();
    out << "G";
    print_stats(out, result.stats(ml::value_type::errors));
    print_stats(out, result.stats(ml::value_type::losses));
    out << id_of(result.extra());
    remove_logs(result);
    return out.str();
}

int main()
{
    return vh::main_loop();
}
