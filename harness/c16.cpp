// C16 harness: tensor indexing / views / slices (all storages, range overload, rank-1 segment) / reshape (all storages) /
// gather (several return scalar types) / integral / remove_if / stack (vector and matrix form) on the real headers;
// assignments of views (slice, partial index, reshape; taken through the owning tensor, the const owning tensor, a map or
// a constant map of its buffer) to the very tensor they alias and to fresh / bigger / same-size / mapped destinations,
// writes through views, gathers into provided (re-used) outputs, and the integral for (input, output) scalar pairs.
#include "common.h"
#include <array>
#include <nano/tensor.h>
#include <nano/tensor/algorithm.h>
#include <nano/tensor/integral.h>
#include <nano/tensor/stack.h>
#include <functional>
#include <optional>
#include <type_traits>
#include <utility>

using namespace nano;
using vh::bad_op;
using vh::out_t;
using vh::toks_t;

namespace
{
using ivec = std::vector<int64_t>;

template <size_t trank>
tensor_dims_t<trank> to_dims(const ivec& d)
{
    tensor_dims_t<trank> dims;
    for (size_t i = 0; i < trank; ++i)
    {
        dims[i] = d[i];
    }
    return dims;
}

template <class tscalar, size_t trank>
tensor_mem_t<tscalar, trank> make_iota(const ivec& d)
{
    tensor_mem_t<tscalar, trank> t(to_dims<trank>(d));
    for (tensor_size_t i = 0; i < t.size(); ++i)
    {
        t(i) = static_cast<tscalar>(i % 100);
    }
    return t;
}

template <class ttensor>
void print_tensor(out_t& out, const ttensor& t)
{
    out << static_cast<long long>(ttensor::rank());
    for (const auto d : t.dims())
    {
        out << d;
    }
    out << t.size();
    for (tensor_size_t i = 0; i < t.size(); ++i)
    {
        out << static_cast<long long>(t(i));
    }
}

// call f(idx[0], ..., idx[K-1])
template <class tfun, size_t... I>
auto apply_idx(const tfun& f, const ivec& idx, std::index_sequence<I...>)
{
    return f(static_cast<tensor_size_t>(idx[I])...);
}

template <size_t K, class tfun>
auto call_with(const tfun& f, const ivec& idx)
{
    return apply_idx(f, idx, std::make_index_sequence<K>{});
}

// ---- offset -------------------------------------------------------------------------------------------
template <class tscalar, size_t trank>
std::string op_offset(const ivec& d, const ivec& idx)
{
    const auto t   = make_iota<tscalar, trank>(d);
    const auto off = call_with<trank>([&](auto... i) { return t.offset(i...); }, idx);
    const auto val = call_with<trank>([&](auto... i) { return t(i...); }, idx);
    out_t      out;
    out << "ok" << off << static_cast<long long>(val);
    return out.str();
}

// ---- partial-index views ------------------------------------------------------------------------------
template <class tscalar, size_t trank, size_t K>
std::string op_sub_k(const std::string& what, const ivec& d, const ivec& pre)
{
    const auto t = make_iota<tscalar, trank>(d);
    out_t      out;
    out << "ok";
    if constexpr (K == 0)
    {
        out << 0LL;
    }
    else
    {
        out << call_with<K>([&](auto... i) { return t.offset0(i...); }, pre);
    }
    if (what == "sub")
    {
        const auto s = call_with<K>([&](auto... i) { return t.tensor(i...); }, pre);
        // the view must alias the buffer of the tensor (no copy)
        const auto off = (K == 0) ? tensor_size_t{0} : (s.data() - t.data());
        out << off;
        print_tensor(out, s);
    }
    else if (what == "subvec")
    {
        const auto v = call_with<K>([&](auto... i) { return t.vector(i...); }, pre);
        out << static_cast<long long>(v.data() - t.data());
        out << 1 << static_cast<long long>(v.size()) << static_cast<long long>(v.size());
        for (Eigen::Index i = 0; i < v.size(); ++i)
        {
            out << static_cast<long long>(v(i));
        }
    }
    else if (what == "submat")
    {
        if constexpr (K + 2 == trank)
        {
            const auto m = call_with<K>([&](auto... i) { return t.matrix(i...); }, pre);
            out << static_cast<long long>(m.data() - t.data());
            out << 2 << static_cast<long long>(m.rows()) << static_cast<long long>(m.cols())
                << static_cast<long long>(m.size());
            for (Eigen::Index r = 0; r < m.rows(); ++r)
            {
                for (Eigen::Index c = 0; c < m.cols(); ++c)
                {
                    out << static_cast<long long>(m(r, c));
                }
            }
        }
        else
        {
            throw bad_op("submat needs rank-2 remainder");
        }
    }
    else
    {
        throw bad_op("unknown view");
    }
    return out.str();
}

template <class tscalar, size_t trank>
std::string op_sub(const std::string& what, const ivec& d, const ivec& pre)
{
    switch (pre.size())
    {
    case 0: return op_sub_k<tscalar, trank, 0>(what, d, pre);
    case 1:
        if constexpr (trank > 1)
        {
            return op_sub_k<tscalar, trank, 1>(what, d, pre);
        }
        break;
    case 2:
        if constexpr (trank > 2)
        {
            return op_sub_k<tscalar, trank, 2>(what, d, pre);
        }
        break;
    case 3:
        if constexpr (trank > 3)
        {
            return op_sub_k<tscalar, trank, 3>(what, d, pre);
        }
        break;
    case 4:
        if constexpr (trank > 4)
        {
            return op_sub_k<tscalar, trank, 4>(what, d, pre);
        }
        break;
    default: break;
    }
    throw bad_op("prefix too long");
}

template <size_t trank>
std::string op_sub_typed(const std::string& what, const std::string& type, const ivec& d, const ivec& pre)
{
    if (type == "i8") return op_sub<int8_t, trank>(what, d, pre);
    if (type == "i16") return op_sub<int16_t, trank>(what, d, pre);
    if (type == "i32") return op_sub<int32_t, trank>(what, d, pre);
    if (type == "i64") return op_sub<int64_t, trank>(what, d, pre);
    if (type == "u8") return op_sub<uint8_t, trank>(what, d, pre);
    if (type == "u16") return op_sub<uint16_t, trank>(what, d, pre);
    if (type == "u32") return op_sub<uint32_t, trank>(what, d, pre);
    if (type == "u64") return op_sub<uint64_t, trank>(what, d, pre);
    if (type == "f32") return op_sub<float, trank>(what, d, pre);
    if (type == "f64") return op_sub<double, trank>(what, d, pre);
    throw bad_op("type");
}

// ---- slice, gather, reshape, segment --------------------------------------------------------------------
// `how` selects the storage / overload the accessor is called on: the owning tensor ("mem", const: "cmem"),
// a mutable map ("map"), a constant map ("cmap"), or the tensor_range_t overload ("range").
template <size_t trank, class tfun>
std::string with_storage(const ivec& d, const std::string& how, const tfun& fun)
{
    auto                                t = make_iota<int64_t, trank>(d);
    const tensor_mem_t<int64_t, trank>& ct = t;
    tensor_map_t<int64_t, trank>        m  = t.tensor();
    tensor_cmap_t<int64_t, trank>       c  = m;
    if (how == "mem")
    {
        return fun(t, t.data());
    }
    if (how == "cmem")
    {
        return fun(ct, t.data());
    }
    if (how == "map")
    {
        return fun(m, t.data());
    }
    if (how == "cmap")
    {
        return fun(c, t.data());
    }
    throw bad_op("storage");
}

template <size_t trank>
std::string op_slice(const ivec& d, int64_t b, int64_t e, const std::string& how)
{
    const auto print = [&](const auto& s, const int64_t* base)
    {
        out_t out;
        out << "ok" << static_cast<long long>(s.data() - base);
        print_tensor(out, s);
        return out.str();
    };
    if (how == "range")
    {
        return with_storage<trank>(d, "mem", [&](auto& t, const int64_t* base)
                                   { return print(t.slice(make_range(b, e)), base); });
    }
    return with_storage<trank>(d, how, [&](auto& t, const int64_t* base) { return print(t.slice(b, e), base); });
}

std::string op_segment(const ivec& d, int64_t b, int64_t len, const std::string& how)
{
    return with_storage<1>(d, how,
                           [&](auto& t, const int64_t* base)
                           {
                               const auto v = t.segment(b, len);
                               out_t      out;
                               out << "ok" << static_cast<long long>(v.data() - base);
                               out << 1 << static_cast<long long>(v.size()) << static_cast<long long>(v.size());
                               for (Eigen::Index i = 0; i < v.size(); ++i)
                               {
                                   out << static_cast<long long>(v(i));
                               }
                               return out.str();
                           });
}

template <size_t trank, class treturn>
std::string op_gather_as(const ivec& d, const ivec& idx)
{
    const auto t = make_iota<int64_t, trank>(d);
    indices_t  indices(static_cast<tensor_size_t>(idx.size()));
    for (size_t i = 0; i < idx.size(); ++i)
    {
        indices(static_cast<tensor_size_t>(i)) = idx[i];
    }
    const tensor_mem_t<treturn, trank> s = t.template indexed<treturn>(indices);
    out_t                              out;
    out << "ok";
    print_tensor(out, s);
    return out.str();
}

template <size_t trank>
std::string op_gather(const ivec& d, const ivec& idx, const std::string& rtype)
{
    if (rtype == "i64") return op_gather_as<trank, int64_t>(d, idx);
    if (rtype == "i32") return op_gather_as<trank, int32_t>(d, idx);
    if (rtype == "i8") return op_gather_as<trank, int8_t>(d, idx);
    if (rtype == "u16") return op_gather_as<trank, uint16_t>(d, idx);
    if (rtype == "f32") return op_gather_as<trank, float>(d, idx);
    if (rtype == "f64") return op_gather_as<trank, double>(d, idx);
    throw bad_op("return type");
}

template <size_t trank, size_t K>
std::string op_reshape_k(const ivec& d, const ivec& sizes, const std::string& how)
{
    return with_storage<trank>(d, how,
                               [&](auto& t, const int64_t* base)
                               {
                                   const auto s = call_with<K>([&](auto... i) { return t.reshape(i...); }, sizes);
                                   out_t      out;
                                   out << "ok" << static_cast<long long>(s.data() - base);
                                   print_tensor(out, s);
                                   return out.str();
                               });
}

template <size_t trank>
std::string op_reshape(const ivec& d, const ivec& sizes, const std::string& how)
{
    switch (sizes.size())
    {
    case 1: return op_reshape_k<trank, 1>(d, sizes, how);
    case 2: return op_reshape_k<trank, 2>(d, sizes, how);
    case 3: return op_reshape_k<trank, 3>(d, sizes, how);
    case 4: return op_reshape_k<trank, 4>(d, sizes, how);
    case 5: return op_reshape_k<trank, 5>(d, sizes, how);
    default: throw bad_op("reshape rank");
    }
}

// ---- integral, remove_if, convert ---------------------------------------------------------------------
template <size_t trank>
std::string op_integral(const ivec& d, const ivec& data)
{
    tensor_mem_t<int64_t, trank> it(to_dims<trank>(d));
    tensor_mem_t<int64_t, trank> ot(to_dims<trank>(d));
    if (static_cast<size_t>(it.size()) != data.size())
    {
        throw bad_op("data size");
    }
    for (tensor_size_t i = 0; i < it.size(); ++i)
    {
        it(i) = data[static_cast<size_t>(i)];
    }
    ot.zero();
    nano::integral(it, ot);
    out_t out;
    out << "ok";
    print_tensor(out, ot);
    return out.str();
}

template <size_t trank>
std::string op_removeif(const ivec& d, const ivec& mask)
{
    auto       t    = make_iota<int64_t, trank>(d);
    const auto kept = nano::remove_if([&](const tensor_size_t i) { return mask[static_cast<size_t>(i)] != 0; }, t);
    out_t      out;
    out << "ok" << kept;
    tensor_size_t inner = 1;
    for (size_t i = 1; i < trank; ++i)
    {
        inner *= d[i];
    }
    out << kept * inner;
    for (tensor_size_t i = 0; i < kept * inner; ++i)
    {
        out << static_cast<long long>(t(i));
    }
    return out.str();
}

template <size_t trank>
std::string op_convert(const ivec& d)
{
    // owning -> mutable map -> constant map -> owning copy; contents and dims must be unchanged
    auto                          t = make_iota<int64_t, trank>(d);
    tensor_map_t<int64_t, trank>  m = t.tensor();
    tensor_cmap_t<int64_t, trank> c = m;
    tensor_mem_t<int64_t, trank>  copy{c};
    tensor_mem_t<int64_t, trank>  copy2;
    copy2 = m;
    const bool alias = (m.data() == t.data()) && (c.data() == t.data()) && (copy.data() != t.data() || t.size() == 0);
    const bool same  = (copy2.dims() == t.dims()) &&
                      (t.size() == 0 || std::equal(copy2.data(), copy2.data() + copy2.size(), t.data()));
    out_t out;
    out << "ok" << (alias ? 1 : 0) << (same ? 1 : 0);
    print_tensor(out, copy);
    return out.str();
}

std::string op_stackvec(int64_t n, const std::vector<ivec>& blocks)
{
    std::vector<tensor_mem_t<int64_t, 1>> bs;
    for (const auto& b : blocks)
    {
        tensor_mem_t<int64_t, 1> t(static_cast<tensor_size_t>(b.size()));
        for (size_t i = 0; i < b.size(); ++i)
        {
            t(static_cast<tensor_size_t>(i)) = b[i];
        }
        bs.push_back(t);
    }
    tensor_mem_t<int64_t, 1> v;
    switch (bs.size())
    {
    case 1: v = nano::stack<int64_t>(n, bs[0]); break;
    case 2: v = nano::stack<int64_t>(n, bs[0], bs[1]); break;
    case 3: v = nano::stack<int64_t>(n, bs[0], bs[1], bs[2]); break;
    case 4: v = nano::stack<int64_t>(n, bs[0], bs[1], bs[2], bs[3]); break;
    default: throw bad_op("stack arity");
    }
    out_t out;
    out << "ok" << v.size();
    for (tensor_size_t i = 0; i < v.size(); ++i)
    {
        out << v(i);
    }
    return out.str();
}

// matrix form of nano::stack: up to 4 rank-2 int64 blocks given in row-major fashion
std::string op_stackmat(int64_t rows, int64_t cols, const std::vector<std::array<int64_t, 2>>& bdims,
                        const std::vector<ivec>& bdata)
{
    std::vector<tensor_mem_t<int64_t, 2>> bs;
    for (size_t k = 0; k < bdims.size(); ++k)
    {
        tensor_mem_t<int64_t, 2> t(static_cast<tensor_size_t>(bdims[k][0]), static_cast<tensor_size_t>(bdims[k][1]));
        if (static_cast<size_t>(t.size()) != bdata[k].size())
        {
            throw bad_op("block data size");
        }
        for (tensor_size_t i = 0; i < t.size(); ++i)
        {
            t(i) = bdata[k][static_cast<size_t>(i)];
        }
        bs.push_back(t);
    }
    tensor_mem_t<int64_t, 2> m;
    switch (bs.size())
    {
    case 1: m = nano::stack<int64_t>(rows, cols, bs[0]); break;
    case 2: m = nano::stack<int64_t>(rows, cols, bs[0], bs[1]); break;
    case 3: m = nano::stack<int64_t>(rows, cols, bs[0], bs[1], bs[2]); break;
    case 4: m = nano::stack<int64_t>(rows, cols, bs[0], bs[1], bs[2], bs[3]); break;
    default: throw bad_op("stack arity");
    }
    out_t out;
    out << "ok" << m.rows() << m.cols() << m.size();
    for (tensor_size_t r = 0; r < m.rows(); ++r)
    {
        for (tensor_size_t c = 0; c < m.cols(); ++c)
        {
            out << m(r, c);
        }
    }
    return out.str();
}

// ---- assignments of views, writes through views, gathers into provided outputs, mixed-type integral ---------------
// The owner of these ops is filled with `offset + 1` (never 0, every element distinct for the sizes generated).
template <class tscalar, size_t trank>
tensor_mem_t<tscalar, trank> make_seq(const tensor_dims_t<trank>& dims)
{
    tensor_mem_t<tscalar, trank> t(dims);
    for (tensor_size_t i = 0; i < t.size(); ++i)
    {
        t(i) = static_cast<tscalar>(i + 1);
    }
    return t;
}

template <class ttensor>
bool is_seq(const ttensor& t)
{
    for (tensor_size_t i = 0; i < t.size(); ++i)
    {
        if (static_cast<long long>(t(i)) != static_cast<long long>(i + 1))
        {
            return false;
        }
    }
    return true;
}

// hands `fun` the object the accessor is called on: the owning tensor ("mem"), the same as const ("cmem"), a mutable
// map of its buffer ("map") or a constant map of its buffer ("cmap")
template <class tscalar, size_t trank, class tfun>
void via_call(tensor_mem_t<tscalar, trank>& t, const std::string& via, const tfun& fun)
{
    if (via == "mem")
    {
        fun(t);
    }
    else if (via == "cmem")
    {
        fun(std::as_const(t));
    }
    else if (via == "map")
    {
        tensor_map_t<tscalar, trank> m = t.tensor();
        fun(m);
    }
    else if (via == "cmap")
    {
        tensor_cmap_t<tscalar, trank> c = std::as_const(t).tensor();
        fun(c);
    }
    else
    {
        throw bad_op("via");
    }
}

// `destination = view` for a destination that does not share memory with the view; prints the destination
template <class tview>
void assign_other(out_t& out, const tview& view, const std::string& dst)
{
    using tscalar            = std::remove_cv_t<std::remove_pointer_t<decltype(view.data())>>;
    constexpr auto vrank     = tview::rank();
    using tmem               = tensor_mem_t<tscalar, vrank>;
    const auto     junk      = static_cast<tscalar>(-7);
    if (dst == "fresh")
    {
        tmem x;
        x = view;
        print_tensor(out, x);
    }
    else if (dst == "ctor")
    {
        const tmem x{view};
        print_tensor(out, x);
    }
    else if (dst == "big")
    {
        auto dims = view.dims();
        for (auto& dim : dims)
        {
            dim += 2;
        }
        tmem x(dims);
        x.full(junk);
        x = view;
        print_tensor(out, x);
    }
    else if (dst == "same")
    {
        // same number of elements, other dimensions: the assignment must re-dimension without re-allocating
        auto dims = view.dims();
        for (auto& dim : dims)
        {
            dim = 1;
        }
        dims[vrank - 1] = view.size();
        tmem x(dims);
        x.full(junk);
        x = view;
        print_tensor(out, x);
    }
    else if (dst == "omap")
    {
        // a mutable map over another owning tensor of the view's shape: element-wise copy into the mapped memory
        tmem back(view.dims());
        back.full(junk);
        tensor_map_t<tscalar, vrank> m = back.tensor();
        m                              = view;
        print_tensor(out, back);
    }
    else
    {
        throw bad_op("destination");
    }
}

template <class tscalar, size_t trank>
std::string op_aslice(const ivec& d, int64_t b, int64_t e, const std::string& via, const std::string& dst)
{
    const auto dims = to_dims<trank>(d);
    auto       t    = make_seq<tscalar, trank>(dims);
    out_t      out;
    out << "ok";
    if (dst == "self")
    {
        // the view aliases the very tensor that is assigned to
        if (via == "range")
        {
            t = t.slice(make_range(b, e));
        }
        else
        {
            via_call(t, via, [&](auto& x) { t = x.slice(b, e); });
        }
        out << 1;
        print_tensor(out, t);
    }
    else
    {
        out_t res;
        if (via == "range")
        {
            assign_other(res, t.slice(make_range(b, e)), dst);
        }
        else
        {
            via_call(t, via, [&](auto& x) { assign_other(res, x.slice(b, e), dst); });
        }
        out << ((t.dims() == dims && is_seq(t)) ? 1 : 0);
        out.raw(res.str());
    }
    return out.str();
}

template <class tscalar, size_t trank>
std::string op_areshape(const ivec& d, const ivec& sizes, const std::string& via, const std::string& dst)
{
    if (sizes.size() != trank)
    {
        throw bad_op("areshape keeps the rank");
    }
    const auto dims = to_dims<trank>(d);
    auto       t    = make_seq<tscalar, trank>(dims);
    out_t      out;
    out << "ok";
    const auto view_of = [&](auto& x) { return call_with<trank>([&](auto... s) { return x.reshape(s...); }, sizes); };
    if (dst == "self")
    {
        via_call(t, via, [&](auto& x) { t = view_of(x); });
        out << 1;
        print_tensor(out, t);
    }
    else
    {
        out_t res;
        via_call(t, via, [&](auto& x) { assign_other(res, view_of(x), dst); });
        out << ((t.dims() == dims && is_seq(t)) ? 1 : 0);
        out.raw(res.str());
    }
    return out.str();
}

template <class tscalar, size_t trank, size_t K>
std::string op_asub_k(const ivec& d, const ivec& pre, const std::string& via, const std::string& dst)
{
    constexpr size_t vrank = trank - K;
    const auto       dims  = to_dims<trank>(d);
    out_t            out;
    out << "ok";
    if (dst == "self")
    {
        // the assigned tensor has the rank of the view and owns the whole buffer (dims (n, 1, …)); the view is taken
        // through a reshape of that buffer to the op's dims: owner = owner.reshape(dims…).tensor(prefix…)
        tensor_dims_t<vrank> odims;
        for (auto& dim : odims)
        {
            dim = 1;
        }
        odims[0] = nano::size(dims);
        auto o   = make_seq<tscalar, vrank>(odims);
        via_call(o, via,
                 [&](auto& x)
                 {
                     const auto r = call_with<trank>([&](auto... s) { return x.reshape(s...); }, d);
                     o            = call_with<K>([&](auto... i) { return r.tensor(i...); }, pre);
                 });
        out << 1;
        print_tensor(out, o);
    }
    else
    {
        auto  t = make_seq<tscalar, trank>(dims);
        out_t res;
        via_call(t, via,
                 [&](auto& x) { assign_other(res, call_with<K>([&](auto... i) { return x.tensor(i...); }, pre), dst); });
        out << ((t.dims() == dims && is_seq(t)) ? 1 : 0);
        out.raw(res.str());
    }
    return out.str();
}

template <class tscalar, size_t trank, size_t K>
std::string op_wsub_k(const ivec& d, const ivec& pre, const std::string& kind)
{
    auto t = make_seq<tscalar, trank>(to_dims<trank>(d));
    if (kind == "tensor")
    {
        auto v = call_with<K>([&](auto... i) { return t.tensor(i...); }, pre);
        for (tensor_size_t j = 0; j < v.size(); ++j)
        {
            v(j) = static_cast<tscalar>(-(j + 1));
        }
    }
    else if (kind == "vector")
    {
        auto v = call_with<K>([&](auto... i) { return t.vector(i...); }, pre);
        for (Eigen::Index j = 0; j < v.size(); ++j)
        {
            v(j) = static_cast<tscalar>(-(j + 1));
        }
    }
    else if (kind == "array")
    {
        auto v = call_with<K>([&](auto... i) { return t.array(i...); }, pre);
        for (Eigen::Index j = 0; j < v.size(); ++j)
        {
            v(j) = static_cast<tscalar>(-(j + 1));
        }
    }
    else if (kind == "matrix")
    {
        if constexpr (K + 2 == trank)
        {
            auto m = call_with<K>([&](auto... i) { return t.matrix(i...); }, pre);
            for (Eigen::Index r = 0; r < m.rows(); ++r)
            {
                for (Eigen::Index c = 0; c < m.cols(); ++c)
                {
                    m(r, c) = static_cast<tscalar>(-(r * m.cols() + c + 1));
                }
            }
        }
        else
        {
            throw bad_op("matrix needs rank-2 remainder");
        }
    }
    else
    {
        throw bad_op("view kind");
    }
    out_t out;
    out << "ok";
    print_tensor(out, t);
    return out.str();
}

// dispatch on the length of the index prefix
template <class tscalar, size_t trank, class tfun>
std::string by_prefix(const ivec& pre, const tfun& fun)
{
    switch (pre.size())
    {
    case 0: return fun(std::integral_constant<size_t, 0>{});
    case 1:
        if constexpr (trank > 1)
        {
            return fun(std::integral_constant<size_t, 1>{});
        }
        break;
    case 2:
        if constexpr (trank > 2)
        {
            return fun(std::integral_constant<size_t, 2>{});
        }
        break;
    case 3:
        if constexpr (trank > 3)
        {
            return fun(std::integral_constant<size_t, 3>{});
        }
        break;
    default: break;
    }
    throw bad_op("prefix too long");
}

template <class tscalar, size_t trank>
std::string op_wslice(const ivec& d, int64_t b, int64_t e, const std::string& how)
{
    auto       t     = make_seq<tscalar, trank>(to_dims<trank>(d));
    const auto write = [](auto v)
    {
        for (tensor_size_t j = 0; j < v.size(); ++j)
        {
            v(j) = static_cast<tscalar>(-(j + 1));
        }
    };
    if (how == "mem")
    {
        write(t.slice(b, e));
    }
    else if (how == "map")
    {
        tensor_map_t<tscalar, trank> m = t.tensor();
        write(m.slice(b, e));
    }
    else if (how == "range")
    {
        write(t.slice(make_range(b, e)));
    }
    else
    {
        throw bad_op("how");
    }
    out_t out;
    out << "ok";
    print_tensor(out, t);
    return out.str();
}

template <size_t trank>
std::string op_gatherinto(const ivec& d, const ivec& idx, const ivec& odims, const std::string& mode)
{
    if (odims.size() != trank)
    {
        throw bad_op("output rank");
    }
    const auto t    = make_iota<int64_t, trank>(d);
    const auto make = [](const ivec& v)
    {
        indices_t indices(static_cast<tensor_size_t>(v.size()));
        for (size_t i = 0; i < v.size(); ++i)
        {
            indices(static_cast<tensor_size_t>(i)) = v[i];
        }
        return indices;
    };
    const auto                   indices = make(idx);
    tensor_mem_t<int64_t, trank> out_tensor(to_dims<trank>(odims));
    out_tensor.full(-7);
    if (mode == "map")
    {
        // the overload writing into mapped memory of exactly the right shape
        t.indexed(indices, out_tensor.tensor());
    }
    else if (mode == "mem")
    {
        t.indexed(indices, out_tensor);
    }
    else if (mode == "twice")
    {
        // the same output re-used: first a gather of twice as many sub-tensors, then the requested one
        auto twice = idx;
        twice.insert(twice.end(), idx.begin(), idx.end());
        t.indexed(make(twice), out_tensor);
        t.indexed(indices, out_tensor);
    }
    else
    {
        throw bad_op("mode");
    }
    out_t out;
    out << "ok";
    print_tensor(out, out_tensor);
    return out.str();
}

template <class tscalari, class tscalaro, size_t trank>
std::string op_integralx(const ivec& d, const ivec& data)
{
    tensor_mem_t<tscalari, trank> it(to_dims<trank>(d));
    tensor_mem_t<tscalaro, trank> ot(to_dims<trank>(d));
    if (static_cast<size_t>(it.size()) != data.size())
    {
        throw bad_op("data size");
    }
    for (tensor_size_t i = 0; i < it.size(); ++i)
    {
        it(i) = static_cast<tscalari>(data[static_cast<size_t>(i)]);
        if (static_cast<int64_t>(it(i)) != data[static_cast<size_t>(i)])
        {
            throw bad_op("value not representable in the input scalar type");
        }
    }
    ot.zero();
    nano::integral(it, ot);
    out_t out;
    out << "ok";
    print_tensor(out, ot);
    return out.str();
}

template <class tscalari, size_t trank>
std::string op_integralx_o(const std::string& oty, const ivec& d, const ivec& data)
{
    if (oty == "i32") return op_integralx<tscalari, int32_t, trank>(d, data);
    if (oty == "i64") return op_integralx<tscalari, int64_t, trank>(d, data);
    if (oty == "f64") return op_integralx<tscalari, double, trank>(d, data);
    throw bad_op("output scalar type");
}

template <size_t trank>
std::string op_integralx_io(const std::string& ity, const std::string& oty, const ivec& d, const ivec& data)
{
    if (ity == "i8") return op_integralx_o<int8_t, trank>(oty, d, data);
    if (ity == "u8") return op_integralx_o<uint8_t, trank>(oty, d, data);
    if (ity == "i16") return op_integralx_o<int16_t, trank>(oty, d, data);
    if (ity == "i32") return op_integralx_o<int32_t, trank>(oty, d, data);
    if (ity == "f32" && oty == "f64") return op_integralx<float, double, trank>(d, data);
    throw bad_op("input scalar type");
}

// aslice / asub / areshape / wsub / wslice for one element type of the owner
// ---- histories of operations on owners + views of the three storages ---------------------------------------------
// `tensor hist <rank> <ty> <K> <n> <op>…`: 3K slots — [0,K) owning tensors, [K,2K) mutable maps, [2K,3K) constant maps —
// all default-constructed; every op is one call of the real constructors / operator= / resize / slice / reshape /
// map_tensor; `q o mode` prints slot o (dims, where it points, its elements).
template <class tscalar, size_t trank>
struct hist_t
{
    using mem_t  = tensor_mem_t<tscalar, trank>;
    using map_t  = tensor_map_t<tscalar, trank>;
    using cmap_t = tensor_cmap_t<tscalar, trank>;

    int64_t                            K;
    std::vector<std::optional<mem_t>>  O;
    std::vector<std::optional<map_t>>  M;
    std::vector<std::optional<cmap_t>> C;

    explicit hist_t(int64_t k)
        : K(k)
        , O(static_cast<size_t>(k))
        , M(static_cast<size_t>(k))
        , C(static_cast<size_t>(k))
    {
        for (auto& o : O) o.emplace();
        for (auto& m : M) m.emplace();
        for (auto& c : C) c.emplace();
    }

    int kind(int64_t i) const
    {
        if (i < 0 || i >= 3 * K) throw bad_op("slot");
        return static_cast<int>(i / K);
    }

    size_t at(int64_t i) const { return static_cast<size_t>(i % K); }

    // f(object of slot s), by kind
    template <class tfun>
    void with(int64_t s, const tfun& f)
    {
        switch (kind(s))
        {
        case 0: f(*O[at(s)]); break;
        case 1: f(*M[at(s)]); break;
        default: f(*C[at(s)]); break;
        }
    }

    // objs[o].emplace(view): the view is a temporary map / constant map
    template <class tview>
    void emplace_view(int64_t o, const tview& view)
    {
        switch (kind(o))
        {
        case 0: O[at(o)].emplace(view); break;
        case 1:
            if constexpr (std::is_same_v<tview, map_t>)
            {
                const map_t tmp = view;
                M[at(o)].emplace(tmp);
            }
            else
            {
                throw bad_op("mutable map of constant data");
            }
            break;
        default:
        {
            const cmap_t tmp{view};
            C[at(o)].emplace(tmp);
            break;
        }
        }
    }

    void ctor(int64_t o, int64_t s, bool move)
    {
        const int ko = kind(o), ks = kind(s);
        if (ko == 0)
        {
            if (ks == 0)
            {
                if (o == s) throw bad_op("self construction");
                if (move) O[at(o)].emplace(std::move(*O[at(s)]));
                else O[at(o)].emplace(std::as_const(*O[at(s)]));
            }
            else if (ks == 1)
            {
                if (move) O[at(o)].emplace(std::move(*M[at(s)]));
                else O[at(o)].emplace(*M[at(s)]);
            }
            else
            {
                if (move) O[at(o)].emplace(std::move(*C[at(s)]));
                else O[at(o)].emplace(*C[at(s)]);
            }
        }
        else if (ko == 1)
        {
            if (ks == 0) M[at(o)].emplace(*O[at(s)]);
            else if (ks == 1)
            {
                map_t tmp = *M[at(s)];
                if (move) M[at(o)].emplace(std::move(tmp));
                else M[at(o)].emplace(tmp);
            }
            else throw bad_op("mutable map of constant data");
        }
        else
        {
            if (ks == 0) C[at(o)].emplace(std::as_const(*O[at(s)]));
            else if (ks == 1)
            {
                const map_t tmp = *M[at(s)];
                C[at(o)].emplace(tmp);
            }
            else
            {
                cmap_t tmp = *C[at(s)];
                if (move) C[at(o)].emplace(std::move(tmp));
                else C[at(o)].emplace(tmp);
            }
        }
    }

    void assign(int64_t o, int64_t s, bool move)
    {
        const int ko = kind(o), ks = kind(s);
        if (ko == 0)
        {
            auto& dst = *O[at(o)];
            if (ks == 0)
            {
                if (move) dst = std::move(*O[at(s)]);
                else dst = std::as_const(*O[at(s)]);
            }
            else if (ks == 1)
            {
                if (move) dst = std::move(*M[at(s)]);
                else dst = *M[at(s)];
            }
            else
            {
                if (move) dst = std::move(*C[at(s)]);
                else dst = *C[at(s)];
            }
        }
        else if (ko == 1)
        {
            auto& dst = *M[at(o)];
            if (ks == 0) dst = std::as_const(*O[at(s)]);
            else if (ks == 1)
            {
                if (move) dst = std::move(*M[at(s)]);
                else dst = std::as_const(*M[at(s)]);
            }
            else dst = *C[at(s)];
        }
        else
        {
            if (ks == 2 && move) *C[at(o)] = std::move(*C[at(s)]);
            else throw bad_op("assignment to a constant map");
        }
    }

    template <class ttensor>
    void print(out_t& out, const ttensor& t, int64_t mode, bool owner)
    {
        out << static_cast<long long>(trank);
        for (const auto d : t.dims()) out << d;
        if (mode != 2)
        {
            if (owner) out << (t.data() == nullptr ? "n" : "p");
            else if (t.size() == 0) out << "z";
            else if (t.data() == nullptr) out << "n";
            else
            {
                bool found = false;
                for (int64_t j = 0; j < K && !found; ++j)
                {
                    const auto& o = *O[static_cast<size_t>(j)];
                    if (o.data() != nullptr && std::less_equal<const tscalar*>{}(o.data(), t.data()) &&
                        std::less<const tscalar*>{}(t.data(), o.data() + o.size()))
                    {
                        out << static_cast<long long>(j) << static_cast<long long>(t.data() - o.data());
                        found = true;
                    }
                }
                if (!found) out << "?" << 0;
            }
        }
        if (mode != 0)
        {
            out << t.size();
            for (tensor_size_t i = 0; i < t.size(); ++i) out << static_cast<long long>(t(i));
        }
    }

    std::string run(int64_t n, toks_t& toks)
    {
        out_t out;
        out << "ok";
        for (int64_t step = 0; step < n; ++step)
        {
            const auto op = toks.s();
            if (op == "drop")
            {
                const auto o = toks.i64();
                switch (kind(o))
                {
                case 0: O[at(o)].reset(); O[at(o)].emplace(); break;
                case 1: M[at(o)].reset(); M[at(o)].emplace(); break;
                default: C[at(o)].reset(); C[at(o)].emplace(); break;
                }
            }
            else if (op == "new")
            {
                const auto o = toks.i64();
                const auto d = toks.ints();
                if (kind(o) != 0 || d.size() != trank) throw bad_op("new");
                O[at(o)].emplace(to_dims<trank>(d));
            }
            else if (op == "fill")
            {
                const auto o = toks.i64();
                const auto v = toks.ints();
                with(o,
                     [&](auto& t)
                     {
                         using tt = std::remove_reference_t<decltype(t)>;
                         if constexpr (std::is_same_v<tt, cmap_t>)
                         {
                             throw bad_op("write through a constant map");
                         }
                         else
                         {
                             if (static_cast<tensor_size_t>(v.size()) != t.size()) throw bad_op("fill size");
                             for (tensor_size_t i = 0; i < t.size(); ++i) t(i) = static_cast<tscalar>(v[static_cast<size_t>(i)]);
                         }
                     });
            }
            else if (op == "ctor" || op == "mctor")
            {
                const auto o = toks.i64();
                const auto s = toks.i64();
                ctor(o, s, op == "mctor");
            }
            else if (op == "assignid")
            {
                // owning = other, and whether the assignment moved the tensor to another allocation
                const auto o = toks.i64();
                const auto s = toks.i64();
                if (kind(o) != 0) throw bad_op("assignid");
                const auto* before = O[at(o)]->data();
                assign(o, s, false);
                out << (O[at(o)]->data() != before ? 1 : 0);
            }
            else if (op == "assign" || op == "massign" || op == "assignpre")
            {
                const auto o = toks.i64();
                const auto s = toks.i64();
                assign(o, s, op == "massign");
            }
            else if (op == "resize")
            {
                const auto o = toks.i64();
                const auto d = toks.ints();
                if (kind(o) != 0 || d.size() != trank) throw bad_op("resize");
                // alternate between the two overloads (storage.h:81-92)
                if (step % 2 == 0) O[at(o)]->resize(to_dims<trank>(d));
                else call_with<trank>([&](auto... i) { O[at(o)]->resize(i...); }, d);
            }
            else if (op == "expr")
            {
                // objs[o] = <Eigen expression> (tensor.h:207-212 -> assign, 777-800): ranks 1 and 2 only
                const auto o = toks.i64();
                const auto d = toks.ints();
                const auto v = toks.ints();
                if constexpr (trank <= 2)
                {
                    if (d.size() != trank) throw bad_op("expr rank");
                    const auto assign_to = [&](auto& t)
                    {
                        using tt = std::remove_reference_t<decltype(t)>;
                        if constexpr (std::is_same_v<tt, cmap_t>)
                        {
                            throw bad_op("expression assigned to a constant map");
                        }
                        else if constexpr (trank == 1)
                        {
                            eigen_vector_t<tscalar> e(d[0]);
                            for (tensor_size_t i = 0; i < e.size(); ++i) e(i) = static_cast<tscalar>(v[static_cast<size_t>(i)]);
                            if (step % 2 == 0) t = e;
                            else t = e.array() + tscalar(0);
                        }
                        else
                        {
                            eigen_matrix_t<tscalar> e(d[0], d[1]);
                            for (tensor_size_t i = 0; i < e.rows(); ++i)
                                for (tensor_size_t j = 0; j < e.cols(); ++j)
                                    e(i, j) = static_cast<tscalar>(v[static_cast<size_t>(i * e.cols() + j)]);
                            t = e;
                        }
                    };
                    with(o, assign_to);
                }
                else
                {
                    throw bad_op("expr rank above 2");
                }
            }
            else if (op == "slice")
            {
                const auto o = toks.i64();
                const auto s = toks.i64();
                const auto c = toks.i64();
                const auto b = toks.i64();
                const auto e = toks.i64();
                if (kind(o) == 0 && o == s) throw bad_op("self construction");
                with(s,
                     [&](auto& t)
                     {
                         if (c != 0) emplace_view(o, (step % 2 == 0) ? std::as_const(t).slice(b, e) : std::as_const(t).slice(make_range(b, e)));
                         else emplace_view(o, (step % 2 == 0) ? t.slice(b, e) : t.slice(make_range(b, e)));
                     });
            }
            else if (op == "reshape")
            {
                const auto o = toks.i64();
                const auto s = toks.i64();
                const auto c = toks.i64();
                const auto z = toks.ints();
                if (z.size() != trank) throw bad_op("reshape rank");
                if (kind(o) == 0 && o == s) throw bad_op("self construction");
                with(s,
                     [&](auto& t)
                     {
                         if (c != 0) emplace_view(o, call_with<trank>([&](auto... i) { return std::as_const(t).reshape(i...); }, z));
                         else emplace_view(o, call_with<trank>([&](auto... i) { return t.reshape(i...); }, z));
                     });
            }
            else if (op == "raw")
            {
                const auto o   = toks.i64();
                const auto s   = toks.i64();
                const auto off = toks.i64();
                const auto d   = toks.ints();
                if (d.size() != trank || kind(o) == 0) throw bad_op("raw");
                with(s,
                     [&](auto& t)
                     {
                         if (kind(o) == 2)
                         {
                             const tscalar* ptr = t.data();
                             emplace_view(o, map_tensor(ptr + off, to_dims<trank>(d)));
                         }
                         else
                         {
                             emplace_view(o, map_tensor(t.data() + off, to_dims<trank>(d)));
                         }
                     });
            }
            else if (op == "q")
            {
                const auto o    = toks.i64();
                const auto mode = toks.i64();
                switch (kind(o))
                {
                case 0: print(out, *O[at(o)], mode, true); break;
                case 1: print(out, *M[at(o)], mode, false); break;
                default: print(out, *C[at(o)], mode, false); break;
                }
            }
            else
            {
                throw bad_op("history op " + op);
            }
        }
        if (!toks.done()) throw bad_op("trailing tokens");
        return out.str();
    }
};

template <size_t trank>
std::string op_hist(const std::string& ty, int64_t k, int64_t n, toks_t& toks)
{
    if (k < 1 || k > 4) throw bad_op("slots");
    if (ty == "i64") return hist_t<int64_t, trank>(k).run(n, toks);
    if (ty == "i32") return hist_t<int32_t, trank>(k).run(n, toks);
    throw bad_op("type");
}

// ---- remove_if over two tensors, arange, full / zero ------------------------------------------------------------------
template <size_t trank>
std::string op_removeifn(const ivec& d, const ivec& mask)
{
    auto                     t = make_iota<int32_t, trank>(d);
    tensor_mem_t<int64_t, 1> v(d[0]);
    for (tensor_size_t i = 0; i < v.size(); ++i) v(i) = 1000 + i;
    const auto op   = [&](tensor_size_t i) { return mask[static_cast<size_t>(i)] != 0; };
    const auto kept = nano::remove_if(op, t, v);
    out_t      out;
    out << "ok" << kept;
    tensor_size_t inner = 1;
    for (size_t i = 1; i < trank; ++i) inner *= d[i];
    out << kept * inner;
    for (tensor_size_t i = 0; i < kept * inner; ++i) out << static_cast<long long>(t(i));
    out << kept;
    for (tensor_size_t i = 0; i < kept; ++i) out << static_cast<long long>(v(i));
    return out.str();
}

template <size_t trank>
std::string op_full(const ivec& d, int64_t b, int64_t e, int64_t value)
{
    // full(value) / zero() through a slice of a bigger owner: exactly the viewed elements change
    auto t = make_seq<int64_t, trank>(to_dims<trank>(d));
    if (value == 0) t.slice(b, e).zero();
    else t.slice(b, e).full(value);
    out_t out;
    out << "ok";
    print_tensor(out, t);
    return out.str();
}

template <class tscalar, size_t trank>
std::string dispatch_typed(const std::string& op, toks_t& toks, const ivec& d)
{
    if (op == "aslice")
    {
        const auto b   = toks.i64();
        const auto e   = toks.i64();
        const auto via = toks.s();
        const auto dst = toks.s();
        return op_aslice<tscalar, trank>(d, b, e, via, dst);
    }
    if (op == "areshape")
    {
        const auto sizes = toks.ints();
        const auto via   = toks.s();
        const auto dst   = toks.s();
        return op_areshape<tscalar, trank>(d, sizes, via, dst);
    }
    if (op == "asub")
    {
        const auto pre = toks.ints();
        const auto via = toks.s();
        const auto dst = toks.s();
        return by_prefix<tscalar, trank>(pre, [&](auto k)
                                         { return op_asub_k<tscalar, trank, decltype(k)::value>(d, pre, via, dst); });
    }
    if (op == "wsub")
    {
        const auto pre  = toks.ints();
        const auto kind = toks.s();
        return by_prefix<tscalar, trank>(pre, [&](auto k)
                                         { return op_wsub_k<tscalar, trank, decltype(k)::value>(d, pre, kind); });
    }
    if (op == "wslice")
    {
        const auto b   = toks.i64();
        const auto e   = toks.i64();
        const auto how = toks.s();
        return op_wslice<tscalar, trank>(d, b, e, how);
    }
    throw bad_op("unknown op " + op);
}

template <size_t trank>
std::string dispatch(const std::string& op, toks_t& toks, const ivec& d)
{
    if (op == "aslice" || op == "areshape" || op == "asub" || op == "wsub" || op == "wslice")
    {
        if constexpr (trank <= 4)
        {
            // the element type is the last token of the line
            const auto type = toks.t.back();
            if (type == "i64") return dispatch_typed<int64_t, trank>(op, toks, d);
            if (type == "i32") return dispatch_typed<int32_t, trank>(op, toks, d);
            if (type == "i16") return dispatch_typed<int16_t, trank>(op, toks, d);
            throw bad_op("type");
        }
        throw bad_op("rank above 4");
    }
    if (op == "gatherinto")
    {
        const auto idx   = toks.ints();
        const auto odims = toks.ints();
        return op_gatherinto<trank>(d, idx, odims, toks.s());
    }
    if (op == "integralx")
    {
        if constexpr (trank <= 4)
        {
            const auto ity = toks.s();
            const auto oty = toks.s();
            return op_integralx_io<trank>(ity, oty, d, toks.ints());
        }
        throw bad_op("rank above 4");
    }
    if (op == "offset")
    {
        const auto idx = toks.ints();
        if (idx.size() != trank)
        {
            throw bad_op("index rank");
        }
        return op_offset<int64_t, trank>(d, idx);
    }
    if (op == "sub" || op == "subvec" || op == "submat")
    {
        const auto pre  = toks.ints();
        const auto type = toks.s();
        return op_sub_typed<trank>(op, type, d, pre);
    }
    if (op == "slice")
    {
        const auto b = toks.i64();
        const auto e = toks.i64();
        return op_slice<trank>(d, b, e, toks.done() ? std::string("mem") : toks.s());
    }
    if (op == "segment")
    {
        if constexpr (trank == 1)
        {
            const auto b   = toks.i64();
            const auto len = toks.i64();
            return op_segment(d, b, len, toks.done() ? std::string("mem") : toks.s());
        }
        throw bad_op("segment needs rank 1");
    }
    if (op == "gather")
    {
        const auto idx = toks.ints();
        return op_gather<trank>(d, idx, toks.done() ? std::string("i64") : toks.s());
    }
    if (op == "reshape")
    {
        const auto sizes = toks.ints();
        return op_reshape<trank>(d, sizes, toks.done() ? std::string("mem") : toks.s());
    }
    if (op == "integral")
    {
        return op_integral<trank>(d, toks.ints());
    }
    if (op == "removeif")
    {
        return op_removeif<trank>(d, toks.ints());
    }
    if (op == "convert")
    {
        return op_convert<trank>(d);
    }
    if (op == "removeifn")
    {
        return op_removeifn<trank>(d, toks.ints());
    }
    if (op == "full")
    {
        const auto b = toks.i64();
        const auto e = toks.i64();
        return op_full<trank>(d, b, e, toks.i64());
    }
    throw bad_op("unknown op " + op);
}
} // namespace

std::string vh::execute(toks_t& toks, std::string&)
{
    const auto fam = toks.s();
    if (fam != "tensor")
    {
        throw bad_op("family");
    }
    const auto op = toks.s();
    if (op == "stackvec")
    {
        const auto        n  = toks.i64();
        const auto        nb = toks.i64();
        std::vector<ivec> blocks;
        for (int64_t i = 0; i < nb; ++i)
        {
            blocks.push_back(toks.ints());
        }
        return op_stackvec(n, blocks);
    }
    if (op == "stackmat")
    {
        const auto                           rows = toks.i64();
        const auto                           cols = toks.i64();
        const auto                           nb   = toks.i64();
        std::vector<std::array<int64_t, 2>> bdims;
        std::vector<ivec>                    bdata;
        for (int64_t i = 0; i < nb; ++i)
        {
            const auto br = toks.i64();
            const auto bc = toks.i64();
            bdims.push_back({br, bc});
            bdata.push_back(toks.ints());
        }
        return op_stackmat(rows, cols, bdims, bdata);
    }
    if (op == "hist")
    {
        const auto rank = toks.i64();
        const auto ty   = toks.s();
        const auto k    = toks.i64();
        const auto n    = toks.i64();
        switch (rank)
        {
        case 1: return op_hist<1>(ty, k, n, toks);
        case 2: return op_hist<2>(ty, k, n, toks);
        case 3: return op_hist<3>(ty, k, n, toks);
        case 4: return op_hist<4>(ty, k, n, toks);
        case 5: return op_hist<5>(ty, k, n, toks);
        default: throw bad_op("rank");
        }
    }
    if (op == "range")
    {
        // range.h: make_range(b, e) observed through begin() / end() / size() / valid(n); any signed values (no assert involved)
        const auto b = toks.i64();
        const auto e = toks.i64();
        const auto n = toks.i64();
        const auto r = nano::make_range(static_cast<tensor_size_t>(b), static_cast<tensor_size_t>(e));
        out_t      out;
        out << "ok" << static_cast<long long>(r.begin()) << static_cast<long long>(r.end()) << static_cast<long long>(r.size())
            << (r.valid(static_cast<tensor_size_t>(n)) ? 1 : 0);
        return out.str();
    }
    if (op == "arange")
    {
        const auto lo = toks.i64();
        const auto hi = toks.i64();
        const auto v  = nano::arange(lo, hi);
        out_t      out;
        out << "ok" << v.size();
        for (tensor_size_t i = 0; i < v.size(); ++i) out << static_cast<long long>(v(i));
        return out.str();
    }
    const auto d = toks.ints();
    switch (d.size())
    {
    case 1: return dispatch<1>(op, toks, d);
    case 2: return dispatch<2>(op, toks, d);
    case 3: return dispatch<3>(op, toks, d);
    case 4: return dispatch<4>(op, toks, d);
    case 5: return dispatch<5>(op, toks, d);
    default: throw bad_op("rank");
    }
}

int main()
{
    return vh::main_loop();
}
