// C16 harness: tensor indexing / views / slices (all storages, range overload, rank-1 segment) / reshape (all storages) /
// gather (several return scalar types) / integral / remove_if / stack (vector and matrix form) on the real headers;
// assignments of views (slice, partial index, reshape; taken through the owning tensor, the const owning tensor, a map or
// a constant map of its buffer) to the very tensor they alias and to fresh / bigger / same-size / mapped destinations,
// writes through views, gathers into provided (re-used) outputs, and the integral for (input, output) scalar pairs.
#include "common.h"
#include <array>
#include <nano/tensor.h>
#include <nano/tensor/algorithm.h>
#include <nano/tensor/integral.h>
#include <nano/tensor/stack.h>
#include <type_traits>
#include <utility>

using namespace nano;
using vh::bad_op;
using vh::out_t;
using vh::toks_t;

namespace
{
using ivec = std::vector<int64_t>;

template <size_t trank>
tensor_dims_t<trank> to_dims(const ivec& d)
{
    tensor_dims_t<trank> dims;
    for (size_t i = 0; i < trank; ++i)
    {
        dims[i] = d[i];
    }
    return dims;
}

template <class tscalar, size_t trank>
tensor_mem_t<tscalar, trank> make_iota(const ivec& d)
{
    tensor_mem_t<tscalar, trank> t(to_dims<trank>(d));
    for (tensor_size_t i = 0; i < t.size(); ++i)
    {
        t(i) = static_cast<tscalar>(i % 100);
    }
    return t;
}

template <class ttensor>
void print_tensor(out_t& out, const ttensor& t)
{
    out << static_cast<long long>(ttensor::rank());
    for (const auto d : t.dims())
    {
        out << d;
    }
    out << t.size();
    for (tensor_size_t i = 0; i < t.size(); ++i)
    {
        out << static_cast<long long>(t(i));
    }
}

// call f(idx[0], ..., idx[K-1])
template <class tfun, size_t... I>
auto apply_idx(const tfun& f, const ivec& idx, std::index_sequence<I...>)
{
    return f(static_cast<tensor_size_t>(idx[I])...);
}

template <size_t K, class tfun>
auto call_with(const tfun& f, const ivec& idx)
{
    return apply_idx(f, idx, std::make_index_sequence<K>{});
}

// ---- offset -------------------------------------------------------------------------------------------
template <class tscalar, size_t trank>
std::string op_offset(const ivec& d, const ivec& idx)
{
    const auto t   = make_iota<tscalar, trank>(d);
    const auto off = call_with<trank>([&](auto... i) { return t.offset(i...); }, idx);
    const auto val = call_with<trank>([&](auto... i) { return t(i...); }, idx);
    out_t      out;
    out << "ok" << off << static_cast<long long>(val);
    return out.str();
}

// ---- partial-index views ------------------------------------------------------------------------------
template <class tscalar, size_t trank, size_t K>
std::string op_sub_k(const std::string& what, const ivec& d, const ivec& pre)
{
    const auto t = make_iota<tscalar, trank>(d);
    out_t      out;
    out << "ok";
    if constexpr (K == 0)
    {
        out << 0LL;
    }
    else
    {
        out << call_with<K>([&](auto... i) { return t.offset0(i...); }, pre);
    }
    if (what == "sub")
    {
        const auto s = call_with<K>([&](auto... i) { return t.tensor(i...); }, pre);
        // the view must alias the buffer of the tensor (no copy)
        const auto off = (K == 0) ? tensor_size_t{0} : (s.data() - t.data());
        out << off;
        print_tensor(out, s);
    }
    else if (what == "subvec")
    {
        const auto v = call_with<K>([&](auto... i) { return t.vector(i...); }, pre);
        out << static_cast<long long>(v.data() - t.data());
        out << 1 << static_cast<long long>(v.size()) << static_cast<long long>(v.size());
        for (Eigen::Index i = 0; i < v.size(); ++i)
        {
            out << static_cast<long long>(v(i));
        }
    }
    else if (what == "submat")
    {
        if constexpr (K + 2 == trank)
        {
            const auto m = call_with<K>([&](auto... i) { return t.matrix(i...); }, pre);
            out << static_cast<long long>(m.data() - t.data());
            out << 2 << static_cast<long long>(m.rows()) << static_cast<long long>(m.cols())
                << static_cast<long long>(m.size());
            for (Eigen::Index r = 0; r < m.rows(); ++r)
            {
                for (Eigen::Index c = 0; c < m.cols(); ++c)
                {
                    out << static_cast<long long>(m(r, c));
                }
            }
        }
        else
        {
            throw bad_op("submat needs rank-2 remainder");
        }
    }
    else
    {
        throw bad_op("unknown view");
    }
    return out.str();
}

template <class tscalar, size_t trank>
std::string op_sub(const std::string& what, const ivec& d, const ivec& pre)
{
    switch (pre.size())
    {
    case 0: return op_sub_k<tscalar, trank, 0>(what, d, pre);
    case 1:
        if constexpr (trank > 1)
        {
            return op_sub_k<tscalar, trank, 1>(what, d, pre);
        }
        break;
    case 2:
        if constexpr (trank > 2)
        {
            return op_sub_k<tscalar, trank, 2>(what, d, pre);
        }
        break;
    case 3:
        if constexpr (trank > 3)
        {
            return op_sub_k<tscalar, trank, 3>(what, d, pre);
        }
        break;
    case 4:
        if constexpr (trank > 4)
        {
            return op_sub_k<tscalar, trank, 4>(what, d, pre);
        }
        break;
    default: break;
    }
    throw bad_op("prefix too long");
}

template <size_t trank>
std::string op_sub_typed(const std::string& what, const std::string& type, const ivec& d, const ivec& pre)
{
    if (type == "i8") return op_sub<int8_t, trank>(what, d, pre);
    if (type == "i16") return op_sub<int16_t, trank>(what, d, pre);
    if (type == "i32") return op_sub<int32_t, trank>(what, d, pre);
    if (type == "i64") return op_sub<int64_t, trank>(what, d, pre);
    if (type == "u8") return op_sub<uint8_t, trank>(what, d, pre);
    if (type == "u16") return op_sub<uint16_t, trank>(what, d, pre);
    if (type == "u32") return op_sub<uint32_t, trank>(what, d, pre);
    if (type == "u64") return op_sub<uint64_t, trank>(what, d, pre);
    if (type == "f32") return op_sub<float, trank>(what, d, pre);
    if (type == "f64") return op_sub<double, trank>(what, d, pre);
    throw bad_op("type");
}

// ---- slice, gather, reshape, segment --------------------------------------------------------------------
// `how` selects the storage / overload the accessor is called on: the owning tensor ("mem", const: "cmem"),
// a mutable map ("map"), a constant map ("cmap"), or the tensor_range_t overload ("range").
template <size_t trank, class tfun>
std::string with_storage(const ivec& d, const std::string& how, const tfun& fun)
{
    auto                                t = make_iota<int64_t, trank>(d);
    const tensor_mem_t<int64_t, trank>& ct = t;
    tensor_map_t<int64_t, trank>        m  = t.tensor();
    tensor_cmap_t<int64_t, trank>       c  = m;
    if (how == "mem")
    {
        return fun(t, t.data());
    }
    if (how == "cmem")
    {
        return fun(ct, t.data());
    }
    if (how == "map")
    {
        return fun(m, t.data());
    }
    if (how == "cmap")
    {
        return fun(c, t.data());
    }
    throw bad_op("storage");
}

template <size_t trank>
std::string op_slice(const ivec& d, int64_t b, int64_t e, const std::string& how)
{
    const auto print = [&](const auto& s, const int64_t* base)
    {
        out_t out;
        out << "ok" << static_cast<long long>(s.data() - base);
        print_tensor(out, s);
        return out.str();
    };
    if (how == "range")
    {
        return with_storage<trank>(d, "mem", [&](auto& t, const int64_t* base)
                                   { return print(t.slice(make_range(b, e)), base); });
    }
    return with_storage<trank>(d, how, [&](auto& t, const int64_t* base) { return print(t.slice(b, e), base); });
}

std::string op_segment(const ivec& d, int64_t b, int64_t len, const std::string& how)
{
    return with_storage<1>(d, how,
                           [&](auto& t, const int64_t* base)
                           {
                               const auto v = t.segment(b, len);
                               out_t      out;
                               out << "ok" << static_cast<long long>(v.data() - base);
                               out << 1 << static_cast<long long>(v.size()) << static_cast<long long>(v.size());
                               for (Eigen::Index i = 0; i < v.size(); ++i)
                               {
                                   out << static_cast<long long>(v(i));
                               }
                               return out.str();
                           });
}

template <size_t trank, class treturn>
std::string op_gather_as(const ivec& d, const ivec& idx)
{
    const auto t = make_iota<int64_t, trank>(d);
    indices_t  indices(static_cast<tensor_size_t>(idx.size()));
    for (size_t i = 0; i < idx.size(); ++i)
    {
        indices(static_cast<tensor_size_t>(i)) = idx[i];
    }
    const tensor_mem_t<treturn, trank> s = t.template indexed<treturn>(indices);
    out_t                              out;
    out << "ok";
    print_tensor(out, s);
    return out.str();
}

template <size_t trank>
std::string op_gather(const ivec& d, const ivec& idx, const std::string& rtype)
{
    if (rtype == "i64") return op_gather_as<trank, int64_t>(d, idx);
    if (rtype == "i32") return op_gather_as<trank, int32_t>(d, idx);
    if (rtype == "i8") return op_gather_as<trank, int8_t>(d, idx);
    if (rtype == "u16") return op_gather_as<trank, uint16_t>(d, idx);
    if (rtype == "f32") return op_gather_as<trank, float>(d, idx);
    if (rtype == "f64") return op_gather_as<trank, double>(d, idx);
    throw bad_op("return type");
}

template <size_t trank, size_t K>
std::string op_reshape_k(const ivec& d, const ivec& sizes, const std::string& how)
{
    return with_storage<trank>(d, how,
                               [&](auto& t, const int64_t* base)
                               {
                                   const auto s = call_with<K>([&](auto... i) { return t.reshape(i...); }, sizes);
                                   out_t      out;
                                   out << "ok" << static_cast<long long>(s.data() - base);
                                   print_tensor(out, s);
                                   return out.str();
                               });
}

template <size_t trank>
std::string op_reshape(const ivec& d, const ivec& sizes, const std::string& how)
{
    switch (sizes.size())
    {
    case 1: return op_reshape_k<trank, 1>(d, sizes, how);
    case 2: return op_reshape_k<trank, 2>(d, sizes, how);
    case 3: return op_reshape_k<trank, 3>(d, sizes, how);
    case 4: return op_reshape_k<trank, 4>(d, sizes, how);
    case 5: return op_reshape_k<trank, 5>(d, sizes, how);
    default: throw bad_op("reshape rank");
    }
}

// ---- integral, remove_if, convert ---------------------------------------------------------------------
template <size_t trank>
std::string op_integral(const ivec& d, const ivec& data)
{
    tensor_mem_t<int64_t, trank> it(to_dims<trank>(d));
    tensor_mem_t<int64_t, trank> ot(to_dims<trank>(d));
    if (static_cast<size_t>(it.size()) != data.size())
    {
        throw bad_op("data size");
    }
    for (tensor_size_t i = 0; i < it.size(); ++i)
    {
        it(i) = data[static_cast<size_t>(i)];
    }
    ot.zero();
    nano::integral(it, ot);
    out_t out;
    out << "ok";
    print_tensor(out, ot);
    return out.str();
}

template <size_t trank>
std::string op_removeif(const ivec& d, const ivec& mask)
{
    auto       t    = make_iota<int64_t, trank>(d);
    const auto kept = nano::remove_if([&](const tensor_size_t i) { return mask[static_cast<size_t>(i)] != 0; }, t);
    out_t      out;
    out << "ok" << kept;
    tensor_size_t inner = 1;
    for (size_t i = 1; i < trank; ++i)
    {
        inner *= d[i];
    }
    out << kept * inner;
    for (tensor_size_t i = 0; i < kept * inner; ++i)
    {
        out << static_cast<long long>(t(i));
    }
    return out.str();
}

template <size_t trank>
std::string op_convert(const ivec& d)
{
    // owning -> mutable map -> constant map -> owning copy; contents and dims must be unchanged
    auto                          t = make_iota<int64_t, trank>(d);
    tensor_map_t<int64_t, trank>  m = t.tensor();
    tensor_cmap_t<int64_t, trank> c = m;
    tensor_mem_t<int64_t, trank>  copy{c};
    tensor_mem_t<int64_t, trank>  copy2;
    copy2 = m;
    const bool alias = (m.data() == t.data()) && (c.data() == t.data()) && (copy.data() != t.data() || t.size() == 0);
    const bool same  = (copy2.dims() == t.dims()) &&
                      (t.size() == 0 || std::equal(copy2.data(), copy2.data() + copy2.size(), t.data()));
    out_t out;
    out << "ok" << (alias ? 1 : 0) << (same ? 1 : 0);
    print_tensor(out, copy);
    return out.str();
}

std::string op_stackvec(int64_t n, const std::vector<ivec>& blocks)
{
    std::vector<tensor_mem_t<int64_t, 1>> bs;
    for (const auto& b : blocks)
    {
        tensor_mem_t<int64_t, 1> t(static_cast<tensor_size_t>(b.size()));
        for (size_t i = 0; i < b.size(); ++i)
        {
            t(static_cast<tensor_size_t>(i)) = b[i];
        }
        bs.push_back(t);
    }
    tensor_mem_t<int64_t, 1> v;
    switch (bs.size())
    {
    case 1: v = nano::stack<int64_t>(n, bs[0]); break;
    case 2: v = nano::stack<int64_t>(n, bs[0], bs[1]); break;
    case 3: v = nano::stack<int64_t>(n, bs[0], bs[1], bs[2]); break;
    case 4: v = nano::stack<int64_t>(n, bs[0], bs[1], bs[2], bs[3]); break;
    default: throw bad_op("stack arity");
    }
    out_t out;
    out << "ok" << v.size();
    for (tensor_size_t i = 0; i < v.size(); ++i)
    {
        out << v(i);
    }
    return out.str();
}

// matrix form of nano::stack: up to 4 rank-2 int64 blocks given in row-major fashion
std::string op_stackmat(int64_t rows, int64_t cols, const std::vector<std::array<int64_t, 2>>& bdims,
                        const std::vector<ivec>& bdata)
{
    std::vector<tensor_mem_t<int64_t, 2>> bs;
    for (size_t k = 0; k < bdims.size(); ++k)
    {
        tensor_mem_t<int64_t, 2> t(static_cast<tensor_size_t>(bdims[k][0]), static_cast<tensor_size_t>(bdims[k][1]));
        if (static_cast<size_t>(t.size()) != bdata[k].size())
        {
            throw bad_op("block data size");
        }
        for (tensor_size_t i = 0; i < t.size(); ++i)
        {
            t(i) = bdata[k][static_cast<size_t>(i)];
        }
        bs.push_back(t);
    }
    tensor_mem_t<int64_t, 2> m;
    switch (bs.size())
    {
    case 1: m = nano::stack<int64_t>(rows, cols, bs[0]); break;
    case 2: m = nano::stack<int64_t>(rows, cols, bs[0], bs[1]); break;
    case 3: m = nano::stack<int64_t>(rows, cols, bs[0], bs[1], bs[2]); break;
    case 4: m = nano::stack<int64_t>(rows, cols, bs[0], bs[1], bs[2], bs[3]); break;
    default: throw bad_op("stack arity");
    }
    out_t out;
    out << "ok" << m.rows() << m.cols() << m.size();
    for (tensor_size_t r = 0; r < m.rows(); ++r)
    {
        for (tensor_size_t c = 0; c < m.cols(); ++c)
        {
            out << m(r, c);
        }
    }
    return out.str();
}

// ---- assignments of views, writes through views, gathers into provided outputs, mixed-type integral ---------------
// The owner of these ops is filled with `offset + 1` (never 0, every element distinct for the sizes generated).
template <class tscalar, size_t trank>
tensor_mem_t<tscalar, trank> make_seq(const tensor_dims_t<trank>& dims)
{
    tensor_mem_t<tscalar, trank> t(dims);
    for (tensor_size_t i = 0; i < t.size(); ++i)
    {
        t(i) = static_cast<tscalar>(i + 1);
    }
    return t;
}

template <class ttensor>
bool is_seq(const ttensor& t)
{
    for (tensor_size_t i = 0; i < t.size(); ++i)
    {
        if (static_cast<long long>(t(i)) != static_cast<long long>(i + 1))
        {
            return false;
        }
    }
    return true;
}

// hands `fun` the object the accessor is called on: the owning tensor ("mem"), the same as const ("cmem"), a mutable
// map of its buffer ("map") or a constant map of its buffer ("cmap")
template <class tscalar, size_t trank, class tfun>
void via_call(tensor_mem_t<tscalar, trank>& t, const std::string& via, const tfun& fun)
{
    if (via == "mem")
    {
        fun(t);
    }
    else if (via == "cmem")
    {
        fun(std::as_const(t));
    }
    else if (via == "map")
    {
        tensor_map_t<tscalar, trank> m = t.tensor();
        fun(m);
    }
    else if (via == "cmap")
    {
        tensor_cmap_t<tscalar, trank> c = std::as_const(t).tensor();
        fun(c);
    }
    else
    {
        throw bad_op("via");
    }
}

// `destination = view` for a destination that does not share memory with the view; prints the destination
template <class tview>
void assign_other(out_t& out, const tview& view, const std::string& dst)
{
    using tscalar            = std::remove_cv_t<std::remove_pointer_t<decltype(view.data())>>;
    constexpr auto vrank     = tview::rank();
    using tmem               = tensor_mem_t<tscalar, vrank>;
    const auto     junk      = static_cast<tscalar>(-7);
    if (dst == "fresh")
    {
        tmem x;
        x = view;
        print_tensor(out, x);
    }
    else if (dst == "ctor")
    {
        const tmem x{view};
        print_tensor(out, x);
    }
    else if (dst == "big")
    {
        auto dims = view.dims();
        for (auto& dim : dims)
        {
            dim += 2;
        }
        tmem x(dims);
        x.full(junk);
        x = view;
        print_tensor(out, x);
    }
    else if (dst == "same")
    {
        // same number of elements, other dimensions: the assignment must re-dimension without re-allocating
        auto dims = view.dims();
        for (auto& dim : dims)
        {
            dim = 1;
        }
        dims[vrank - 1] = view.size();
        tmem x(dims);
        x.full(junk);
        x = view;
        print_tensor(out, x);
    }
    else if (dst == "omap")
    {
        // a mutable map over another owning tensor of the view's shape: element-wise copy into the mapped memory
        tmem back(view.dims());
        back.full(junk);
        tensor_map_t<tscalar, vrank> m = back.tensor();
        m                              = view;
        print_tensor(out, back);
    }
    else
    {
        throw bad_op("destination");
    }
}

template <class tscalar, size_t trank>
std::string op_aslice(const ivec& d, int64_t b, int64_t e, const std::string& via, const std::string& dst)
{
    const auto dims = to_dims<trank>(d);
    auto       t    = make_seq<tscalar, trank>(dims);
    out_t      out;
    out << "ok";
    if (dst == "self")
    {
        // the view aliases the very tensor that is assigned to
        if (via == "range")
        {
            t = t.slice(make_range(b, e));
        }
        else
        {
            via_call(t, via, [&](auto& x) { t = x.slice(b, e); });
        }
        out << 1;
        print_tensor(out, t);
    }
    else
    {
        out_t res;
        if (via == "range")
        {
            assign_other(res, t.slice(make_range(b, e)), dst);
        }
        else
        {
            via_call(t, via, [&](auto& x) { assign_other(res, x.slice(b, e), dst); });
        }
        out << ((t.dims() == dims && is_seq(t)) ? 1 : 0);
        out.raw(res.str());
    }
    return out.str();
}

template <class tscalar, size_t trank>
std::string op_areshape(const ivec& d, const ivec& sizes, const std::string& via, const std::string& dst)
{
    if (sizes.size() != trank)
    {
        throw bad_op("areshape keeps the rank");
    }
    const auto dims = to_dims<trank>(d);
    auto       t    = make_seq<tscalar, trank>(dims);
    out_t      out;
    out << "ok";
    const auto view_of = [&](auto& x) { return call_with<trank>([&](auto... s) { return x.reshape(s...); }, sizes); };
    if (dst == "self")
    {
        via_call(t, via, [&](auto& x) { t = view_of(x); });
        out << 1;
        print_tensor(out, t);
    }
    else
    {
        out_t res;
        via_call(t, via, [&](auto& x) { assign_other(res, view_of(x), dst); });
        out << ((t.dims() == dims && is_seq(t)) ? 1 : 0);
        out.raw(res.str());
    }
    return out.str();
}

template <class tscalar, size_t trank, size_t K>
std::string op_asub_k(const ivec& d, const ivec& pre, const std::string& via, const std::string& dst)
{
    constexpr size_t vrank = trank - K;
    const auto       dims  = to_dims<trank>(d);
    out_t            out;
    out << "ok";
    if (dst == "self")
    {
        // the assigned tensor has the rank of the view and owns the whole buffer (dims (n, 1, …)); the view is taken
        // through a reshape of that buffer to the op's dims: owner = owner.reshape(dims…).tensor(prefix…)
        tensor_dims_t<vrank> odims;
        for (auto& dim : odims)
        {
            dim = 1;
        }
        odims[0] = nano::size(dims);
        auto o   = make_seq<tscalar, vrank>(odims);
        via_call(o, via,
                 [&](auto& x)
                 {
                     const auto r = call_with<trank>([&](auto... s) { return x.reshape(s...); }, d);
                     o            = call_with<K>([&](auto... i) { return r.tensor(i...); }, pre);
                 });
        out << 1;
        print_tensor(out, o);
    }
    else
    {
        auto  t = make_seq<tscalar, trank>(dims);
        out_t res;
        via_call(t, via,
                 [&](auto& x) { assign_other(res, call_with<K>([&](auto... i) { return x.tensor(i...); }, pre), dst); });
        out << ((t.dims() == dims && is_seq(t)) ? 1 : 0);
        out.raw(res.str());
    }
    return out.str();
}

template <class tscalar, size_t trank, size_t K>
std::string op_wsub_k(const ivec& d, const ivec& pre, const std::string& kind)
{
    auto t = make_seq<tscalar, trank>(to_dims<trank>(d));
    if (kind == "tensor")
    {
        auto v = call_with<K>([&](auto... i) { return t.tensor(i...); }, pre);
        for (tensor_size_t j = 0; j < v.size(); ++j)
        {
            v(j) = static_cast<tscalar>(-(j + 1));
        }
    }
    else if (kind == "vector")
    {
        auto v = call_with<K>([&](auto... i) { return t.vector(i...); }, pre);
        for (Eigen::Index j = 0; j < v.size(); ++j)
        {
            v(j) = static_cast<tscalar>(-(j + 1));
        }
    }
    else if (kind == "array")
    {
        auto v = call_with<K>([&](auto... i) { return t.array(i...); }, pre);
        for (Eigen::Index j = 0; j < v.size(); ++j)
        {
            v(j) = static_cast<tscalar>(-(j + 1));
        }
    }
    else if (kind == "matrix")
    {
        if constexpr (K + 2 == trank)
        {
            auto m = call_with<K>([&](auto... i) { return t.matrix(i...); }, pre);
            for (Eigen::Index r = 0; r < m.rows(); ++r)
            {
                for (Eigen::Index c = 0; c < m.cols(); ++c)
                {
                    m(r, c) = static_cast<tscalar>(-(r * m.cols() + c + 1));
                }
            }
        }
        else
        {
            throw bad_op("matrix needs rank-2 remainder");
        }
    }
    else
    {
        throw bad_op("view kind");
    }
    out_t out;
    out << "ok";
    print_tensor(out, t);
    return out.str();
}

// dispatch on the length of the index prefix
template <class tscalar, size_t trank, class tfun>
std::string by_prefix(const ivec& pre, const tfun& fun)
{
    switch (pre.size())
    {
    case 0: return fun(std::integral_constant<size_t, 0>{});
    case 1:
        if constexpr (trank > 1)
        {
            return fun(std::integral_constant<size_t, 1>{});
        }
        break;
    case 2:
        if constexpr (trank > 2)
        {
            return fun(std::integral_constant<size_t, 2>{});
        }
        break;
    case 3:
        if constexpr (trank > 3)
        {
            return fun(std::integral_constant<size_t, 3>{});
        }
        break;
    default: break;
    }
    throw bad_op("prefix too long");
}

template <class tscalar, size_t trank>
std::string op_wslice(const ivec& d, int64_t b, int64_t e, const std::string& how)
{
    auto       t     = make_seq<tscalar, trank>(to_dims<trank>(d));
    const auto write = [](auto v)
    {
        for (tensor_size_t j = 0; j < v.size(); ++j)
        {
            v(j) = static_cast<tscalar>(-(j + 1));
        }
    };
    if (how == "mem")
    {
        write(t.slice(b, e));
    }
    else if (how == "map")
    {
        tensor_map_t<tscalar, trank> m = t.tensor();
        write(m.slice(b, e));
    }
    else if (how == "range")
    {
        write(t.slice(make_range(b, e)));
    }
    else
    {
        throw bad_op("how");
    }
    out_t out;
    out << "ok";
    print_tensor(out, t);
    return out.str();
}

template <size_t trank>
std::string op_gatherinto(const ivec& d, const ivec& idx, const ivec& odims, const std::string& mode)
{
    if (odims.size() != trank)
    {
        throw bad_op("output rank");
    }
    const auto t    = make_iota<int64_t, trank>(d);
    const auto make = [](const ivec& v)
    {
        indices_t indices(static_cast<tensor_size_t>(v.size()));
        for (size_t i = 0; i < v.size(); ++i)
        {
            indices(static_cast<tensor_size_t>(i)) = v[i];
        }
        return indices;
    };
    const auto                   indices = make(idx);
    tensor_mem_t<int64_t, trank> out_tensor(to_dims<trank>(odims));
    out_tensor.full(-7);
    if (mode == "map")
    {
        // the overload writing into mapped memory of exactly the right shape
        t.indexed(indices, out_tensor.tensor());
    }
    else if (mode == "mem")
    {
        t.indexed(indices, out_tensor);
    }
    else if (mode == "twice")
    {
        // the same output re-used: first a gather of twice as many sub-tensors, then the requested one
        auto twice = idx;
        twice.insert(twice.end(), idx.begin(), idx.end());
        t.indexed(make(twice), out_tensor);
        t.indexed(indices, out_tensor);
    }
    else
    {
        throw bad_op("mode");
    }
    out_t out;
    out << "ok";
    print_tensor(out, out_tensor);
    return out.str();
}

template <class tscalari, class tscalaro, size_t trank>
std::string op_integralx(const ivec& d, const ivec& data)
{
    tensor_mem_t<tscalari, trank> it(to_dims<trank>(d));
    tensor_mem_t<tscalaro, trank> ot(to_dims<trank>(d));
    if (static_cast<size_t>(it.size()) != data.size())
    {
        throw bad_op("data size");
    }
    for (tensor_size_t i = 0; i < it.size(); ++i)
    {
        it(i) = static_cast<tscalari>(data[static_cast<size_t>(i)]);
        if (static_cast<int64_t>(it(i)) != data[static_cast<size_t>(i)])
        {
            throw bad_op("value not representable in the input scalar type");
        }
    }
    ot.zero();
    nano::integral(it, ot);
    out_t out;
    out << "ok";
    print_tensor(out, ot);
    return out.str();
}

template <class tscalari, size_t trank>
std::string op_integralx_o(const std::string& oty, const ivec& d, const ivec& data)
{
    if (oty == "i32") return op_integralx<tscalari, int32_t, trank>(d, data);
    if (oty == "i64") return op_integralx<tscalari, int64_t, trank>(d, data);
    if (oty == "f64") return op_integralx<tscalari, double, trank>(d, data);
    throw bad_op("output scalar type");
}

template <size_t trank>
std::string op_integralx_io(const std::string& ity, const std::string& oty, const ivec& d, const ivec& data)
{
    if (ity == "i8") return op_integralx_o<int8_t, trank>(oty, d, data);
    if (ity == "u8") return op_integralx_o<uint8_t, trank>(oty, d, data);
    if (ity == "i16") return op_integralx_o<int16_t, trank>(oty, d, data);
    if (ity == "i32") return op_integralx_o<int32_t, trank>(oty, d, data);
    if (ity == "f32" && oty == "f64") return op_integralx<float, double, trank>(d, data);
    throw bad_op("input scalar type");
}

// aslice / asub / areshape / wsub / wslice for one element type of the owner
template <class tscalar, size_t trank>
std::string dispatch_typed(const std::string& op, toks_t& toks, const ivec& d)
{
    if (op == "aslice")
    {
        const auto b   = toks.i64();
        const auto e   = toks.i64();
        const auto via = toks.s();
        const auto dst = toks.s();
        return op_aslice<tscalar, trank>(d, b, e, via, dst);
    }
    if (op == "areshape")
    {
        const auto sizes = toks.ints();
        const auto via   = toks.s();
        const auto dst   = toks.s();
        return op_areshape<tscalar, trank>(d, sizes, via, dst);
    }
    if (op == "asub")
    {
        const auto pre = toks.ints();
        const auto via = toks.s();
        const auto dst = toks.s();
        return by_prefix<tscalar, trank>(pre, [&](auto k)
                                         { return op_asub_k<tscalar, trank, decltype(k)::value>(d, pre, via, dst); });
    }
    if (op == "wsub")
    {
        const auto pre  = toks.ints();
        const auto kind = toks.s();
        return by_prefix<tscalar, trank>(pre, [&](auto k)
                                         { return op_wsub_k<tscalar, trank, decltype(k)::value>(d, pre, kind); });
    }
    if (op == "wslice")
    {
        const auto b   = toks.i64();
        const auto e   = toks.i64();
        const auto how = toks.s();
        return op_wslice<tscalar, trank>(d, b, e, how);
    }
    throw bad_op("unknown op " + op);
}

template <size_t trank>
std::string dispatch(const std::string& op, toks_t& toks, const ivec& d)
{
    if (op == "aslice" || op == "areshape" || op == "asub" || op == "wsub" || op == "wslice")
    {
        if constexpr (trank <= 4)
        {
            // the element type is the last token of the line
            const auto type = toks.t.back();
            if (type == "i64") return dispatch_typed<int64_t, trank>(op, toks, d);
            if (type == "i32") return dispatch_typed<int32_t, trank>(op, toks, d);
            if (type == "i16") return dispatch_typed<int16_t, trank>(op, toks, d);
            throw bad_op("type");
        }
        throw bad_op("rank above 4");
    }
    if (op == "gatherinto")
    {
        const auto idx   = toks.ints();
        const auto odims = toks.ints();
        return op_gatherinto<trank>(d, idx, odims, toks.s());
    }
    if (op == "integralx")
    {
        if constexpr (trank <= 4)
        {
            const auto ity = toks.s();
            const auto oty = toks.s();
            return op_integralx_io<trank>(ity, oty, d, toks.ints());
        }
        throw bad_op("rank above 4");
    }
    if (op == "offset")
    {
        const auto idx = toks.ints();
        if (idx.size() != trank)
        {
            throw bad_op("index rank");
        }
        return op_offset<int64_t, trank>(d, idx);
    }
    if (op == "sub" || op == "subvec" || op == "submat")
    {
        const auto pre  = toks.ints();
        const auto type = toks.s();
        return op_sub_typed<trank>(op, type, d, pre);
    }
    if (op == "slice")
    {
        const auto b = toks.i64();
        const auto e = toks.i64();
        return op_slice<trank>(d, b, e, toks.done() ? std::string("mem") : toks.s());
    }
    if (op == "segment")
    {
        if constexpr (trank == 1)
        {
            const auto b   = toks.i64();
            const auto len = toks.i64();
            return op_segment(d, b, len, toks.done() ? std::string("mem") : toks.s());
        }
        throw bad_op("segment needs rank 1");
    }
    if (op == "gather")
    {
        const auto idx = toks.ints();
        return op_gather<trank>(d, idx, toks.done() ? std::string("i64") : toks.s());
    }
    if (op == "reshape")
    {
        const auto sizes = toks.ints();
        return op_reshape<trank>(d, sizes, toks.done() ? std::string("mem") : toks.s());
    }
    if (op == "integral")
    {
        return op_integral<trank>(d, toks.ints());
    }
    if (op == "removeif")
    {
        return op_removeif<trank>(d, toks.ints());
    }
    if (op == "convert")
    {
        return op_convert<trank>(d);
    }
    throw bad_op("unknown op " + op);
}
} // namespace

std::string vh::execute(toks_t& toks, std::string&)
{
    const auto fam = toks.s();
    if (fam != "tensor")
    {
        throw bad_op("family");
    }
    const auto op = toks.s();
    if (op == "stackvec")
    {
        const auto        n  = toks.i64();
        const auto        nb = toks.i64();
        std::vector<ivec> blocks;
        for (int64_t i = 0; i < nb; ++i)
        {
            blocks.push_back(toks.ints());
        }
        return op_stackvec(n, blocks);
    }
    if (op == "stackmat")
    {
        const auto                           rows = toks.i64();
        const auto                           cols = toks.i64();
        const auto                           nb   = toks.i64();
        std::vector<std::array<int64_t, 2>> bdims;
        std::vector<ivec>                    bdata;
        for (int64_t i = 0; i < nb; ++i)
        {
            const auto br = toks.i64();
            const auto bc = toks.i64();
            bdims.push_back({br, bc});
            bdata.push_back(toks.ints());
        }
        return op_stackmat(rows, cols, bdims, bdata);
    }
    const auto d = toks.ints();
    switch (d.size())
    {
    case 1: return dispatch<1>(op, toks, d);
    case 2: return dispatch<2>(op, toks, d);
    case 3: return dispatch<3>(op, toks, d);
    case 4: return dispatch<4>(op, toks, d);
    case 5: return dispatch<5>(op, toks, d);
    default: throw bad_op("rank");
    }
}

int main()
{
    return vh::main_loop();
}
