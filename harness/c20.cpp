// C20 harness: percentile / percentile_sorted / median / median_sorted, histogram_t (all constructors, counts, means,
// medians, bin(v)) and ml::store_stats on the real code. One self-contained op per line (family `stats`).
#include "common.h"
#include <algorithm>
#include <nano/core/histogram.h>
#include <nano/core/stats.h>
#include <nano/machine/stats.h>

using namespace nano;
using vh::bad_op;
using vh::out_t;
using vh::toks_t;

namespace
{
using dvec = std::vector<double>;

bool is_integral(const double x)
{
    return std::floor(x) == x && std::fabs(x) < 1.0e15;
}

template <class tvector>
tvector convert(const dvec& values)
{
    tvector v(values.size());
    for (size_t i = 0; i < values.size(); ++i)
    {
        if (!is_integral(values[i]) && std::is_integral_v<typename tvector::value_type>)
        {
            throw bad_op("non-integer value for an integer container");
        }
        v[i] = static_cast<typename tvector::value_type>(values[i]);
        // float containers: only values a float holds exactly (the model keeps them as doubles)
        if (static_cast<double>(v[i]) != values[i])
        {
            throw bad_op("value not representable in the container's value type");
        }
    }
    return v;
}

tensor_mem_t<scalar_t, 1> to_tensor(const dvec& values)
{
    tensor_mem_t<scalar_t, 1> t(static_cast<tensor_size_t>(values.size()));
    for (size_t i = 0; i < values.size(); ++i)
    {
        t(static_cast<tensor_size_t>(i)) = values[i];
    }
    return t;
}

template <class tcontainer>
double call_percentile(const std::string& kind, tcontainer values, const double p, dvec* post = nullptr)
{
    if (kind == "positional")
    {
        // percentile_sorted on a range that is NOT sorted: the precondition is only an assert (compiled out); the code reads
        // the two positions as they are (replay of the necessity witness `sorted_precondition_necessary`)
        return percentile_sorted(std::begin(values), std::end(values), p);
    }
    if (kind == "sorted")
    {
        // precondition of percentile_sorted (its assert is compiled out): the generator sends sorted lists only
        if (!std::is_sorted(std::begin(values), std::end(values)))
        {
            throw bad_op("percentile_sorted needs a sorted range");
        }
        return percentile_sorted(std::begin(values), std::end(values), p);
    }
    if (kind == "unsorted")
    {
        const auto r = percentile(std::begin(values), std::end(values), p);
        if (post != nullptr)
        {
            // the caller's range as the (one or two) nth_element calls left it: the python monitor checks the contract
            post->clear();
            for (auto it = std::begin(values); it != std::end(values); ++it)
            {
                post->push_back(static_cast<double>(*it));
            }
        }
        return r;
    }
    throw bad_op("kind");
}

double op_pct(const std::string& kind, const std::string& type, const dvec& values, const double p, dvec* post = nullptr)
{
    if (values.empty() || !(p >= 0.0 && p <= 100.0))
    {
        throw bad_op("outside the asserted domain");
    }
    if (type == "d") return call_percentile(kind, values, p, post);
    if (type == "f") return call_percentile(kind, convert<std::vector<float>>(values), p, post);
    if (type == "i") return call_percentile(kind, convert<std::vector<int>>(values), p, post);
    if (type == "l") return call_percentile(kind, convert<std::vector<int64_t>>(values), p, post);
    if (type == "t") return call_percentile(kind, to_tensor(values), p, post);
    throw bad_op("type");
}

template <class tcontainer>
std::pair<double, double> call_median(tcontainer values)
{
    auto         copy = values;
    const double m1   = median(std::begin(copy), std::end(copy));
    std::sort(std::begin(values), std::end(values));
    const double m2 = median_sorted(std::begin(values), std::end(values));
    return {m1, m2};
}

std::pair<double, double> op_median(const std::string& type, const dvec& values)
{
    if (values.empty())
    {
        throw bad_op("empty");
    }
    if (type == "d") return call_median(values);
    if (type == "f") return call_median(convert<std::vector<float>>(values));
    if (type == "i") return call_median(convert<std::vector<int>>(values));
    if (type == "l") return call_median(convert<std::vector<int64_t>>(values));
    if (type == "t") return call_median(to_tensor(values));
    throw bad_op("type");
}

std::string print_hist(const histogram_t& h, const dvec& queries)
{
    out_t out;
    out << "ok";
    out.flist(h.thresholds());
    out.ilist(h.counts());
    out.flist(h.means());
    out.flist(h.medians());
    // the accessor variants must agree with the tensors
    for (tensor_size_t b = 0; b < h.bins(); ++b)
    {
        const auto same = [](double x, double y) { return (std::isnan(x) && std::isnan(y)) || x == y; };
        if (h.count(b) != h.counts()(b) || !same(h.mean(b), h.means()(b)) || !same(h.median(b), h.medians()(b)))
        {
            return "ok accessor-mismatch";
        }
    }
    std::vector<tensor_size_t> qd;
    std::vector<tensor_size_t> qi;
    for (const auto q : queries)
    {
        qd.push_back(h.bin(q));
        if (is_integral(q))
        {
            // the unit tests query with integers: go through the integer instantiations as well
            const auto b1 = h.bin(static_cast<int64_t>(q));
            const auto b2 = (std::fabs(q) < 2.0e9) ? h.bin(static_cast<int>(q)) : b1;
            qi.push_back(b1 == b2 ? b1 : tensor_size_t{-1});
        }
    }
    out.ilist(qd);
    out.ilist(qi);
    return out.str();
}

std::string append_list(const std::string& line, const tensor_mem_t<scalar_t, 1>& values)
{
    out_t out;
    out << line << "aug";
    out.flist(values);
    return out.str();
}
} // namespace

std::string vh::execute(toks_t& toks, std::string& aug)
{
    const auto line = aug;
    const auto fam  = toks.s();
    if (fam != "stats")
    {
        throw bad_op("family");
    }
    const auto op = toks.s();
    if (op == "pct")
    {
        const auto kind   = toks.s();
        const auto type   = toks.s();
        const auto values = toks.fs();
        const auto p      = toks.f();
        dvec       post;
        const auto r = op_pct(kind, type, values, p, &post);
        if (kind == "unsorted")
        {
            out_t a;
            a << line << "post";
            a.flist(post);
            aug = a.str();
        }
        out_t out;
        out << "ok" << r;
        return out.str();
    }
    if (op == "grid")
    {
        // the (p, n) grid of positions: percentages k / den, k = 0 .. 100 den, on the list 0 .. n-1 (reversed for `unsorted`):
        // the answer reveals floor and ceil of the position computed in double
        const auto kind = toks.s();
        const auto type = toks.s();
        const auto n    = toks.i64();
        const auto den  = toks.i64();
        if (n < 1 || n > 100000 || den < 1 || den > 1024 || kind == "positional")
        {
            throw bad_op("grid");
        }
        dvec values(static_cast<size_t>(n));
        for (int64_t i = 0; i < n; ++i)
        {
            values[static_cast<size_t>(i)] = static_cast<double>(kind == "unsorted" ? n - 1 - i : i);
        }
        dvec results;
        for (int64_t k = 0; k <= 100 * den; ++k)
        {
            results.push_back(op_pct(kind, type, values, static_cast<double>(k) / static_cast<double>(den)));
        }
        out_t out;
        out << "ok";
        out.flist(results);
        return out.str();
    }
    if (op == "linspaced")
    {
        const auto kind = toks.s();
        const auto bins = toks.i64();
        if (bins < 2 || bins > 100000)
        {
            throw bad_op("assert(bins > 1)");
        }
        out_t out;
        out << "ok";
        if (kind == "ratios")
        {
            out.flist(make_equidistant_ratios(bins));
        }
        else if (kind == "pcts")
        {
            out.flist(make_equidistant_percentiles(bins));
        }
        else
        {
            throw bad_op("kind");
        }
        return out.str();
    }
    if (op == "median")
    {
        const auto type   = toks.s();
        const auto values = toks.fs();
        const auto [a, b] = op_median(type, values);
        out_t out;
        out << "ok" << a << b;
        return out.str();
    }
    if (op == "hist")
    {
        const auto ctor   = toks.s();
        auto       values = toks.fs();
        // the histogram is a template over the iterator: integer-valued lists are also handed over in an integer container
        // (every third one, by length), the thresholds stay reals - the counting rule must not depend on the value type
        const auto as_int = values.size() % 3 == 1 && std::all_of(values.begin(), values.end(), is_integral);
        auto       ivalues = as_int ? convert<std::vector<int64_t>>(values) : std::vector<int64_t>{};
        // ... and, every third list again, in a NARROW integer container when every value fits: the bins' sums (30 values of size
        // 10 leave int8, 3000 leave int16) must still be accumulated in the scalar type (seeded change C20-h1)
        const auto fits = [&](const double lim)
        { return std::all_of(values.begin(), values.end(), [&](const double v) { return is_integral(v) && std::fabs(v) <= lim; }); };
        if (values.size() % 3 == 2 && ctor == "thr" && fits(127.0))
        {
            const auto thr     = toks.fs();
            const auto queries = toks.fs();
            if (thr.empty())
            {
                throw bad_op("assert(m_thresholds.size() > 0)");
            }
            if (values.size() % 2 == 0)
            {
                auto       v8 = convert<std::vector<int8_t>>(values);
                const auto h  = histogram_t::make_from_thresholds(v8.begin(), v8.end(), to_tensor(thr));
                return print_hist(h, queries);
            }
            auto       v16 = convert<std::vector<int16_t>>(values);
            const auto h   = histogram_t::make_from_thresholds(v16.begin(), v16.end(), to_tensor(thr));
            return print_hist(h, queries);
        }
        if (ctor == "thr")
        {
            const auto thr     = toks.fs();
            const auto queries = toks.fs();
            if (thr.empty())
            {
                throw bad_op("assert(m_thresholds.size() > 0)");
            }
            const auto h = as_int ? histogram_t::make_from_thresholds(ivalues.begin(), ivalues.end(), to_tensor(thr))
                                  : histogram_t::make_from_thresholds(values.begin(), values.end(), to_tensor(thr));
            return print_hist(h, queries);
        }
        if (ctor == "ratios" || ctor == "pcts")
        {
            auto       args    = toks.fs();
            const auto queries = toks.fs();
            const auto hi      = (ctor == "ratios") ? 1.0 : 100.0;
            if (values.empty() || args.empty() || !(*std::min_element(args.begin(), args.end()) > 0.0) ||
                !(*std::max_element(args.begin(), args.end()) < hi))
            {
                throw bad_op("outside the asserted domain");
            }
            if (as_int)
            {
                const auto h = (ctor == "ratios")
                                 ? histogram_t::make_from_ratios(ivalues.begin(), ivalues.end(), to_tensor(args))
                                 : histogram_t::make_from_percentiles(ivalues.begin(), ivalues.end(), to_tensor(args));
                return print_hist(h, queries);
            }
            const auto h = (ctor == "ratios")
                             ? histogram_t::make_from_ratios(values.begin(), values.end(), to_tensor(args))
                             : histogram_t::make_from_percentiles(values.begin(), values.end(), to_tensor(args));
            return print_hist(h, queries);
        }
        if (ctor == "eqratios" || ctor == "eqpcts")
        {
            const auto bins    = toks.i64();
            const auto queries = toks.fs();
            if (values.empty() || bins < 2)
            {
                throw bad_op("outside the asserted domain");
            }
            if (ctor == "eqratios")
            {
                aug          = append_list(line, make_equidistant_ratios(bins));
                const auto h = histogram_t::make_from_ratios(values.begin(), values.end(), bins);
                return print_hist(h, queries);
            }
            else
            {
                aug          = append_list(line, make_equidistant_percentiles(bins));
                const auto h = histogram_t::make_from_percentiles(values.begin(), values.end(), bins);
                return print_hist(h, queries);
            }
        }
        if (ctor == "exp")
        {
            const auto base    = toks.f();
            const auto epsilon = toks.f();
            const auto queries = toks.fs();
            if (values.empty() || !(base > 1.0) || !(epsilon > 0.0))
            {
                throw bad_op("outside the asserted domain");
            }
            const auto h = histogram_t::make_from_exponents(values.begin(), values.end(), base, epsilon);
            aug          = append_list(line, h.thresholds());
            return print_hist(h, queries);
        }
        throw bad_op("constructor");
    }
    if (op == "store")
    {
        auto values = toks.fs();
        if (values.empty())
        {
            throw bad_op("empty");
        }
        auto                      tvalues = to_tensor(values);
        tensor_mem_t<scalar_t, 1> stats(12);
        stats.full(-1.0);
        ml::store_stats(tvalues.tensor(), stats.tensor());
        const auto loaded = ml::load_stats(stats.tensor());
        const dvec fields = {loaded.m_mean,  loaded.m_stdev, loaded.m_count, loaded.m_per01,
                             loaded.m_per05, loaded.m_per10, loaded.m_per20, loaded.m_per50,
                             loaded.m_per80, loaded.m_per90, loaded.m_per95, loaded.m_per99};
        for (tensor_size_t i = 0; i < 12; ++i)
        {
            const auto a = stats(i);
            const auto b = fields[static_cast<size_t>(i)];
            if (!((std::isnan(a) && std::isnan(b)) || a == b))
            {
                return "ok load-mismatch";
            }
        }
        // the fields of stats_t in declaration order (equal to the slots, checked above)
        out_t out;
        out << "ok";
        out.flist(fields);
        return out.str();
    }
    throw bad_op("unknown op " + op);
}

int main()
{
    return vh::main_loop();
}
