// Common parts of the C++ harnesses: they execute one self-contained op per input line on the real libnano
// code (in-process) and print, per op, `A <augmented op>` (the op handed to the Lean model: the input line plus
// any oracle answers obtained from the implementation, e.g. the permutation std::shuffle produced) and
// `R <canonical result>`. Doubles travel as 16 hex digits of their bit pattern; NaN as `nan`.
#pragma once

#include <cmath>
#include <cstdint>
#include <cstdio>
#include <cstring>
#include <exception>
#include <iostream>
#include <new>
#include <sstream>
#include <stdexcept>
#include <string>
#include <vector>

namespace vh
{
struct bad_op : std::runtime_error
{
    using std::runtime_error::runtime_error;
};

inline std::string f2h(double x)
{
    if (std::isnan(x))
    {
        return "nan";
    }
    uint64_t u;
    std::memcpy(&u, &x, 8);
    char buf[32];
    std::snprintf(buf, sizeof(buf), "%016llx", static_cast<unsigned long long>(u));
    return buf;
}

inline double h2f(const std::string& s)
{
    if (s == "nan")
    {
        return std::nan("");
    }
    if (s.size() != 16)
    {
        throw bad_op("bad double " + s);
    }
    const uint64_t u = std::stoull(s, nullptr, 16);
    double         x;
    std::memcpy(&x, &u, 8);
    return x;
}

struct toks_t
{
    std::vector<std::string> t;
    size_t                   i = 0;

    explicit toks_t(const std::string& line)
    {
        std::istringstream is(line);
        std::string        w;
        while (is >> w)
        {
            t.push_back(w);
        }
    }

    bool done() const { return i >= t.size(); }

    const std::string& s()
    {
        if (i >= t.size())
        {
            throw bad_op("missing token");
        }
        return t[i++];
    }

    int64_t i64()
    {
        const auto& w = s();
        size_t      pos = 0;
        const auto  v   = std::stoll(w, &pos);
        if (pos != w.size())
        {
            throw bad_op("bad int " + w);
        }
        return v;
    }

    double f() { return h2f(s()); }

    std::vector<int64_t> ints()
    {
        const auto           n = i64();
        std::vector<int64_t> v;
        for (int64_t k = 0; k < n; ++k)
        {
            v.push_back(i64());
        }
        return v;
    }

    std::vector<double> fs()
    {
        const auto          n = i64();
        std::vector<double> v;
        for (int64_t k = 0; k < n; ++k)
        {
            v.push_back(f());
        }
        return v;
    }
};

struct out_t
{
    std::ostringstream os;
    bool               first = true;

    out_t& raw(const std::string& s)
    {
        if (!first)
        {
            os << ' ';
        }
        first = false;
        os << s;
        return *this;
    }

    out_t& operator<<(const std::string& s) { return raw(s); }

    out_t& operator<<(const char* s) { return raw(s); }

    template <class tint, std::enable_if_t<std::is_integral_v<tint>, bool> = true>
    out_t& operator<<(tint v)
    {
        return raw(std::to_string(static_cast<long long>(v)));
    }

    out_t& operator<<(double v) { return raw(f2h(v)); }

    template <class tvec>
    out_t& ilist(const tvec& v)
    {
        *this << static_cast<long long>(v.size());
        for (const auto& x : v)
        {
            *this << static_cast<long long>(x);
        }
        return *this;
    }

    template <class tvec>
    out_t& flist(const tvec& v)
    {
        *this << static_cast<long long>(v.size());
        for (const auto& x : v)
        {
            *this << static_cast<double>(x);
        }
        return *this;
    }

    std::string str() const { return os.str(); }
};

// the harness implements this: executes the op, may set `aug` (default: the input line), returns the result
std::string execute(toks_t& toks, std::string& aug);

inline int main_loop()
{
    std::ios::sync_with_stdio(false);
    std::string line;
    while (std::getline(std::cin, line))
    {
        if (line.empty())
        {
            continue;
        }
        std::string aug = line;
        std::string res;
        try
        {
            toks_t toks(line);
            res = execute(toks, aug);
        }
        catch (const bad_op& e)
        {
            res = std::string("bad-op ") + e.what();
        }
        catch (const std::bad_alloc&)
        {
            res = "throw bad_alloc";
        }
        catch (const std::out_of_range&)
        {
            res = "throw out_of_range";
        }
        catch (const std::invalid_argument&)
        {
            res = "throw invalid_argument";
        }
        catch (const std::runtime_error&)
        {
            res = "throw critical";
        }
        catch (const std::exception&)
        {
            res = "throw other";
        }
        std::cout << "A " << aug << "\n"
                  << "R " << res << std::endl;
    }
    return 0;
}
} // namespace vh
