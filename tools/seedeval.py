#!/usr/bin/env python3
"""python3 tools/seedeval.py <ID> <seed-worktree> <k> [--keep-as <name>] [--tier quick]

Confirms a seeded breaking change delivered by an independent sub-agent in <seed-worktree>/out/<k>/ and runs the check of
property <ID> against it (through VERIF_REPO, so /repo is never touched):
  1. clean tree: the demonstration compiles and exits 0
  2. patch applied: library + unit tests build, ctest passes (flaky test_program_linear/quadratic ignored), demonstration fails
  3. check: VERIF_REPO=<seed-worktree> python3 tools/check.py <ID> -> expected: VIOLATION
  4. the tree is restored; with --keep-as the change is stored under /verif/seeded/<name>/ (patch.diff, demo.cpp, notes.txt, meta.json)
"""
import argparse, json, os, re, shutil, subprocess, sys, time

VERIF = os.path.dirname(os.path.dirname(os.path.abspath(__file__)))
FLAKY = {"test_program_linear", "test_program_quadratic"}


def sh(cmd, cwd=None, timeout=3600, env=None):
    e = dict(os.environ)
    if env:
        e.update(env)
    p = subprocess.run(cmd, cwd=cwd, shell=True, capture_output=True, text=True, timeout=timeout, env=e)
    return p.returncode, p.stdout + p.stderr


def demo_cmd(wt, src, exe):
    libs = " ".join(f"_b/src/lib{l}.a" for l in ["linear", "machine", "solver", "program", "function", "core"])
    nd = "-DNDEBUG " if "-DNDEBUG" in "".join(open(os.path.join(wt, src) if not os.path.isabs(src) else src).readlines()[:25]) else ""
    return (f"g++ -std=c++17 -O1 {nd}-I include -I src -I _b -isystem /usr/include/eigen3 {src} -o {exe} "
            f"-Wl,--start-group {libs} -Wl,--end-group -lpthread")


def main():
    ap = argparse.ArgumentParser()
    ap.add_argument("pid"); ap.add_argument("wt"); ap.add_argument("k")
    ap.add_argument("--keep-as"); ap.add_argument("--tier", default="quick")
    ap.add_argument("--skip-tests", action="store_true")
    a = ap.parse_args()
    wt, out = os.path.abspath(a.wt), os.path.join(os.path.abspath(a.wt), "out", a.k)
    patch, demo = os.path.join(out, "patch.diff"), os.path.join(out, "demo.cpp")
    meta = dict(property=a.pid, source=f"{wt}/out/{a.k}", at=time.strftime("%Y-%m-%d %H:%M:%S"))
    rc, o = sh("git checkout -q -- . && git status --short | grep -v '^??' | wc -l", cwd=wt)
    # 1. clean tree
    rc, o = sh("cmake --build _b -j8 2>&1 | tail -3", cwd=wt)
    rc, o = sh(demo_cmd(wt, demo, os.path.join(out, "demo_clean.bin")), cwd=wt)
    if rc != 0:
        print("demo does not compile on the clean tree:\n", o[-2000:]); meta["demo_clean"] = "compile-error"
    else:
        rc, o = sh(os.path.join(out, "demo_clean.bin"), cwd=wt, timeout=900)
        meta["demo_clean_rc"] = rc
        print(f"[1] clean tree: demo rc={rc}")
    # 2. patched tree
    rc, o = sh(f"git apply {patch}", cwd=wt)
    if rc != 0:
        print("patch does not apply:", o); sys.exit(2)
    try:
        rc, o = sh("cmake --build _b -j8 2>&1 | tail -5", cwd=wt)
        meta["build_rc"] = rc
        if not a.skip_tests:
            rc, o = sh("ctest --test-dir _b -j8 --timeout 900 2>&1 | tail -15", cwd=wt)
            failed = set(re.findall(r"- (test_\w+) \(", o))
            meta["ctest_failed"] = sorted(failed)
            meta["ctest_summary"] = [l for l in o.splitlines() if "tests passed" in l]
            print(f"[2] patched: build rc={meta['build_rc']}, ctest failed={sorted(failed)} (flaky ignored: {sorted(FLAKY)})")
            meta["tests_pass"] = failed <= FLAKY and meta["build_rc"] == 0
        rc, o = sh(demo_cmd(wt, demo, os.path.join(out, "demo_patched.bin")), cwd=wt)
        if rc == 0:
            rc, o = sh(os.path.join(out, "demo_patched.bin"), cwd=wt, timeout=900)
            meta["demo_patched_rc"] = rc
            meta["demo_patched_out"] = o[-600:]
            print(f"[2] patched: demo rc={rc}: {o.strip()[-300:]}")
        else:
            meta["demo_patched_rc"] = "compile-error"
        # 3. the check
        t0 = time.time()
        rc, o = sh(f"python3 tools/check.py {a.pid} --tier {a.tier}", cwd=VERIF, env={"VERIF_REPO": wt}, timeout=7200)
        meta["check_rc"] = rc
        meta["check_wall_s"] = round(time.time() - t0, 1)
        lines = [l for l in o.splitlines() if l.startswith("VIOLATION") or l.startswith("  ") or l.startswith("KNOWN")]
        meta["check_output"] = lines[:12]
        print(f"[3] check rc={rc} in {meta['check_wall_s']}s")
        for l in lines[:8]:
            print("    " + l[:300])
        meta["caught"] = (rc == 1 and any(l.startswith("VIOLATION") for l in lines))
        meta["input_level_replay"] = meta["caught"] and not any("no-failing-input-found" in l for l in lines)
    finally:
        sh("git checkout -q -- .", cwd=wt)
    if a.keep_as:
        d = os.path.join(VERIF, "seeded", a.keep_as)
        os.makedirs(d, exist_ok=True)
        for f in ("patch.diff", "demo.cpp", "notes.txt"):
            if os.path.exists(os.path.join(out, f)):
                shutil.copy(os.path.join(out, f), os.path.join(d, f))
        json.dump(meta, open(os.path.join(d, "meta.json"), "w"), indent=1)
        print("kept as", d)
    print(json.dumps({k: meta.get(k) for k in ("demo_clean_rc", "tests_pass", "demo_patched_rc", "caught", "input_level_replay")}))


if __name__ == "__main__":
    main()
