#!/usr/bin/env python3
"""Regenerates /verif/MANIFEST.json from the table below (claimed properties) — run by hand after a property's quick
check is green on the unchanged tree at several seeds. Properties not in CLAIMED go to not_applicable with the reason
given in PENDING."""
import json, os, subprocess, sys

VERIF = os.path.dirname(os.path.dirname(os.path.abspath(__file__)))
TECH = "Lean 4 proof over a hand-written model + differential correspondence against the implementation"
TECH_GEN = "Lean 4 proof over a model with fragments re-translated from the source on every run + differential correspondence"
NOTE_COMMON = ("Trusted: Lean 4.33 kernel; axioms propext / Classical.choice / Quot.sound only (audited per theorem on every run; no sorry, "
               "no native_decide, no own axioms); the translator / hand-written model and the correspondence harness; g++/libstdc++/Eigen. "
               "The theorems are about the model in exact arithmetic; the tie to the code is the correspondence run (testing). ")

CLAIMED = {
    "C16": dict(
        category="proof", technique=TECH, design="DESIGN.md §4 C16",
        text="Row-major bijection onto [0,size), in-bounds, and the aliasing theorems for partial-index views, first-axis slices, reshape "
             "(incl. the inferred -1) and index-gather are proved in Lean 4 for every rank and shape about a model of dims.h/tensor.h; the model "
             "is tied to the headers by an exhaustive-small + random correspondence run with an independent naive-indexing oracle. integral / "
             "the summed-area table = naive prefix sums for every rank, remove_if's two-pointer loop = filter, the lexicographic-order = offset-order law and the matrix / vector stack placement are proved too (33 theorems); storage conversions are covered by the correspondence and the oracle only.",
        note=NOTE_COMMON + "Eigen maps and storage conversions are observed only through data()/size()/operator(); memory safety by the ASan flavour of the thorough tier (testing)."),
    "C20": dict(
        category="proof", technique=TECH_GEN, design="DESIGN.md §4 C20",
        text="Percentile/median position rule, the unsorted variant = sorted variant for any sort meeting the contract, the histogram bins as a "
             "partition with the membership rule ts[i-1] <= v < ts[i], per-bin count/mean/median and bin(v) = the counting rule's bin for every real v are "
             "proved in Lean 4 over any ordered field with floor (24 theorems); bit-exact correspondence against stats.h/histogram.h/store_stats on "
             "integer and dyadic data plus an independent sorted-array oracle with exact rational positions.",
        note=NOTE_COMMON + "std::sort/nth_element are assumed to produce a sorted permutation; make_from_exponents' pow/log threshold formula is read back from the implementation, not modelled."),
    "C13": dict(
        category="proof", technique=TECH, design="DESIGN.md §4 C13",
        text="Both tuners are modelled as a small-step machine (coarse / main / done) with std::sort and the surrogate's proposed centre as oracles; "
             "for every callback, sort meeting the contract and oracle it is proved that only grid points are evaluated, none twice, at most "
             "max_evals + 3^d, non-finite values are rejected exactly then, the returned steps are all evaluations sorted with the minimum first, and "
             "termination; for ml::tune the (trial, fold) decoding is a bijection onto disjoint slots, each pair is called once and the optimum is the "
             "first arg-min of the mean validation error (25 theorems). Exact correspondence of every callback batch / returned step / call log against "
             "tuner.cpp, util.cpp, local.cpp, surrogate.cpp, machine/tune.cpp plus direct monitors of the statement.",
        note=NOTE_COMMON + "The quadratic-surrogate fit (an L-BFGS run) is an oracle: only the centre it proposes is observed; the pool running each index once is C17's theorem. "
             "One open known finding (surrogate tuner overflows on |values| >= 1e150)."),
    "C14": dict(
        category="proof", technique=TECH, design="DESIGN.md §4 C14",
        text="upscale(scale(x)) = x for every finite x, every mode and any data (constant, single-sample, all-missing, disabled columns), the advertised "
             "range / mean / deviation, categorical columns untouched, missing -> 0 and ignored, variance >= 0 (why the clamp is sound) and the n-dimensional "
             "affine up-scaling theorem W'x + b' = upscale_t(W scale_x(x) + b) for all 4x4 mode pairs are proved in Lean 4 over any ordered field (14 theorems); "
             "bit-exact correspondence of stats.cpp (statistics, scale, upscale, affine conversion, iterators) at Float, Eigen products within 1e-12 of the summed terms; "
             "independent oracle with exact rational statistics.",
        note=NOTE_COMMON + "sqrt enters the proofs as a value sd >= 0 with sd*sd = var; linear_t::fit itself is not executed (only its scaling-related calls)."),
    "C09": dict(
        category="proof", technique=TECH, design="DESIGN.md §4 C09",
        text="The map-reduce skeleton of the ML objectives (chunks of the sample range, any chunk->worker assignment, per-worker accumulators, sum_reduce, "
             "division by the sample count) and the linear (incl. the l1/l2 terms as coded), gboost bias, scale (unassigned samples unscaled, per-group gradients) "
             "and grads objectives are proved equal to their defining formulas for every loss, dataset, batch >= 1, worker count and assignment, with the "
             "assignment / batch independence corollaries (22 theorems, exact arithmetic). Correspondence: linear/function.cpp, gboost/function.cpp, accumulators and "
             "iterators on in-memory datasets over threads x batch x cache, with the chunk->worker schedule actually observed through the pool hook fed to the model; "
             "1e-9 relative (the property's tolerance); independent python oracle with its own loss kernels.",
        note=NOTE_COMMON + "Floating-point re-association is bounded only empirically by the 1e-9 tolerance; the loss kernels belong to C06, served data to C08/C14; data races are outside (C18)."),
    "C07": dict(
        category="proof", technique=TECH_GEN, design="DESIGN.md §4 C07",
        text="All five line searches (preamble of lsearchk_t::get, backtracking, LeMarechal, Fletcher+zoom, More-Thuente, CG_DESCENT) are modelled with the line "
             "function as an oracle and the has_* acceptance predicates RE-TRANSLATED from src/solver/state.cpp on every run; for every oracle, interpolation, (c1,c2), t0 and "
             "max_iterations it is proved that a non-descent direction is refused with the state untouched, that on success the returned state is the evaluation at the "
             "returned step, that backtracking / LeMarechal / Fletcher success implies Armijo / Armijo+Wolfe / Armijo+strong Wolfe (generated predicates), step positivity "
             "for those three, and explicit bounds on evaluations per call (13 theorems; More-Thuente positivity is `_partial` with a kernel-checked model witness of t = 0). "
             "Correspondence by oracle replay without hooks (every trial step, verdict and returned step of the real code against the model, 1e-12); the python oracle "
             "recomputes the advertised conditions from the user function. Success on convex quadratics is tested only (7 open known findings at the ends of the tolerance domain).",
        note=NOTE_COMMON + "Finiteness of the step, CG_DESCENT's success cases and 'all five succeed on convex quadratics' are floating-point / convergence claims: oracle-tested, not proved."),
    "C05": dict(
        category="proof", technique=TECH, design="DESIGN.md §4 C05",
        text="Value and gradient of the linear-penalty, quadratic-penalty and augmented-Lagrangian functions as coded equal the header formulas for any constraint "
             "list, multipliers and penalty; they coincide with the objective at feasible points; the 11 constraint kinds' validity measure is |h| / max(g,0); and for EVERY "
             "inner-solver behaviour the augmented-Lagrangian outer loop keeps miu >= 0, keeps violation(best) <= old criterion, and status converged implies |h_j| <= eps and "
             "max(0,g_i) <= eps at the returned point with the stored constraint values recomputed from the problem (22 theorems). Correspondence: penalty functions and constraint "
             "kinds function-level (exact / 1e-12), the outer loop by oracle replay of the trace hook (every criterion, flag, rho, lambda, miu, best state compared exactly).",
        note=NOTE_COMMON + "The inner solver is an oracle (its answers are logged and checked to be consistent states); solver_penalty_t is outside the statement and not modelled."),
    "C17": dict(
        category="proof", technique="Lean 4 proof of a protocol model for unbounded workers/tasks/clients + trace inclusion of recorded executions", design="DESIGN.md §4 C17",
        text="The pool is modelled as a labelled transition system in which every critical section is one atomic event (14 events incl. the sequential path of map); for every reachable "
             "state and any number of workers, tasks and submitters it is proved that each task is executed at most once and exactly once when done, the worker id is below the pool size "
             "and exclusive among running tasks, the sequential path runs each index once in order with tnum 0, map returns only after all its futures are ready, raise re-throws the first "
             "stored exception iff asked, chunks tile [0,n), no wake-up is lost (invariant J) and a quiescent state is complete incl. destruction (12 theorems, none partial). "
             "Correspondence: traces recorded through hook H1 under seeded schedule fuzzing are checked by the Lean driver for lock discipline, per-thread program order and for being a "
             "path of the model; direct monitors (execution counters, tnum exclusivity, completion before return, rethrow, watchdog) are the property oracle; ThreadSanitizer in the thorough tier.",
        note=NOTE_COMMON + "Atomicity of critical sections, std::mutex / condition_variable / packaged_task semantics and the C++ memory model are assumptions (the lock discipline is checked on every trace); "
             "liveness beyond quiescent_complete is not proved; schedules explored on the implementation are sampled, not exhaustive."),
    "C12": dict(
        category="proof", technique=TECH_GEN, design="DESIGN.md §4 C12",
        text="For every permutation produced by the shuffle and every sort meeting the contract: k-fold and random pairs are sorted, disjoint and cover the input, the k validation folds "
             "partition the input with sizes n/k ... n/k + n%k, the random training part has round-half-up(p*n/100) elements (idiv RE-TRANSLATED from numeric.h on every run), equal seeds give "
             "equal splits, sampling without / with replacement returns count distinct sorted / sorted members, weighted sampling never returns a zero-weight index (contract of "
             "discrete_distribution as explicit hypothesis), gboost sampler modes, and ball points lie inside the ball (15 theorems). Exact correspondence with the implementation given the "
             "permutations / draws reproduced with the same standard library; exhaustive n x folds x seeds grid; independent set-structure oracle.",
        note=NOTE_COMMON + "std::shuffle / uniform / discrete / normal distributions are oracles (their outputs are inputs of the model); uniformity of the draws is not claimed."),
    "C19": dict(
        category="proof", technique=TECH_GEN, design="DESIGN.md §4 C19",
        text="The domain guards check / update(range) / update(pair) / update(enum) are RE-TRANSLATED statement by statement from src/parameter.cpp on every run and every "
             "registered parameter of every id of the 11 factories is dumped into a Lean table; over these it is proved that the guards accept exactly the declared domain, that any "
             "history of assignments (ints, doubles as exact IEEE values incl. NaN / inf / ulp neighbours, pairs, strings through a model of stoll / strtod, enums) keeps the stored "
             "value in its domain, that a rejected assignment throws and changes nothing, that an accepted one reads back converted, that mismatched reads / unknown names / duplicate "
             "registrations throw, and (decide +kernel over the whole table) that all 285 defaults lie in their domains and ids are consistent (19 theorems). Exact correspondence on "
             "exhaustive histories over a boundary alphabet + the factory walk (type_id, clone equality and independence, behavioural probes).",
        note=NOTE_COMMON + "'The clone behaves identically' beyond equal parameters is a behavioural probe per factory (testing); write+read goes through C15's codec and is checked by correspondence here."),
}

PENDING = "check under construction in this session; not claimed until its quick check is green on the unchanged tree at several seeds"


def main():
    props = [json.loads(l) for l in open(os.path.join(VERIF, "properties.jsonl"))]
    old = json.load(open(os.path.join(VERIF, "MANIFEST.json")))
    checks = []
    for p in props:
        pid = p["id"]
        if pid not in CLAIMED:
            continue
        c = CLAIMED[pid]
        checks.append({
            "property_id": pid,
            "quick_cmd": f"python3 tools/check.py {pid} --tier quick",
            "thorough_cmd": f"python3 tools/check.py {pid} --tier thorough",
            "evidence_file": f"/verif/evidence/{pid}.json",
            "replay_cmd_template": f"python3 tools/check.py {pid} --replay {{path}}",
            "engine": "lean4-model+correspondence",
            "level_claimed": {"category": c["category"], "text": c["text"], "design_ref": c["design"]},
            "level_note": c["note"],
            "technique": c["technique"],
        })
    man = {
        "version": 1,
        "setup_cmd": "python3 tools/setup.py",
        "hooks": old["hooks"],
        "engines": [{"name": "lean4-model+correspondence", "path": "/verif/lean", "serves_properties": sorted(CLAIMED),
                     "kind_free_text": "Lean 4 models + kernel-checked theorems (lake project); compiled Lean drivers run against the real code "
                                       "through C++ harnesses; orchestrated by tools/check.py"}],
        "checks": checks,
        "not_applicable": [{"property_id": p["id"], "reason": PENDING} for p in props if p["id"] not in CLAIMED],
        "notes": "see DESIGN.md; KNOWN_FINDINGS.json lists repaired (fix: commits in /repo) and open findings",
    }
    json.dump(man, open(os.path.join(VERIF, "MANIFEST.json"), "w"), indent=1)
    print("claimed:", sorted(CLAIMED))


if __name__ == "__main__":
    main()
