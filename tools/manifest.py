#!/usr/bin/env python3
"""Regenerates /verif/MANIFEST.json from the table below (claimed properties) — run by hand after a property's quick
check is green on the unchanged tree at several seeds. Properties not in CLAIMED go to not_applicable with the reason
given in PENDING."""
import json, os, subprocess, sys

VERIF = os.path.dirname(os.path.dirname(os.path.abspath(__file__)))
TECH = "Lean 4 proof over a hand-written model + differential correspondence against the implementation"
TECH_GEN = "Lean 4 proof over a model with fragments re-translated from the source on every run + differential correspondence"
NOTE_COMMON = ("Trusted: Lean 4.33 kernel; axioms propext / Classical.choice / Quot.sound only (audited per theorem on every run; no sorry, "
               "no native_decide, no own axioms); the translator / hand-written model and the correspondence harness; g++/libstdc++/Eigen. "
               "The theorems are about the model in exact arithmetic; the tie to the code is the correspondence run (testing). ")

CLAIMED = {
    "C16": dict(
        category="proof", technique=TECH, design="DESIGN.md §4 C16",
        text="Row-major bijection onto [0,size), in-bounds, and the aliasing theorems for partial-index views, first-axis slices, reshape "
             "(incl. the inferred -1) and index-gather are proved in Lean 4 for every rank and shape about a model of dims.h/tensor.h; integral / "
             "the summed-area table = naive prefix sums for every rank (also with a narrower input scalar type), remove_if's two-pointer loop = filter (also over packs of tensors), the "
             "lexicographic-order = offset-order law, the matrix / vector stack placement, views assigned / written through / gathered into re-used outputs are proved too. The three storages of "
             "storage.h (owning, map, const map) are modelled as an explicit heap (buffers with identity, offset, length; every constructor, copy, move, assignment, both resize overloads, raw maps, "
             "assignment from an Eigen expression) with histories of operations over numbered slots: a conversion / assignment preserves the element sequence, views alias exactly their index set "
             "(exact cell frame), copies are independent in both directions, t = t.slice(..) yields the elements before the assignment, resize keeps / loses contents exactly as coded, no "
             "operation reads or writes outside the buffer it addresses, and for every history every owner holds null or the start of a live allocation that no other owner holds; what map = map "
             "does when the ranges overlap the unsupported way is stated as coded with kernel-checked witnesses; range.h, make_dims / cat_dims, arange / full / make_* (153 theorems). The model "
             "is tied to the headers by an exhaustive-small + random correspondence run (exact integer comparison, ranks 1..5, zero-sized dims) incl. 3000 op histories per run over the three storages, with an "
             "independent naive-indexing / cell-aliasing python oracle.",
        note=NOTE_COMMON + "Eigen's DenseStorage semantics are read from the Eigen 3.4 sources and encoded in the model; reductions (min / max / sum / ...), lin_spaced in general and the Eigen-expression accessors are not "
             "modelled (the statement does not mention them); memory safety by the ASan flavour of the thorough tier (testing)."),
    "C20": dict(
        category="proof", technique=TECH_GEN, design="DESIGN.md §4 C20",
        text="Percentile/median position rule, the unsorted variant = sorted variant for any sort meeting the contract, the histogram bins as a "
             "partition with the membership rule ts[i-1] <= v < ts[i], per-bin count/mean/median and bin(v) = the counting rule's bin for every real v are "
             "proved in Lean 4 over any ordered field with floor (24 theorems); bit-exact correspondence against stats.h/histogram.h/store_stats on "
             "integer and dyadic data plus an independent sorted-array oracle with exact rational positions. "
             "Gap-closing round (37 further theorems, 61 in all): the body of detail::percentile (position formula, floor / ceil pair, midpoint) and the store_stats / load_stats field tables are RE-TRANSLATED from the source and the model's text is proved to be the generated one (rfl); the unsorted variant is proved correct from the partial-order contract of std::nth_element called once or twice (monitored at run time on the range as the call left it); container value types (the midpoint is taken in double for integer containers); the public constructor sorts its thresholds (both sortedness hypotheses shown necessary by witnesses replayed on the code); make_from_exponents (exponent clamp, scan, strictly increasing thresholds; base^e <= |v| < base^(e+1) over the reals) and the equidistant LinSpaced factories are modelled - no threshold list is read back from the implementation any more; the one-pass variance equals the two-pass one, slot 1 is the standard error of the mean, the 12 slots round-trip. The whole grid p = 0..100 x n = 1..500 is run exhaustively in the quick tier.",
        note=NOTE_COMMON + "std::sort/nth_element are assumed to produce a sorted permutation; binary64 rounding, NaN values / thresholds (std::sort is undefined on them) and int overflow of the exponent for bases within 1e-6 of 1 are outside."),
    "C13": dict(
        category="proof", technique=TECH, design="DESIGN.md §4 C13",
        text="Both tuners are modelled as a small-step machine (coarse / main / done) with std::sort and the two L-BFGS runs of the surrogate tuner as oracles (the parameter spaces - linear / log10 maps, closest "
             "grid point -, the quadratic surrogate - feature map, least-squares fit objective, fitted quadratic - and the derivation of the next centre from the minimiser are modelled: gradient = derivative along every "
             "line, the fit objective is convex and a stationary point is its global minimiser, grid round-trips, closest-point optimality, the centre always lies in the grid box, the next batch is the radius-1 neighbourhood "
             "of the image of the solver's minimiser, closest_trial reads only trials of earlier batches, operator< on steps is a strict weak order: 33 theorems); "
             "for every callback, sort meeting the contract and oracle it is proved that only grid points are evaluated, none twice, at most "
             "max_evals + 3^d, non-finite values are rejected exactly then, the returned steps are all evaluations sorted with the minimum first, and "
             "termination; for ml::tune the (trial, fold) decoding is a bijection onto disjoint slots, each pair is called once and the optimum is the "
             "first arg-min of the mean validation error (25 theorems). Exact correspondence of every callback batch / returned step / call log against "
             "tuner.cpp, util.cpp, local.cpp, surrogate.cpp, space.cpp, machine/tune.cpp, machine/result.cpp plus direct monitors of the statement; the surrogate's value / gradient at the points the solver logged, the "
             "spaces' maps (bit-exact, same libm log10 / pow) and, as run-time monitors in exact rationals, stationarity of every converged fit / minimisation and the centre actually used.",
        note=NOTE_COMMON + "The L-BFGS iterations of the surrogate fit / minimisation are oracles without contract in the theorems (monitored at run time); the pool running each index once is C17's theorem. "
             "One open known finding (surrogate tuner overflows on |values| >= 1e150)."),
    "C14": dict(
        category="proof", technique=TECH, design="DESIGN.md §4 C14",
        text="upscale(scale(x)) = x for every finite x, every mode and any data (constant, single-sample, all-missing, disabled columns), the advertised "
             "range / mean / deviation, categorical columns untouched, missing -> 0 and ignored, variance >= 0 (why the clamp is sound) and the n-dimensional "
             "affine up-scaling theorem W'x + b' = upscale_t(W scale_x(x) + b) for all 4x4 mode pairs are proved in Lean 4 over any ordered field (14 theorems); "
             "bit-exact correspondence of stats.cpp (statistics, scale, upscale, affine conversion, iterators) at Float, Eigen products within 1e-12 of the summed terms; "
             "independent oracle with exact rational statistics. "
             "Gap-closing round (24 further theorems, 38 in all): the per-column update / done of stats.cpp (the N > 1 split, the four max(., eps) guards, the N = 0 and mask resets), nan2zero, the scale / upscale switches, make_scaling and the epsilon constant are RE-TRANSLATED from the source on every run (Gen/ScalingGuards.lean) and the model's text is proved to be the generated one (rfl, any scalar type); div_mul_one over the WHOLE case split of done (masked, N = 0, N = 1, N >= 2 with range or deviation below / at / above epsilon: every product is 1 and every multiplier positive), the one-pass variance equals the two-pass one exactly, flatten columns of single- / multi-label features are never rescaled whatever the data, structured targets are scaled component-wise (4-D overloads, round trip), make_targets_stats / make_feature_stats guards, class statistics (hash table sorted, counts, positive weights). The generator decides every regime boundary exactly in Float (range or deviation = eps, eps +- 1 ulp, N = 0..3).",
        note=NOTE_COMMON + "sqrt enters the proofs as a value sd >= 0 with sd*sd = var; linear_t::fit itself is not executed (only its scaling-related calls)."),
    "C09": dict(
        category="proof", technique=TECH, design="DESIGN.md §4 C09",
        text="The map-reduce skeleton of the ML objectives (chunks of the sample range, any chunk->worker assignment, per-worker accumulators, sum_reduce, "
             "division by the sample count) and the linear (incl. the l1/l2 terms as coded), gboost bias, scale (unassigned samples unscaled, per-group gradients) "
             "and grads objectives are proved equal to their defining formulas for every loss, dataset, batch >= 1, worker count and assignment, with the "
             "assignment / batch independence corollaries (22 theorems, exact arithmetic). Correspondence: linear/function.cpp, gboost/function.cpp, accumulators and "
             "iterators on in-memory datasets over threads x batch x cache, with the chunk->worker schedule actually observed through the pool hook fed to the model; "
             "1e-9 relative (the property's tolerance); independent python oracle with its own loss kernels. "
             "Gap-closing round: the iterators themselves (flatten / targets / select: batching, statistics computed once with their own batching, per-batch scaling, NaN -> 0, the caches with their byte-budget rule, per-thread buffers) are modelled on top of C08's dataset model and C14's scaling model; served_eq_scaled_flatten: for every history of batch / scaling / cache calls that leaves no stale cache, every batch >= 1 and every schedule the callback gets, one call per chunk, exactly the rows of nan2zero(scale mode stats (flatten raw)), with stats = the C14 statistics of each column whatever the batching; cached = uncached; a kernel-checked stale-cache witness shows the hypothesis necessary; every objective is restated END TO END from the raw dataset (linear_from_raw, gboost_from_raw), so the former 'taken as served' assumption is gone (74 theorems). New families iter hist / iter select; the python oracle recomputes statistics and scaling from the raw data (1e-12).",
        note=NOTE_COMMON + "Floating-point re-association is bounded only empirically by the 1e-9 tolerance; the loss kernels belong to C06, served data to C08/C14; data races are outside (C18)."),
    "C07": dict(
        category="proof", technique=TECH_GEN, design="DESIGN.md §4 C07",
        text="All five line searches (preamble of lsearchk_t::get incl. the clamp of the initial step and the shrink / grow loops, backtracking, LeMarechal, Fletcher+zoom, More-Thuente with dcstep, CG_DESCENT) are modelled with the "
             "line function as an oracle; the has_* acceptance predicates, stpmin / stpmax AND the interpolation formulas (lsearch_step_t::cubic / quadratic / secant / bisection / interpolate of lstep.cpp / lstep.h) are RE-TRANSLATED "
             "from the source on every run (the model's own text of the formulas is proved to be the generated one by rfl). For every oracle, interpolation, (c1,c2), t0 and max_iterations: a non-descent direction is refused with "
             "the state untouched, on success the returned state is the evaluation at the returned step, backtracking / LeMarechal / Fletcher / More-Thuente success implies Armijo / Armijo+Wolfe / Armijo+strong Wolfe (More-Thuente: "
             "since the repair 3b214f8), CG_DESCENT success is exactly Wolfe | approximate Wolfe | the 'bracketing failed' exit (known finding, needs more than max_iterations evaluations or an interval below stpmin), step positivity, "
             "explicit bounds on evaluations per call, what a non-positive / non-finite initial step becomes; the translated formulas are the stationary point of the Hermite cubic, the minimiser of the parabola, the root of the linear "
             "slope, exact on quadratics. On convex quadratics in exact arithmetic ALL FIVE searches are proved to succeed for every t0 within explicit budgets (More-Thuente incl. the extrapolation phase from an undershooting first "
             "trial; hypotheses c1 <= 1/2, stpmin <= t* <= stpmax each shown necessary by a kernel-checked run replayed on the code) (59 theorems, nothing `_partial`). "
             "Correspondence by oracle replay without hooks (every trial step, verdict and returned step of the real code against the model, 1e-12); the python oracle "
             "recomputes the advertised conditions from the user function and re-evaluates the preamble from the logged evaluations. Success on convex quadratics in floating point is oracle-tested (open known findings at the ends "
             "of the tolerance domain, where the acceptance interval is below floating-point resolution).",
        note=NOTE_COMMON + "Finiteness of the step and 'all five succeed on convex quadratics' IN FLOATING POINT are oracle-tested, not proved (the exact-arithmetic versions are theorems); the forced-bisection branch of More-Thuente (a step of about stpmax) is outside the quadratic theorem."),
    "C05": dict(
        category="proof", technique=TECH, design="DESIGN.md §4 C05",
        text="Value and gradient of the linear-penalty, quadratic-penalty and augmented-Lagrangian functions as coded equal the header formulas for any constraint "
             "list, multipliers and penalty; they coincide with the objective at feasible points; the 11 constraint kinds' validity measure is |h| / max(g,0); and for EVERY "
             "inner-solver behaviour the augmented-Lagrangian outer loop keeps miu >= 0, keeps violation(best) <= old criterion, and status converged implies |h_j| <= eps and "
             "max(0,g_i) <= eps at the returned point with the stored constraint values recomputed from the problem (22 theorems). Beyond the statement, the outer loop of the linear / quadratic penalty "
             "SOLVERS, the augmented-Lagrangian inner problem and solver_state_t's multiplier / KKT bookkeeping are modelled too (29 further theorems, for every inner-solver behaviour): status converged of a penalty "
             "solver means exactly the step test on the last valid inner answer - it does NOT imply feasibility (kernel-checked witness replayed on the code: converged with violation 500 eps; the statement promises "
             "feasibility for the augmented Lagrangian only) -, the penalty and inner-precision schedules, which point is returned, iteration / call counts, the status meanings, the k-th inner problem is the penalty "
             "function with penalty0 eta^k started at the last valid answer, the stored constraint values are recomputed at the returned point, the Lagrangian gradient and the five KKT tests equal their definitions, "
             "kkt_optimality_test <= eps implies an eps-KKT point. Correspondence: penalty functions and constraint kinds function-level (exact / 1e-12), the AL and penalty outer loops by oracle replay of the trace "
             "hooks (every criterion, flag, penalty, multiplier, start point, inner objective, returned state compared exactly; stored constraint values and KKT tests at 1e-12).",
        note=NOTE_COMMON + "The inner solver is an oracle (its answers are logged and checked to be consistent states); status failed of the penalty solvers is never reached with the current inner solvers (theorem only)."),
    "C17": dict(
        category="proof", technique="Lean 4 proof of a protocol model for unbounded workers/tasks/clients + trace inclusion of recorded executions", design="DESIGN.md §4 C17",
        text="The pool is modelled as a labelled transition system in which every critical section is one atomic event (14 events incl. the sequential path of map); for every reachable "
             "state and any number of workers, tasks and submitters it is proved that each task is executed at most once and exactly once when done, the worker id is below the pool size "
             "and exclusive among running tasks, the sequential path runs each index once in order with tnum 0, map returns only after all its futures are ready, raise re-throws the first "
             "stored exception iff asked, chunks tile [0,n), no wake-up is lost (invariant J) and a quiescent state is complete incl. destruction (12 theorems, none partial). "
             "Correspondence: traces recorded through hook H1 under seeded schedule fuzzing are checked by the Lean driver for lock discipline, per-thread program order and for being a "
             "path of the model; direct monitors (execution counters, tnum exclusivity, completion before return, rethrow, watchdog) are the property oracle; ThreadSanitizer in the thorough tier. "
             "Gap-closing round: section_t's lifetime is modelled as a refined system (block(raise), the destructor's wait, an UNGUARDED exit): map_exit_implies_all_ready (normal or exceptional exit only after every future was waited; a kernel-checked run shows the seeded 'swap the futures into a local' variant exits with an unfinished task), every_index_invoked_once_even_if_some_throw, pool_size_bounds, the worker wait split in two with a stop flag written without the mutex: stop_without_lock_loses_wakeup (kernel-checked, one worker) vs fine_refines_atomic under the lock, deadlock_free, progress_measure_decreases / run_without_new_calls_bounded (29 theorems). A second, independent trace monitor (critical sections, thread <-> worker id bijection, the caller never runs a task on the parallel path, every position of every call invoked exactly once also with throwing tasks, pool size) runs on every recorded trace; directed schedules park a worker between predicate evaluation and wait while the destructor or a push arrives (reached in every quick run).",
        note=NOTE_COMMON + "Atomicity of critical sections, std::mutex / condition_variable / packaged_task semantics and the C++ memory model are assumptions (the lock discipline is checked on every trace); "
             "liveness beyond quiescent_complete is not proved; schedules explored on the implementation are sampled, not exhaustive."),
    "C12": dict(
        category="proof", technique=TECH_GEN, design="DESIGN.md §4 C12",
        text="For every permutation produced by the shuffle and every sort meeting the contract: k-fold and random pairs are sorted, disjoint and cover the input, the k validation folds "
             "partition the input with sizes n/k ... n/k + n%k, the random training part has round-half-up(p*n/100) elements (idiv RE-TRANSLATED from numeric.h on every run), equal seeds give "
             "equal splits, sampling without / with replacement returns count distinct sorted / sorted members, weighted sampling never returns a zero-weight index (contract of "
             "discrete_distribution as explicit hypothesis), gboost sampler modes, and ball points lie inside the ball (15 theorems). Exact correspondence with the implementation given the "
             "permutations / draws reproduced with the same standard library; exhaustive n x folds x seeds grid; independent set-structure oracle. "
             "Gap-closing round: make_rng(seed) (minstd_rand), libstdc++'s generate_canonical and discrete_distribution AS CODED (bit-exact against the real library, odd weights included), the seeded sampling overloads with the generator threaded, the gboost sampler object (five modes, weight formulas, counts) and splitter objects under histories of split / clone / set are modelled: weighted sampling never draws a zero-weight index with NO contract assumed of the distribution (ddDraw_positive; all-zero / NaN weights return the first sample: hypothesis necessary, replayed), count = n returns the sorted input, sampler_mode_spec, split is a function of (kind, folds, seed, train_per, samples) after ANY history and no object holds generator state, ball sampling with coordinate rounding (ulp(|x0|) allowance) (50 theorems). New families sampler / hist.",
        note=NOTE_COMMON + "std::shuffle / uniform / discrete / normal distributions are oracles (their outputs are inputs of the model); uniformity of the draws is not claimed."),
    "C19": dict(
        category="proof", technique=TECH_GEN, design="DESIGN.md §4 C19",
        text="The domain guards check / update(range) / update(pair) / update(enum) are RE-TRANSLATED statement by statement from src/parameter.cpp on every run and every "
             "registered parameter of every id of the 11 factories is dumped into a Lean table; over these it is proved that the guards accept exactly the declared domain, that any "
             "history of assignments (ints, doubles as exact IEEE values incl. NaN / inf / ulp neighbours, pairs, strings through a model of stoll / strtod, enums) keeps the stored "
             "value in its domain, that a rejected assignment throws and changes nothing, that an accepted one reads back converted, that mismatched reads / unknown names / duplicate "
             "registrations throw, and (decide +kernel over the whole table) that all 285 defaults lie in their domains and ids are consistent (19 theorems). Exact correspondence on "
             "exhaustive histories over a boundary alphabet + the factory walk (type_id, clone equality and independence, behavioural probes). "
             "Gap-closing round (33 further theorems, 52 in all): every arithmetic operator= overload, the narrowing reads value<int32 | uint64 | float>() (exact on the declared domains, wrap-around witness replayed), mixed-type make_*, operator==, factory_t as a history machine (add rejects duplicates, get of an unknown id is null, get hands out a clone, ids(regex) in registration order, got objects independent); all 190 typed parameter reads of the library are RE-SCANNED from the sources on every run and proved well typed and exact against the 310 registered parameters (decide over the generated table); rejected_is_noop per kind incl. enum, enum histories stay in domain, lookup_exact_name, clone_configuration_equal / clone_independent. Static scan on every run: every clone() is the canonical copy construction; user-provided copy operations, uncopied members or bases, reference / pointer / shared_ptr members of cloned classes break the check with the class name (reviewed allow-lists). Probes: lsearch0 (clone of a USED object), lsearchk, tuner, weak learners (clone after fit), generators.",
        note=NOTE_COMMON + "'The clone behaves identically' beyond equal parameters is a behavioural probe per factory (testing); write+read goes through C15's codec and is checked by correspondence here."),
    "C01": dict(
        category="proof", technique=TECH_GEN, design="DESIGN.md §4 C01",
        text="The shared loop of the 17 line-search solvers (gd, 10 cgd variants, lbfgs with the two-loop recursion, 5 quasi-Newton updates) is modelled with the line search and the "
             "objective as oracles and the status decision (solver_t::done, gradient_test, valid, nano::converged, the converged flag / loop guard / return statement of gd/cgd/lbfgs/quasi.cpp) "
             "RE-TRANSLATED from the source on every run; for every function, line-search behaviour meeting the evaluation contract, epsilon and budget it is proved that status converged "
             "implies the returned (x, fx, gx) is an evaluation of f with max|g|/max(1,|f|) < epsilon (generic + the four solver families), that every direction handed to the line search is a "
             "descent direction (two-loop recursion = positive-definite product form; forced -g fallback), the BFGS secant equation, and for strongly convex quadratics lambda^2 |x-x*|^2 <= |grad|^2 "
             "hence the statement's accuracy bound given convergence (15 theorems). The line search itself is now a model too: the four initial-step strategies (lsearch0 constant / linear / quadratic / cgdescent with their private "
             "members), the glue lsearch_t::get and make_lsearch are modelled as coded and composed with C07's model of lsearchk_t::get (imported), so that the line-search slot is instantiated and only f stays an oracle: "
             "converged_truthful_composed (no line-search hypothesis), success of lsearch_t::get leaves the evaluation at x + t d with t > 0, a refused direction leaves the state untouched, the initial step is the strategy's "
             "formula (parabola minimisers), it is positive at every call of every run (object invariant), and kernel-checked runs where a stand-alone object hands out a non-positive / non-finite step outside runs "
             "(52 further theorems). Correspondence: oracle replay of real runs through trace hook H2 (direction, decisions, done arguments, <= 60 "
             "iterations per run, 1e-9); the python oracle runs the statement's experiment (status, <= 1500 evaluations counted by an independent wrapper, distance to x*) and recomputes the gradient test; family ls0: every initial step, strategy member, "
             "trial point and stored step of real runs (17 solvers x 4 strategies x 5 searches), of a stand-alone lsearch_t on arbitrary call sequences and of a stand-alone lsearch0 on scripted histories, against the model and "
             "against independent python formulas.",
        note=NOTE_COMMON + "'Converged within 1500 evaluations' is a floating-point convergence-rate claim: oracle-tested on the statement's problem class, not proved. The line search is an oracle whose contract is C07's theorem."),
    "C02": dict(
        category="proof", technique=TECH_GEN, design="DESIGN.md §4 C02",
        text="Shared skeleton of all solvers: the status decision of solver_t::done (RE-TRANSLATED from solver.cpp/state.cpp on every run) is a trichotomy converged / max_iters / failed; the line-search "
             "family returns an evaluation of f; update_if_better accepts only a strict decrease, so the best state is one of the evaluated triples, its value never increases and the result is <= f(x0); "
             "value_test as specified; reported call counters are copies of the function's monotone counters; and evaluations <= max_evals + K for an explicit per-iteration bound K, for EVERY oracle "
             "behaviour (13 theorems). The iteration bodies of ten non-monotone solvers (sgm, cocob, sda, wda, pgm, dgm, fgm, asga2, asga4, osga) are modelled as coded and instantiate the oracle slot of the "
             "generic loop: for every objective, parameter value, start, epsilon and budget it is proved that every candidate handed to update_if_better is (x, grad f(x), f(x)) at the point the recurrence "
             "produced (so the returned value is f at the returned point without hypothesis), that an iteration costs at most K_solver evaluations (2 / 2 ls / 3 ls / 4 ls / 3) hence evaluations < max_evals + K_solver, "
             "the status trichotomy, and that converged is reached only through the documented tests (19 theorems). The remaining bodies (ellipsoid, rqb, fpba1/2, gradient sampling, penalty / augmented Lagrangian "
             "outer loops: see C03/C05) enter as the hypothesis of the skeleton theorems and are monitored on every run against an independent evaluation log. Correspondence: oracle replay on hooks "
             "state.update_if_better / lsearch.end / solver.done, and for the ten modelled bodies a replay of whole runs from the wrapper's evaluation log (every point, candidate, decision, counter). Python oracle: "
             "finite unless failed, f <= f0 + allowance in the documented class, budget overshoot <= 1100 + 8 dim (sharp K_solver for the modelled bodies), over all solver ids x functions x epsilon x max_evals x "
             "solver parameters over their registered domains.",
        note=NOTE_COMMON + "Termination of the solver bodies is structural on fuel in the model and observed on the code; K <= 1100 + 8 dim for the unmodelled bodies is observed (tested), not proved; positivity / finiteness "
             "of step sizes is not proved; gradient-sampling solvers use an unseeded RNG (clauses must hold for every draw)."),
    "C03": dict(
        category="proof", technique=TECH, design="DESIGN.md §4 C03",
        text="Bundle (append / serious-step moveto / aggregate / delete_largest with std::nth_element as oracle, smeared e and s, the stopping tests), the whole curve-search loop, the proximity-parameter updates, the Nesterov "
             "sequence, the outer loops of RQB / FPBA1 / FPBA2 and the whole ellipsoid loop (1-D branch, n-D deep-cut update, stopping tests, status logic) are modelled over any ordered field. Proved for convex f with true "
             "sub-gradients and any simplex point returned by the QP oracle (proved to be one for 1 and 2 rows): every bundle pair and the aggregate stay global lower bounds under any operation sequence, the bundle never exceeds "
             "its capacity, the proximity parameter stays positive, the stopping test certifies f(x) - f(z) <= eps sqrt(n) (1 + |z - x|) for every z, and for all three solvers a run reporting converged returns a point meeting the "
             "statement's bound 2 eps sqrt(n) (1 + |x - x*|) on sharp functions; for the ellipsoid the Loewner-John step is PROVED (deep cut, n >= 2, every alpha in [-1/n, 1], coefficients as coded, inverse-free form): the "
             "updated ellipsoid contains the half-ellipsoid, so a run reporting converged returns a point with f - f* < eps (or the early-exit bound) assuming only |x* - x0| <= R, hence the statement's 10 eps; best <= f(x_k); "
             "the 1-D run keeps x* (56 theorems, nothing `_partial`). Correspondence: every logged append / solve / csearch pass / outer-loop decision / proximity parameter / ellipsoid update of real rqb / fpba1 / fpba2 / "
             "ellipsoid runs replayed from the logged pre-state (1e-9); the QP contract (simplex point, Frank-Wolfe gap) is monitored on every bundle.solve of every run; python oracle evaluates the statement's inequalities on "
             "sharp functions with known (x*, f*).",
        note=NOTE_COMMON + "The QP sub-solver for >= 3 rows is a monitored oracle (its multipliers being a simplex point is the hypothesis of the certificate; 23% of the calls are not reported converged by the QP solver, which the bundle "
             "code only logs); ellipsoid convergence within 20000 evaluations is tested only."),
    "C04": dict(
        category="proof", technique=TECH_GEN, design="DESIGN.md §4 C04",
        text="The primal-dual interior-point loop (normalisation, residuals, make_smax, both backtracking stages, the equality-only path) is modelled with LDLT / FullPivLU / make_strictly_feasible as oracles and "
             "program_t::feasible + the status decision of solver_t::done RE-TRANSLATED from src/program/solver.cpp on every run. Proved in exact arithmetic: normalisation keeps the feasible set and the arg-min, the "
             "reported fx is the caller's objective at x, u >= 0 and Gx < h are loop invariants, converged <=> the done test on the iterate's own residuals, and for convex Q, u >= 0, x* feasible: "
             "f(x) - f(x*) <= eta + |rdual| |x - x*| + |v| |rprim| (the statement's bound shape); seven restatement equivalences (row scaling, duplicated / combined equalities, objective scaling, row and variable permutations) "
             "preserve the feasible set and arg-min (19 theorems). Gap-closing round (13 further theorems): the KKT system handed to LDLT is modelled and any exact solution of it is proved to be the Newton direction of the "
             "residual map (dual and primal residuals scale by 1 - s, the linearised centrality holds), so the LDLT oracle's contract is 'solves this system' and is monitored on every iteration; the whole loop with its six exits: "
             "status <-> exit equivalences (converged <=> feasible and eta, |rdual|, |rprim| < eps of the RETURNED state; the 'no further progress' exit cannot report converged from eta alone; failed <=> the non-finite exit; never "
             "max_iters), the returned point keeps Gx < h and u > 0 for every oracle; solve_converged_gap_bound END TO END: whenever converged is reported f(x) - f(x*) <= mufx eps (1 + |x - x*|_2 + |v|_1) against every feasible "
             "point of the caller's convex program, with no hypothesis about the run; rows with the row space of [A|b] have the same solution set (the reduce contract, monitored with exact rational rank); a start found by "
             "make_strictly_feasible is strictly interior, a user x0 is accepted iff strictly inside; m_kkt <= eps <=> the KKT conditions within eps. Correspondence: every logged iteration recomputed from (x,u,v),(dx,du,dv) and the "
             "caller's program, the whole loop re-run from the logged Newton answers; python oracle with exact rational KKT check, Bland simplex and active-set enumeration decides the four inequalities of the statement.",
        note=NOTE_COMMON + "'Never converged on an infeasible/unbounded program' and the 1e-6 margins are numerical claims: oracle-tested only. One open known finding (converged with |x| = 2e18 where the float residuals are pure "
             "cancellation). Eigen's LDLT misses the system on regular indefinite KKT matrices in about 2% of the steps (counted; the effect is failure to converge, never a false converged)."),
    "C06": dict(
        category="proof", technique=TECH_GEN, design="DESIGN.md §4 C06",
        text="The sub-gradient inequality f(z) >= f(x) + g(x).(z-x) (+ mu/2 |z-x|^2 where declared) is proved for the kernels of every loss flagged convex (mae, mse, hinge, squared hinge, pinball, exponential, logistic, "
             "classnll as coded with the epsilon inside the log) and of 17 convex benchmark families incl. the 24 elastic-net prototypes, 7 constraint kinds, min/max compositions, affine composition, sums and ridge terms; "
             "HasDerivAt for the seven smooth scalar kernels; value >= 0, error >= 0 and the three error rules (argmax, sign count, binary sign). The convexity / smoothness / strong-convexity flags the implementation DECLARES are "
             "dumped from the real objects into Gen/Flags.lean on every run and `flags_covered` / `strong_covered` / `strong_values_covered` (decide) require every flagged id to own a theorem or be in the short tested-only list "
             "(55 theorems). Correspondence: 17 losses, 47 of 48 prototypes and the constraint kinds at Float vs the real code (1e-12 / 1e-9); python oracle: difference quotients, value-only = value+gradient, convexity "
             "inequality with local search for violating pairs. One open known finding (linear::function_t strong convexity along the bias). "
             "Gap-closing round (36 further theorems, 138 in all): eight array kernels of flatten.h plus logistic (value and gradient), pinball and the absdiff / multi-class error rules are RE-TRANSLATED from the source on every run (Gen/LossKernels.lean) and the model's text is proved to be the generated one (rfl); the tensor interface of the losses is modelled (entry i of values / errors / gradients is the kernel on sample i alone for any batch size; a batch equals each sample alone); function_t's base class as a history machine (the exact acceptance rule of the four constrain overloads, a refused call changes nothing, valid, gcalls <= fcalls); the make(dims, summands) size rules with the dumped size() of all 48 prototypes x dims 1..32 tied by decide (Powell keeps multiples of four: value ignores and gradient covers exactly those coordinates); every gradient component is written (the harness pre-fills every buffer with a sentinel); any mu with mu |d|^2 <= d.Ad is a valid modulus and flags of quadratic constraints must come from the symmetric part (kernel-checked witness); classnll is negative off the one-hot targets and pinball outside its alpha domain (necessity witnesses replayed). Run-time monitors recompute the Eigen eigenvalue oracle (Jacobi rotations) on every quadratic flag.",
        note=NOTE_COMMON + "Non-convex functions: gradient correctness is tested only; eigenvalue-based flags (quadratic, quadratic constraints) are hypotheses of the theorems and tested; ML objective plumbing belongs to C09."),
    "C08": dict(
        category="proof", technique=TECH, design="DESIGN.md §4 C08",
        text="Bit mask, typed storage pools with per-feature ranges, the sample iterators, the select / flatten / targets encoders of the identity generators (one-hot +-1 with missing -> NaN / -1), pairwise products, the gradient "
             "generator (3x3 kernel tables, gx / gy / magnitude / angle per channel, feature bookkeeping) and the elemwise / pairwise generator templates (4 + 16 input selections x 4 generated kinds), the column bookkeeping and the "
             "drop / shuffle flag histories are modelled on top of the C16 tensor model. Proved: getbit/setbit, ranges tile the pools disjointly, storage refines the abstract map feature x sample -> option value (never-set = "
             "missing), flatten = encode(select) for any sample list incl. repetitions, identity = stored, missing marked, targets and product specs, columns total and column -> feature, after ANY history of drop/undrop/shuffle/"
             "unshuffle the view is the spec view transformed by the current flag and undrop+unshuffle restore it, the reported shuffle is the applied bijection, out-of-range sample indices are rejected and the empty list "
             "accepted, well-formedness for every reachable dataset; for the gradient generator: which features are produced (none below 3x3), their descriptors, every output pixel = the kernel sum over the 3x3 neighbourhood "
             "addressed through the C16 index, kernel normalisation / transpose symmetry, select / flatten / missing / history views, exactly when the unserved 1x1 scalar overload occurs, and over an ordered field gx, gy = "
             "correlations, gradient of an affine image, magnitude = norm; fit / select / descriptor specs of the template generators (35 theorems). Exact history differential against the real library on random schemas over all "
             "storage types and generator stacks, 1..16 threads, nothing model-skipped; independent python oracle recomputes every view from the stored-value formula; ASan in the thorough tier. One open known finding (gradient "
             "generator 1x1 select).",
        note=NOTE_COMMON + "Binary64 rounding inside the gradient kernels is outside the theorems (the correspondence is bit-exact, atan2 = the same libm call); 20 of the 80 template instantiations are run; std::shuffle's permutation "
             "is read back and checked to be a bijection; stored values are small integers (no conversion rounding)."),
    "C10": dict(
        category="proof", technique=TECH, design="DESIGN.md §4 C10",
        text="Moment accumulators, the sorted stump / hinge sweep with running moments and mid-point thresholds, the affine closed form (incl. the constant branch), dense, discrete-step, k-best and k-split tables (bin sorting, greedy "
             "agglomeration), the decision-tree fit (breadth-first loop, terminal rule, child sample lists, node / table bookkeeping), score clamping, min-reduce over features, predict / split / scale / merge are modelled over any "
             "ordered field. Proved: the constant, affine, stump, hinge, dense-table, dstep, k-best and k-split fits attain the minimum RSS of their class (= brute force over all features x candidate thresholds / label sets / "
             "subsets), k-best is optimal per size under every criterion, the greedy k-split is NOT optimal for a fixed cluster count (kernel-checked counterexample), running moments = prefix moments, the sweep is sound and "
             "complete, predicting with the fit reproduces the reported RSS (all learners), the fit is independent of the chunk -> worker assignment; for the tree: depth 1 = the stump, well-formedness (indices in range, acyclic, "
             "depth <= max_depth, routing never stuck), leaves partition the routed samples, every leaf row is the mean residual of its samples, the fit never runs out of fuel; predict adds to the base and leaves missing samples "
             "untouched, predict = table[split], scale scales per group, merge preserves the summed prediction (tables compare their hash -> table mapping), mergeSort meets the sort contract, binary search in the sorted hash table "
             "(54 theorems). Correspondence: every fit is computed by the model in the driver and compared with fit / predict / split / scale / clone / merge of the 8 real learners on in-memory datasets (1..16 threads) at Float "
             "(1e-9, selection compared when the runner-up margin exceeds 1e-9); independent python oracle: brute force, breadth-first re-derivation of trees, all subsets for k-best, re-implemented agglomeration for k-split.",
        note=NOTE_COMMON + "Optimality of k-best / k-split is for the RSS criterion (per-size and consistency theorems hold for every criterion); AIC/AICc/BIC use log and are tested only; a tree whose stump choice at some node is decided by "
             "rounding (runner-up within 1e-9) is not compared."),
    "C11": dict(
        category="proof", technique=TECH_GEN, design="DESIGN.md §4 C11",
        text="early_stopping_t::done is RE-TRANSLATED from src/gboost/early_stopping.cpp on every run; over the generated definition it is proved by induction over any history of calls that the stored round / value / snapshot are "
             "those of an accepted call, that successive accepted values decrease by more than epsilon, that no later improvement was missed, that done <=> train < eps or (not accepted and learners >= round + patience), the "
             "patience-rounds characterisation in the fit loop, round <= learners, no patience stop without validation samples; the fold keeps exactly the first `round` learners and equals the snapshot model, predict over appended "
             "learners, and the averaged model predicts the mean (16 theorems). Correspondence: exhaustive error histories (length <= 6 quick / 8 thorough over a 5-value alphabet x patience x with/without validation) on the real "
             "early_stopping_t vs the driver; full fits of linear (4 regularisers) and gboost models with every reported statistic recomputed from the stored per-fold / final models by the python oracle. "
             "Gap-closing round (25 further theorems, 49 in all): the data flow of the fold fit (all shrinkage modes with the mutable ratio as coded, sub-sampling, the scaling-failure branch, statistics rows), the final stage of gboost_model_t::fit, tune_shrinkage, gboost::result_t, ml::result_t's storage / tune bookkeeping (on C13's and C20's models, imported) and linear_t::fit's bookkeeping are modelled with the solver / weak-learner fits as oracles: tracked_outputs_eq_model_prediction (after any number of rounds, every oracle behaviour and mode, the predictions at each done() call are bias + sum of the stored learners), the statistics row is the means of those predictions, the kept model reproduces the optimum round's row, the data-flow fit refines the control skeleton (so the 24 monitor theorems carry over), tune_shrinkage = first arg-min of the grid, a re-fit starts from the cleared state, the final model predicts the mean of the fold models and the final statistics are those of the final model on the GIVEN samples, reported_stats_are_stats_of_recomputed for any batch history and pool order, the linear fold / final statistics are those of the returned / refit model; wlearner scale / merge laws proved for C10's model so the end-to-end theorems carry no contract (gboost_fit_end_to_end, linear_fit_end_to_end). New families mlres / gbres; hook H3b logs the fitted samples, tracked predictions and the shrinkage grid per round (python monitors).",
        note=NOTE_COMMON + "The gboost round-loop skeleton (Model/Boost.lean) is tied to model.cpp by textual anchors + the statistics recomputation, not by a differential run; numeric fit quality is not claimed."),
    "C15": dict(
        category="proof", technique=TECH_GEN, design="DESIGN.md §4 C15",
        text="Byte-level codec combinators (u32/i32/u64/i64/raw/str/vec/seq/dependent seq/factory-tagged) and the wire formats of tensor (version, rank, dims, hash, payload), parameter (7 kinds), configurable (version compatibility), "
             "feature, learner, linear model, the 8 weak learners and the gboost model are modelled; library version, hash version and the hash_combine expression are RE-TRANSLATED from the source on every run. Proved for every "
             "well-formed object: decode(encode x ++ rest) = (x, rest) and every strict prefix of every valid stream is rejected, for each combinator and each format; tensor header mismatches, unknown factory ids / parameter tags "
             "and newer versions are rejected; hash_combine is injective in the element, so corrupting the last payload element is always detected and any payload corruption is detected iff the 64-bit fold differs "
             "(55 theorems, core Lean only). Gap-closing round (30 further theorems): the READERS AS CODED (sticky failbit stream, the per-character string loop, vector / factory / dims loops, the tensor reader's five-field chain, the "
             "configurable's three criticals, learner / linear / gboost readers) are modelled as procedures and proved to implement their codecs (same value and rest on success, failed stream or exception exactly when the codec "
             "refuses, nothing repaired on a failed stream), so round-trip and prefix rejection hold for the procedures; the version condition is exactly lexicographic <= library version, component by component; the hash fold: "
             "hash_combine is NOT injective in the running hash (kernel-checked collision), one fold moves the lowest differing bit down by exactly 2, hence replacing any element is refused when the lowest changed bit p satisfies "
             "2 (elements after it) <= p, and a kernel-checked single-BIT flip of a 2-element double tensor is ACCEPTED - the payload clause is violated on the unchanged tree (open known finding, keyed on true collisions only; "
             "`tensor_payload_corruption_partial` is shown sharp). Correspondence: real streams of configured / fitted objects (incl. data sources, the program solver, strings up to 5000 bytes) decoded and re-encoded by the model to "
             "identical bytes with equal fields, EVERY truncation offset, single-byte corruptions, reads into DIRTY destination objects, a version grid, a scalar self-test of width / endianness / sign extension: accept / reject and "
             "decoded value must agree; ASan in the thorough tier.",
        note=NOTE_COMMON + "Little-endian x86-64 memory layout is assumed and self-tested; payloads are opaque bytes; header corruptions that keep the element count are accepted by code and model alike (outside the statement); "
             "feature_t::read / parameter_t::read are codec-level models with the procedure contract as hypothesis."),
    "C18": dict(
        category="other", technique="Lean 4 proof of the sharing discipline on the C17/C13/C16 models (partial) + source scan re-generated on every run; concurrent-vs-sequential runs and ThreadSanitizer are tests", design="DESIGN.md §4 C18",
        text="PARTIAL. A data race is a fact about the C++ memory model and the compiled code that no Lean model of the library exhibits, so 'no data races' and 'bit-identical results' are not proved. Proved (11 theorems, all schedules): "
             "tasks running at the same time have different worker ids so per-worker buffers are never written concurrently (C17 protocol model); the (trial, fold) tasks of ml::tune write disjoint in-bounds ranges; sum_reduce / "
             "min_reduce give the same value for every chunk -> worker assignment in exact arithmetic (min: lexicographic (score, feature index) tie-break as coded since 62472c9 / 5de0896, exact ties allowed, no uniqueness hypothesis; the old score-only rule is proved schedule dependent); minimize with per-call line-search clones depends on its own arguments only; every mutable member / non-const "
             "static / pointer member found by a scan of the CURRENT sources (Gen/MutableState.lean, regenerated on every run) is in a reviewed allow-list (decide). Tested, labelled as testing: the same calls alone vs from 2..16 threads "
             "on one shared solver / loss / dataset / fitted model must be bit-identical; fits under pools of 1..16 threads, restricted affinity and injected delays must select the same features; thorough tier under ThreadSanitizer. "
             "Fit-level comparisons use well-conditioned problems only; near-tie flips caused by re-association (margins ~1e-16) and zero-scale stop flips are recognised by the oracle, counted and skipped. "
             "Gap-closing round (34 obligations): the source scan reports file:line and also finds function-local statics, thread_locals, namespace-scope non-const globals, mutable members of ANY class and members holding objects with mutable state; its 91-entry reviewed allow-list is mirrored into Lean (decide +kernel) and a new hit is the first broken line before anything runs. Sharing theorems on the extended models of C09 / C10 / C11 / C13 / C17: two live activities (tasks, or inline calls made by the caller with tnum 0) belong to different calls or use different slots, so buffers owned by a per-call object are never shared - while buffers owned by the SHARED object collide on the inline path (kernel-checked reachable state); no task outlives its call; the tune batch as coded (live reads) and the whole ml::result_t are the same for every order of a batch's tasks (necessity witness for reads of in-flight trials); the BFS tree fit is independent of the feature -> worker assignment at every node; the select loop visits the same features for any two pool sizes (kernel-checked dropped features for the per-worker-range variant). Runs: shared predict of fitted linear / gboost models on the inline path, concurrent minimize of functions of DIFFERENT sizes for every solver id, fits over pools 1, 2, 3, 4, 5, 7, 16 x every feature-count residue.",
        note=NOTE_COMMON + "The regex-level scan is not a C++ parser and the allow-list reasons are a human review; TSan observes only the schedules that happened."),
}

# entries of CLAIMED that are written but not yet registered (their check is not yet stable on the unchanged tree)
HOLD = {}

PENDING = "check under construction in this session; not claimed until its quick check is green on the unchanged tree at several seeds"


# round 4 (translation round): appended to the level text; the technique becomes TECH_GEN
ROUND4 = {
    "C03": " Translation round (28 further theorems, 84 in all): the ellipsoid loop statement by statement, the bundle's convergence tests, error re-basing and small QP solutions, the curve search's "
           "start values and whole m1..m4 decision chain, the proximity updates and the RQB / FPBA flags are RE-TRANSLATED from the source on every run (Gen/EllipsoidStep, Gen/BundleStep) and the "
           "hand-written model is proved to be the generated text (model_*_is_generated).",
    "C05": " Translation round (14 further theorems, 65 in all): guards, values and gradient factors of the three penalty functions, make_ro1, make_criterion, the augmented-Lagrangian step (initial "
           "multipliers, converged, best-update guard, rho rule, multiplier updates) and the penalty solver's step are RE-TRANSLATED from the source on every run (Gen/PenaltyKernels, Gen/AugLagStep) "
           "and proved equal to the model for every scalar type.",
    "C10": " Translation round (28 further theorems, 82 in all): the criterion formulas with the score floor, the accumulator's closed forms, the affine / stump / hinge closed forms with their "
           "distinct-value, mid-point and acceptance rules and predict forms, and the table learners' bin scores, parameter counts and lexicographic acceptance are RE-TRANSLATED from the source "
           "on every run (Gen/WLearner*) and proved equal to the model; new oracle clause: the reported AIC / AICc / BIC score is the textbook criterion of the learner's own RSS.",
    "C12": " Translation round (25 further theorems, 75 in all): the k-fold boundaries / sizes / segment pieces / sorts, the random splitter's size formula and per-fold shuffle, the guards and "
           "skeletons of the seeded sampling overloads, make_rng's branch, make_udist and the gboost sampler's routing are RE-TRANSLATED from the source on every run (Gen/Split*) and proved equal "
           "to the model; the property is restated on the regenerated text.",
    "C13": " Translation round (37 further theorems, 96 in all): the space constructor's checks, to/from_surrogate, the closest-grid scans, local_search, evaluate, the coarse / main loop rules, the "
           "quadratic surrogate's loop nests with the threaded coefficient walk, optimum_trial / closest_trial and the (trial, fold) index arithmetic of ml::tune are RE-TRANSLATED from the source "
           "on every run (Gen/TunerSpace) and proved equal to the model.",
    "C16": " Translation round (37 further theorems, 190 in all): the template recursions of dims.h (product, get_index0, get_index, get_dims0) read as list recursions, the range / slice / reshape / "
           "arange guards, the partial-index views, the integral-image loops and remove_if are RE-TRANSLATED from the headers on every run (Gen/Tensor*) and the model's definitions are proved "
           "equal to them (by induction where the recursion shapes differ).",
}


def main():
    for pid, more in ROUND4.items():
        CLAIMED[pid]["text"] += more
        CLAIMED[pid]["technique"] = TECH_GEN
    props = [json.loads(l) for l in open(os.path.join(VERIF, "properties.jsonl"))]
    old = json.load(open(os.path.join(VERIF, "MANIFEST.json")))
    checks = []
    for p in props:
        pid = p["id"]
        if pid not in CLAIMED or pid in HOLD:
            continue
        c = CLAIMED[pid]
        checks.append({
            "property_id": pid,
            "quick_cmd": f"python3 tools/check.py {pid} --tier quick",
            "thorough_cmd": f"python3 tools/check.py {pid} --tier thorough",
            "evidence_file": f"/verif/evidence/{pid}.json",
            "replay_cmd_template": f"python3 tools/check.py {pid} --replay {{path}}",
            "engine": "lean4-model+correspondence",
            "level_claimed": {"category": c["category"], "text": c["text"], "design_ref": c["design"]},
            "level_note": c["note"],
            "technique": c["technique"],
        })
    man = {
        "version": 1,
        "setup_cmd": "python3 tools/setup.py",
        "hooks": old["hooks"],
        "engines": [{"name": "lean4-model+correspondence", "path": "/verif/lean", "serves_properties": sorted(set(CLAIMED) - set(HOLD)),
                     "kind_free_text": "Lean 4 models + kernel-checked theorems (lake project); compiled Lean drivers run against the real code "
                                       "through C++ harnesses; orchestrated by tools/check.py"}],
        "checks": checks,
        "not_applicable": [{"property_id": p["id"], "reason": HOLD.get(p["id"], PENDING)} for p in props if p["id"] not in CLAIMED or p["id"] in HOLD],
        "notes": "see DESIGN.md; KNOWN_FINDINGS.json lists repaired (fix: commits in /repo) and open findings",
    }
    json.dump(man, open(os.path.join(VERIF, "MANIFEST.json"), "w"), indent=1)
    print("claimed:", sorted(CLAIMED))


if __name__ == "__main__":
    main()
