#!/usr/bin/env python3
"""Adds the hand-written `summary` (what the change breaks) and `needs` (what it needs in order to manifest) fields to
seeded/<id>/meta.json (seedeval.py writes the machine part: what was run and what the check answered)."""
import json, os, sys
VERIF = os.path.dirname(os.path.dirname(os.path.abspath(__file__)))
INFO = {
 "C05-a1": ("gradient of quadratic constraints computed as P x + q (value unchanged): penalty / AL gradients no longer match their values", "a quadratic (in)equality constraint with NON-symmetric P, evaluated with a gradient where the constraint is active"),
 "C05-a2": ("augmented-Lagrangian feasibility test made relative to |x|: converged with violations up to eps*|x*|", "a solution with |x*|_inf > 1 and an outer iteration whose criterion lies between eps and eps*|x*|"),
 "C05-a3": ("solver state splits constraints positionally (first count_equalities() are equalities): ceq/cineq hold values of the wrong constraints", "an inequality registered before an equality"),
 "C08-a1": ("256-class single-label features booked in the uint16 pool but accessed through the uint8 pool: aliases / corrupts another feature", "a feature or target with exactly 256 classes next to another uint8-stored feature"),
 "C08-a2": ("sample range guard looks at the first and last index only: interior out-of-range indices are read", "an unsorted / reversed sample list with a non-extremal invalid entry"),
 "C08-a3": ("shuffle() ORs the flag byte: shuffling a dropped feature yields state 3 = neither dropped nor shuffled", "the two-step history drop(f); shuffle(f)"),
 "C09-a1": ("L2 part of the weight gradient divided by the number of inputs instead of the number of weights", "l2 > 0 and more than one output"),
 "C09-a2": ("sum_reduce rewritten as a pairwise reduction that never folds some accumulators in", "a pool of 6, 7 or 10..15 threads with more chunks than threads"),
 "C09-a3": ("uncached targets iterator returns unscaled targets (cached path still scales)", "uncached targets + scaling mean/minmax/standard + continuous target"),
 "C12-a1": ("last k-fold validation chunk no longer absorbs the remainder: the folds do not partition the input", "n not a multiple of the fold count"),
 "C12-a2": ("random split training size computed in floating point: one short on exact .5 ties", "rare (percentage, n) pairs, e.g. (58, 25) — the only one with n <= 40"),
 "C12-a3": ("weighted sampling adds epsilon to every weight: zero-weight indices can be drawn", "zero weights mixed with weights around 1e-14 or smaller"),
 "C13-a1": ("local-search tuner tests the budget only after a batch: one batch beyond max_evals + 3^d", "3 grids, max_evals <= 25, optimum away from the grid centre"),
 "C13-a2": ("non-finite guard hoisted to min/max of the batch: a NaN at a non-first position is stored as a step", "callback returns NaN (not inf) for a non-first point of a batch whose first value is finite"),
 "C13-a3": ("trial value = pooled (sample-weighted) mean instead of the mean of fold means: wrong optimum trial", "validation folds of different sizes and near-tied trials"),
 "C14-a1": ("affine up-scaling returns the identity scaling when any column is all-missing", "an all-missing column plus scaling != none on that side"),
 "C14-a2": ("categorical columns with exactly one valid sample keep min/max/mean at the one-hot code and get rescaled", "a categorical feature/target with exactly one non-missing value"),
 "C14-a3": ("clamp under the sqrt of the one-pass variance dropped: NaN stdev for non-representable constant columns", "a constant column (>= 2 samples, constant not exactly representable) + standard mode"),
 "C15-a1": ("string reader assigns instead of appends 64-byte chunks: strings longer than 64 bytes lose all but the last chunk", "a serialized string longer than 64 bytes (names, labels, string parameters)"),
 "C15-a2": ("tensor content hash covers only the low 4 bytes of every double", "corruption in bytes 4..7 of a double payload element"),
 "C15-a3": ("gboost reader treats the trailing prototypes section as optional: one strict prefix loads silently", "truncation exactly at the boundary between fitted weak learners and prototypes"),
 "C16-a1": ("indexed(indices, out) skips the resize when the element COUNT matches: stale dims / overflow", "an output buffer re-used with equal element count but different dims, or an empty index list"),
 "C16-a2": ("map -> owning tensor assignment copies directly unless the map starts at the owner's first element: reads freed memory", "t = t.slice(b, e) with b > 0 and a different element count"),
 "C16-a3": ("summed-area table accumulates the innermost prefix sums in the INPUT scalar type", "input scalar narrower than output (uint8/int32/float -> int64/double) with sums leaving the input range"),
 "C17-a1": None, "C17-a2": None, "C17-a3": None,
 "C19-a1": ("domain check on the value as given, conversion to the storage kind afterwards: an integer parameter can leave its domain", "a non-integral double assigned to an integer parameter where truncation crosses a bound"),
 "C19-a2": ("second token of a \"v1,v2\" string parsed with stof: read-back differs, decisions flip within a float ulp of a bound", "string assignment to a scalar-pair parameter with a second component not exact in single precision"),
 "C19-a3": ("solver copy constructor re-creates the line-search objects by id instead of cloning them: clone has default line-search parameters", "install a line-search object configured away from its defaults, then clone"),
 "C20-a1": ("percentile position computed as (p/100)*(n-1): integer positions come out one ulp off, midpoint returned", "93 of 50500 (p, n) pairs, e.g. (28, 26); p = 0/25/50/75/100 unaffected"),
 "C20-a2": ("histogram fast path uses < where <= is needed: values equal to a threshold that equals the maximum land in the wrong bin", "a threshold exactly equal to the largest data value"),
 "C20-a3": ("bin(v) via lower_bound + one step: with a threshold repeated k >= 2 times a query equal to it returns an empty bin", "duplicate thresholds and a query exactly equal to the duplicated value"),
}
extra = json.load(open(os.path.join(VERIF, "seeded", "summaries.json"))) if os.path.exists(os.path.join(VERIF, "seeded", "summaries.json")) else {}
for k, v in extra.items():
    INFO[k] = tuple(v)
for name, v in INFO.items():
    mp = os.path.join(VERIF, "seeded", name, "meta.json")
    if v is None or not os.path.exists(mp):
        continue
    m = json.load(open(mp))
    m["summary"], m["needs"] = v
    m.setdefault("ran", "tools/seedeval.py: demo on clean tree (rc 0), suite + demo on patched tree, then `VERIF_REPO=<patched worktree> python3 tools/check.py <ID> --tier quick`")
    json.dump(m, open(mp, "w"), indent=1)
