"""C09 — ML objectives equal their definitions for any thread count and batch size (DESIGN.md §4 C09)."""
import functools, math, os
import vlib
from vlib import Toks, f2h, h2f, lst

ID = "C09"
LEVEL = "proof"
HARNESS = "c09"
LEAN_MODULES = ["NanoVerif.Props.C09"]
NS = "NanoVerif.Objective."
OBLIGATIONS = [NS + t for t in [
    "chunks_tile", "mapReduce_eq", "fillChunks_chunks",
    "runChunks_none_of_bad_worker", "mapReduce_none_of_batch_zero", "mapReduce_none_of_no_worker",
    "linear_value_eq_def", "linear_grad_eq_def", "linearDefValue_spec",
    "linear_assignment_independent", "linear_batch_independent", "linear_none_of_batch_zero",
    "bias_eq_def", "bias_assignment_independent", "bias_batch_independent",
    "scale_output_spec", "scale_eq_def", "scale_none_of_bad_group",
    "scale_assignment_independent", "scale_batch_independent",
    "grads_eq_def", "grads_batch_independent",
    "sumReduce_eq_reduce_model", "sumReduce_total", "sumReduce_schedule_total",
]]
TRUSTED = [
    "Lean 4.33.0 kernel; Mathlib modules Algebra.Order.Field.Basic, Tactic.Ring/Linarith/FieldSimp (Proofs/Objective.lean, Props/C09.lean)",
    "axioms: at most propext, Classical.choice, Quot.sound (audited per theorem on every run)",
    "hand-written model NanoVerif/Model/Objective.lean of pool_t::map chunking, the per-thread accumulators of linear/function.cpp + "
    "linear/accumulator.cpp + linear/util.cpp (predict), gboost/function.cpp + gboost/accumulator.cpp and reduce.h; tied to the code by the "
    "correspondence run: harness/c09.cpp on the real classes vs the compiled Lean driver fed with the chunk->worker schedule observed "
    "through the pool hook H1",
    "tools/props/c09.py: generator, independent python evaluation of the definition (own loss kernels for all 17 losses, own outputs), "
    "harness/c09.cpp (in-memory datasource, dump of the served data), g++/libstdc++/Eigen, python3 float = IEEE double",
]
ASSUMPTIONS = [
    "exact arithmetic in the theorems; floating-point re-association is bounded only empirically by the tolerance 1e-9 relative to the "
    "sum of the magnitudes of the summands (the property's own tolerance), not proved",
    "the loss is an arbitrary function of (sample, outputs) in the theorems; its kernels are the subject of C06",
    "the scaled, missing->0 flattened inputs and targets are taken as served by the iterator with 1 thread / 1 batch / no cache (their "
    "correctness w.r.t. the raw data is the subject of C14/C08); every other configuration must serve bit-identical data (hash)",
    "data races on the per-thread buffers are outside the model; they are observed only through wrong results / sanitizer reports",
    "a worker executes the chunks it pops one after the other and the k-th pop takes the k-th enqueued chunk (pool protocol, C17)",
]
RULE = ("random in-memory datasets (1..200 samples, 1..10 mixed features: single/multi-label, float64 scalar/structured, int16; missing "
        "values 0-100%), regression / single-label / multi-label targets, all 17 losses, l1,l2 in {0} u [1e-6,1e6], 4 scalings, sample "
        "subsets (ranges and shuffled subsets), random parameter vectors, cluster assignments incl. unassigned, weak-learner outputs; per "
        "case the (threads, batch, cached) configurations threads in {1,2,3,16} x batch in {1,7,n-1,n,n+1,10000} x cached in {0,1} (quick: "
        "a sample of 10, thorough: all); a case is non-trivial when some configuration has >= 2 threads and >= 2 chunks; distinct by op text")
FLAVOUR = {"quick": "plain", "thorough": "asan"}
RTOL = 1e-9          # the property's own tolerance (relative to the sum of the magnitudes of the summands)
HARNESS_TIMEOUT = 1500

REG_LOSSES = ["mae", "mse", "cauchy", "pinball"]
S_LOSSES = ["s-hinge", "s-squared-hinge", "s-classnll", "s-savage", "s-tangent", "s-logistic", "s-exponential"]
M_LOSSES = ["m-hinge", "m-squared-hinge", "m-savage", "m-tangent", "m-logistic", "m-exponential"]
THREADS = [1, 2, 3, 16]
EPS = 2.220446049250313e-16
M64 = (1 << 64) - 1


# ---------------------------------------------------------------------------------------------------------------------
# generator

def corpus():
    cp = os.path.join(vlib.VERIF, "corpus", "C09", "ops.txt")
    if os.path.exists(cp):
        return [l.strip() for l in open(cp) if l.strip() and not l.startswith("#")]
    return []


def batches(n):
    out = []
    for b in [1, 7, n - 1, n, n + 1, 10000]:
        if b >= 1 and b not in out:
            out.append(b)
    return out


def make_op(kind, seed, N, feats, tkind, tdim, miss, loss, l1, l2, scaling, a, b, smode, pmag, groups, unass, variants):
    fl = []
    for k, s in feats:
        fl += [k, s]
    vs = " ".join(f"{t} {bt} {c}" for t, bt, c in variants)
    return (f"objective {kind} {seed} {N} {lst(fl)} {tkind} {tdim} {miss} {loss} {f2h(l1)} {f2h(l2)} {scaling} {a} {b} {smode} "
            f"{f2h(pmag)} {groups} {unass} {len(variants)} {vs}")


def parse_op(op):
    t = Toks(op)
    fam = t.s(); kind = t.s(); seed = t.int(); N = t.int()
    fl = t.ints(); feats = [(fl[i], fl[i + 1]) for i in range(0, len(fl), 2)]
    tkind = t.s(); tdim = t.int(); miss = t.int(); loss = t.s(); l1 = t.f(); l2 = t.f(); scaling = t.int()
    a = t.int(); b = t.int(); smode = t.int(); pmag = t.f(); groups = t.int(); unass = t.int()
    V = t.int(); variants = [(t.int(), t.int(), t.int()) for _ in range(V)]
    return dict(kind=kind, seed=seed, N=N, feats=feats, tkind=tkind, tdim=tdim, miss=miss, loss=loss, l1=l1, l2=l2,
                scaling=scaling, a=a, b=b, smode=smode, pmag=pmag, groups=groups, unass=unass, variants=variants), t


def op_of(d):
    return make_op(d["kind"], d["seed"], d["N"], d["feats"], d["tkind"], d["tdim"], d["miss"], d["loss"], d["l1"], d["l2"],
                   d["scaling"], d["a"], d["b"], d["smode"], d["pmag"], d["groups"], d["unass"], d["variants"])


def reg_value(rng):
    r = rng.below(10)
    if r < 3:
        return 0.0
    if r == 3:
        return 1e6
    if r == 4:
        return 1.0
    return 10.0 ** rng.uniform(-6.0, 6.0)


def random_case(rng, tier):
    kind = rng.choice(["linear"] * 5 + ["bias"] * 2 + ["scale"] * 3 + ["grads"] * 1)
    seed = rng.u64() >> 1
    N = rng.choice([1, 2, 3, 7, 8, 9, 50, 100, 199, 200]) if rng.chance(0.4) else rng.range(1, 200)
    if kind == "linear":
        nf = rng.range(1, 10)
    else:
        nf = rng.range(1, 2)
    feats = []
    for _ in range(nf):
        k = rng.below(5)
        size = rng.range(2, 4) if k <= 1 else (rng.range(1, 4) if k == 3 else 1)
        feats.append((k, size))
    tkind = rng.choice(["R", "R", "S", "M"])
    if tkind == "R":
        tdim = rng.choice([1, 1, 2, 3, 4]); loss = rng.choice(REG_LOSSES)
    elif tkind == "S":
        tdim = rng.range(2, 5); loss = rng.choice(S_LOSSES + (["mse"] if rng.chance(0.1) else []))
    else:
        tdim = rng.range(2, 4); loss = rng.choice(M_LOSSES + (["mae"] if rng.chance(0.1) else []))
    miss = rng.choice([0, 0, 10, 30, 60, 100])
    l1 = reg_value(rng) if kind == "linear" else 0.0
    l2 = reg_value(rng) if kind == "linear" else 0.0
    scaling = rng.below(4)
    r = rng.below(10)
    if r < 6 or N == 1:
        a, b, smode = 0, N, 0
    elif r < 8:
        a = rng.range(0, N - 1); b = rng.range(a + 1, N); smode = 0
    else:
        a = 0; b = rng.range(1, N); smode = 1
    n = b - a
    pmag = rng.choice([0.0, 0.1, 1.0, 1.0, 3.0])
    if "exponential" in loss:
        pmag = min(pmag, 0.1 if (kind == "linear" and scaling == 0) else 1.0)
    groups = rng.range(1, 6)
    unass = rng.choice([0, 30, 30, 60, 100])
    allv = [(t, bt, c) for t in THREADS for bt in batches(n) for c in (0, 1)]
    # two more pool sizes of 4..15 (every pool size 1..16 occurs across a run), small batches so that every worker gets chunks
    extra = [(t, rng.choice([1, 1, 2, 7]), rng.below(2)) for t in rng.shuffle(list(range(4, 16)))[:2]]
    if tier == "thorough":
        variants = allv + extra
    else:
        variants = [(1, n, 0)]
        par = [v for v in allv if v[0] >= 2 and v[1] < n]
        if par:
            variants.append(rng.choice(par))
        variants += extra
        rest = rng.shuffle([v for v in allv if v not in variants])
        variants += rest[:10 - len(variants)]
    return make_op(kind, seed, N, feats, tkind, tdim, miss, loss, l1, l2, scaling, a, b, smode, pmag, groups, unass, variants)


def gen_reduce(rng, tier):
    """`reduce sum <samples> <W> <D> <K> {<worker> <v_1 … v_D>}*K`: nano::sum_reduce on W real accumulators for an explicit
    schedule: every W in 1..33 with every worker holding contributions (integers: every summation order is exact), plus random ones"""
    ops = []
    for W in range(1, 34):
        for rep in range(1 if tier == "quick" else 4):
            D = 2 + (W + rep) % 4
            K = W + rng.range(0, W)
            workers = list(range(W)) + [rng.below(W) for _ in range(K - W)]
            workers = rng.shuffle(workers)
            items = [f"{w} " + " ".join(f2h(float(rng.range(-1000, 1000) + (2 ** (k % 20) if d == 0 else 0))) for d in range(D))
                     for k, w in enumerate(workers)]
            ops.append(f"reduce sum {2 ** rng.range(0, 6)} {W} {D} {K} " + " ".join(items))
    for _ in range(60 if tier == "quick" else 600):
        W = rng.range(1, 40); K = rng.range(0, 3 * W); D = rng.range(2, 6)
        scale = rng.choice([1.0, 1e-3, 1e6])
        items = [f"{rng.below(W)} " + " ".join(f2h(rng.uniform(-1.0, 1.0) * scale) for _ in range(D)) for _ in range(K)]
        ops.append(f"reduce sum {rng.range(1, 1000)} {W} {D} {K} " + " ".join(items).strip())
    return [o.strip() for o in ops]


def gen(rng, tier):
    ops = corpus()
    ops += gen_reduce(rng, tier)
    # every loss at least once per kind family, small fixed shapes (boundary: n-1, n, n+1 around tiny n)
    k = 0
    for loss in REG_LOSSES + S_LOSSES + M_LOSSES:
        tkind = "R" if loss in REG_LOSSES else ("S" if loss in S_LOSSES else "M")
        tdim = 2 if tkind != "S" else 3
        kind = ["linear", "scale", "bias", "grads"][k % 4] if tier == "quick" else None
        for kd in ([kind] if kind else ["linear", "scale", "bias", "grads"]):
            N = 9 + k
            n = N
            vs = [(1, n, 0), (3, 1, 0), (2, 7, 1), (16, n - 1, 0), (3, n + 1, 1), (16, 1, 1)]
            ops.append(make_op(kd, 1000 + k, N, [(0, 3), (2, 1), (3, 2), (4, 1), (1, 2)], tkind, tdim, 20, loss,
                               0.5 if kd == "linear" else 0.0, 2.0 if kd == "linear" else 0.0, k % 4, 0, N, 0,
                               0.5, 3, 30, vs))
        k += 1
    count = 500 if tier == "quick" else 1000
    for _ in range(count):
        ops.append(random_case(rng, tier))
    return ops


def nontrivial(op):
    if op.startswith("reduce "):
        t = op.split()
        return int(t[3]) >= 2 and int(t[5]) >= 2
    try:
        d, _ = parse_op(op)
    except Exception:
        return False
    n = d["b"] - d["a"]
    return any(t >= 2 and bt < n and (n + bt - 1) // bt >= 2 for t, bt, _ in d["variants"])


def distribution(ops):
    d = {}
    for op in ops:
        if op.startswith("reduce "):
            W = int(op.split()[3])
            for k in ["reduce-sum", "reduce-sum:workers" + ("1" if W == 1 else "2-3" if W < 4 else "4-8" if W < 9 else "9-16" if W < 17 else "17+")]:
                d[k] = d.get(k, 0) + 1
            continue
        try:
            o, _ = parse_op(op)
        except Exception:
            d["unparsed"] = d.get("unparsed", 0) + 1
            continue
        n = o["b"] - o["a"]
        for k in [o["kind"], "loss:" + o["loss"], "scaling:%d" % o["scaling"], "target:" + o["tkind"],
                  "n:" + ("1" if n == 1 else "2-9" if n < 10 else "10-99" if n < 100 else "100-200"),
                  "l1>0" if o["l1"] > 0 else "l1=0", "l2>0" if o["l2"] > 0 else "l2=0",
                  "subset" if (o["smode"] == 1 or n != o["N"]) else "all-samples"]:
            d[k] = d.get(k, 0) + 1
        for t, bt, c in o["variants"]:
            key = f"cfg:threads{t}/" + ("batch1" if bt == 1 else "batch<n" if bt < n else "batch=n" if bt == n else "batch>n") + ("/cached" if c else "")
            d[key] = d.get(key, 0) + 1
    return d


# ---------------------------------------------------------------------------------------------------------------------
# independent evaluation of the definition

def _exp(x):
    try:
        return math.exp(x)
    except OverflowError:
        return float("inf")


def sign(x):
    return (x > 0) - (x < 0)


def loss_value(loss, tg, o):
    base = loss[2:] if loss[:2] in ("s-", "m-") else loss
    if base == "mae":
        return math.fsum(abs(a - b) for a, b in zip(o, tg))
    if base == "mse":
        return 0.5 * math.fsum((a - b) * (a - b) for a, b in zip(o, tg))
    if base == "cauchy":
        return 0.5 * math.fsum(math.log((b - a) * (b - a) + 1.0) for a, b in zip(o, tg))
    if base == "pinball":
        return math.fsum(0.5 * max(b - a, 0.0) + 0.5 * max(a - b, 0.0) for a, b in zip(o, tg))
    if base == "hinge":
        return math.fsum(max(1.0 - b * a, 0.0) for a, b in zip(o, tg))
    if base == "squared-hinge":
        return math.fsum(max(1.0 - b * a, 0.0) ** 2 for a, b in zip(o, tg))
    if base == "classnll":
        omax = max(o)
        return math.log(EPS + math.fsum(_exp(a - omax) for a in o)) - math.fsum(a for a, b in zip(o, tg) if b > 0) + omax
    if base == "savage":
        return math.fsum(1.0 / (1.0 + _exp(b * a)) ** 2 for a, b in zip(o, tg))
    if base == "tangent":
        return math.fsum((2.0 * math.atan(b * a) - 1.0) ** 2 for a, b in zip(o, tg))
    if base == "logistic":
        tot = []
        for a, b in zip(o, tg):
            x = -b * a
            tot.append(math.log1p(_exp(x)) if x < 1.0 else x + math.log1p(_exp(-x)))
        return math.fsum(tot)
    if base == "exponential":
        return math.fsum(_exp(-b * a) for a, b in zip(o, tg))
    raise ValueError("loss " + loss)


def loss_grad(loss, tg, o):
    """(gradient w.r.t. the outputs, kink flags: True where the (sub)gradient is not unique up to rounding)"""
    base = loss[2:] if loss[:2] in ("s-", "m-") else loss
    K = 1e-9
    if base == "mae":
        return [float(sign(a - b)) for a, b in zip(o, tg)], [abs(a - b) < K for a, b in zip(o, tg)]
    if base == "mse":
        return [a - b for a, b in zip(o, tg)], [False] * len(o)
    if base == "cauchy":
        return [(a - b) / (1.0 + (a - b) * (a - b)) for a, b in zip(o, tg)], [False] * len(o)
    if base == "pinball":
        return [-0.5 + 0.5 * (1.0 - sign(b - a)) for a, b in zip(o, tg)], [abs(a - b) < K for a, b in zip(o, tg)]
    if base == "hinge":
        return [-b * (sign(1.0 - b * a) + 1.0) * 0.5 for a, b in zip(o, tg)], [abs(1.0 - b * a) < K for a, b in zip(o, tg)]
    if base == "squared-hinge":
        return [-b * max(1.0 - b * a, 0.0) * 2.0 for a, b in zip(o, tg)], [False] * len(o)
    if base == "classnll":
        omax = max(o)
        e = [_exp(a - omax) for a in o]
        z = math.fsum(e)
        return [ei / z - (1.0 if b > 0 else 0.0) for ei, b in zip(e, tg)], [False] * len(o)
    if base == "savage":
        return [-2.0 * b / ((1.0 + _exp(b * a)) ** 2 * (1.0 + _exp(-b * a))) for a, b in zip(o, tg)], [False] * len(o)
    if base == "tangent":
        return [4.0 * b * (2.0 * math.atan(b * a) - 1.0) / (1.0 + (b * a) ** 2) for a, b in zip(o, tg)], [False] * len(o)
    if base == "logistic":
        out = []
        for a, b in zip(o, tg):
            x = -b * a
            g = (_exp(x) / (1.0 + _exp(x))) if x < 1.0 else 1.0 / (1.0 + _exp(-x))
            out.append(-b * g)
        return out, [False] * len(o)
    if base == "exponential":
        return [-b * _exp(-b * a) for a, b in zip(o, tg)], [False] * len(o)
    raise ValueError("loss " + loss)


def near(a, b, rtol, atol=0.0):
    if a != a or b != b:
        return (a != a) and (b != b)
    if a == b:
        return True
    return abs(a - b) <= atol + rtol * max(abs(a), abs(b))


def bits(tok):
    return 0x7ff8000000000000 if tok == "nan" else int(tok, 16)


class Ref:
    pass


@functools.lru_cache(maxsize=8)
def reference(aug):
    """parses the augmented op and evaluates the definition of the objective from the dumped inputs, independently of
    the library and of the Lean model; raises ValueError with the reason when the dump itself is inconsistent"""
    op, t = parse_op(aug)
    if t.s() != "|":
        raise ValueError("no dump")
    R = Ref()
    R.op = op
    kind, loss = op["kind"], op["loss"]
    n = t.int(); s = t.int(); ts = t.int(); d = t.int()
    R.n, R.s, R.t, R.d = n, s, ts, d

    def ftoks():
        k = t.int()
        v = t.t[t.i:t.i + k]; t.i += k
        return v
    Xt = ftoks(); Tt = ftoks(); Pt = ftoks(); Lt = ftoks(); Gt = ftoks(); SOt = ftoks(); WOt = ftoks()
    GR = t.ints()
    V = t.int()
    R.sched = []
    for _ in range(V):
        w = t.int(); bt = t.int(); asg = t.ints()
        R.sched.append((w, bt, asg))
    if not t.done():
        raise ValueError("trailing tokens in the dump")
    h = 0xCBF29CE484222325
    for tok in Xt + Tt:
        h = ((h ^ bits(tok)) * 0x100000001B3) & M64
    R.hash = "h%016x" % h
    X = [h2f(x) for x in Xt]; T = [h2f(x) for x in Tt]; P = [h2f(x) for x in Pt]
    Lv = [h2f(x) for x in Lt]; G = [h2f(x) for x in Gt]; SO = [h2f(x) for x in SOt]; WO = [h2f(x) for x in WOt]
    R.nonfinite = sum(1 for v in X + T if not math.isfinite(v))
    if len(T) != n * ts or len(Lv) != n or len(G) != n * ts or len(P) != d or n != op["b"] - op["a"]:
        raise ValueError("dump sizes")
    if kind == "linear" and (len(X) != n * s or d != ts * s + ts):
        raise ValueError("dump sizes (linear)")
    if kind == "scale" and (len(SO) != n * ts or len(WO) != n * ts or len(GR) != n or d != op["groups"]):
        raise ValueError("dump sizes (scale)")
    if kind == "bias" and d != ts:
        raise ValueError("dump sizes (bias)")
    if kind == "grads" and d != n * ts:
        raise ValueError("dump sizes (grads)")

    # outputs of every sample, from the definition
    O = []
    for i in range(n):
        if kind == "linear":
            xi = X[i * s:(i + 1) * s]
            O.append([sum(xi[j] * P[k * s + j] for j in range(s)) + P[ts * s + k] for k in range(ts)])
        elif kind == "bias":
            O.append(P[:ts])
        elif kind == "scale":
            g = GR[i]
            if g >= d:
                raise ValueError("group out of range")
            sc = 0.0 if g < 0 else P[g]
            O.append([SO[i * ts + k] if g < 0 else SO[i * ts + k] + sc * WO[i * ts + k] for k in range(ts)])
        else:
            O.append(P[i * ts:(i + 1) * ts])

    # per-sample loss values / gradients: own kernels; the dumped ones (library's loss) must agree
    ell = []; grads = []
    R.dump_mismatch = None
    for i in range(n):
        tg = T[i * ts:(i + 1) * ts]
        v = loss_value(loss, tg, O[i])
        g, kink = loss_grad(loss, tg, O[i])
        if not near(v, Lv[i], 1e-9, 1e-12) and R.dump_mismatch is None:
            R.dump_mismatch = f"sample {i}: library loss value {Lv[i]!r} vs definition {v!r}"
        for k in range(ts):
            if kink[k]:
                g[k] = G[i * ts + k]          # sub-gradient not unique here: take the library's choice
            elif not near(g[k], G[i * ts + k], 1e-9, 1e-12) and R.dump_mismatch is None:
                R.dump_mismatch = f"sample {i} output {k}: library loss gradient {G[i * ts + k]!r} vs definition {g[k]!r}"
        ell.append(v); grads.append(g)

    fn = float(n)
    R.value = math.fsum(ell) / fn
    R.value_scale = math.fsum(abs(v) for v in ell) / fn
    if kind == "linear":
        l1, l2 = op["l1"], op["l2"]
        W = P[:ts * s]; size = float(ts * s)
        R.value += l1 * (math.fsum(abs(w) for w in W) / size) + l2 / 2.0 * (math.fsum(w * w for w in W) / size)
        R.value_scale = abs(R.value_scale) + l1 * (math.fsum(abs(w) for w in W) / size) + l2 / 2.0 * (math.fsum(w * w for w in W) / size)
        gd = []; gs = []
        for k in range(ts):
            col = [grads[i][k] for i in range(n)]
            for j in range(s):
                terms = [col[i] * X[i * s + j] for i in range(n)]
                w = W[k * s + j]
                reg = l1 * sign(w) / size + l2 * w / size
                gd.append(math.fsum(terms) / fn + reg)
                gs.append(math.fsum(abs(x) for x in terms) / fn + abs(l1 * sign(w) / size) + abs(l2 * w / size))
        for k in range(ts):
            col = [grads[i][k] for i in range(n)]
            gd.append(math.fsum(col) / fn)
            gs.append(math.fsum(abs(x) for x in col) / fn)
    elif kind == "bias":
        gd = []; gs = []
        for k in range(ts):
            col = [grads[i][k] for i in range(n)]
            gd.append(math.fsum(col) / fn)
            gs.append(math.fsum(abs(x) for x in col) / fn)
    elif kind == "scale":
        gd = []; gs = []
        for q in range(d):
            terms = []; mags = []
            for i in range(n):
                if GR[i] == q:
                    pr = [grads[i][k] * WO[i * ts + k] for k in range(ts)]
                    terms.append(math.fsum(pr)); mags.append(math.fsum(abs(x) for x in pr))
            gd.append(math.fsum(terms) / fn)
            gs.append(math.fsum(mags) / fn)
    else:
        gd = [grads[i][k] / fn for i in range(n) for k in range(ts)]
        gs = [abs(x) for x in gd]
    R.grad, R.grad_scale = gd, gs
    return R


def parse_impl(res):
    r = Toks(res)
    if r.s() != "ok":
        return None
    V = r.int()
    out = []
    for _ in range(V):
        h = r.s(); fx0 = r.f(); fx = r.f(); g = r.fs()
        out.append((h, fx0, fx, g))
    if not r.done():
        return None
    return out


def within(a, b, scale):
    """|a - b| <= RTOL * (sum of the magnitudes of the summands); NaN/inf must coincide"""
    if a != a or b != b:
        return (a != a) and (b != b)
    if a == b:
        return True
    if math.isinf(a) or math.isinf(b) or not math.isfinite(scale):
        return False
    return abs(a - b) <= RTOL * max(scale, abs(a), abs(b)) if scale == scale else False


def reduce_ref(op):
    """(plain sums / samples, magnitude scale) per component of a `reduce sum` op — python's exact fsum, no schedule involved"""
    r = Toks(op); r.s(); r.s()
    n, W, D, K = r.int(), r.int(), r.int(), r.int()
    cols = [[] for _ in range(D)]
    for _ in range(K):
        r.int()
        for d in range(D):
            cols[d].append(r.f())
    return [(math.fsum(c) / n, math.fsum(abs(v) for v in c) / n) for c in cols]


def oracle_reduce(op, res):
    a = Toks(res)
    if a.s() != "ok":
        return f"[reduce] implementation did not answer ok: {res[:120]}"
    got = a.fs()
    ref = reduce_ref(op)
    if len(got) != len(ref):
        return "[reduce] wrong size"
    for d, (g, (want, mag)) in enumerate(zip(got, ref)):
        if not abs(g - want) <= 1e-12 * mag + 5e-324:
            return (f"[reduce] sum_reduce over {op.split()[3]} accumulators: component {d}: reduced value {g!r} differs from "
                    f"(the sum of all contributions) / samples = {want!r}")
    return None


def oracle(aug, res):
    if aug.startswith("reduce "):
        return oracle_reduce(aug, res)
    impl = parse_impl(res)
    if impl is None:
        return f"[no-answer] implementation did not answer ok: {res[:120]}"
    try:
        R = reference(aug)
    except ValueError as ex:
        return f"[dump] {ex}"
    if len(impl) != len(R.op["variants"]) or len(R.sched) != len(impl):
        return "[dump] number of configurations"
    if R.nonfinite:
        return f"[served-data] {R.nonfinite} non-finite value(s) served by the iterator (missing values must be served as 0)"
    if R.dump_mismatch:
        return f"[loss-kernel] {R.dump_mismatch}"
    n = R.n
    for (thr, bt, cached), (w, bt2, asg), (h, fx0, fx, g) in zip(R.op["variants"], R.sched, impl):
        cfg = f"threads={thr} batch={bt} cached={cached}"
        if h != R.hash:
            return f"[served-data] {cfg}: the inputs/targets served differ from the ones served with 1 thread, 1 batch, no cache"
        if bt2 != bt or len(asg) != (n + bt - 1) // bt or any(a < 0 or a >= w for a in asg):
            return f"[schedule] {cfg}: {len(asg)} chunks executed by workers {asg[:8]} of {w} (expected {(n + bt - 1) // bt} chunks)"
        if len(g) != len(R.grad):
            return f"[gradient-size] {cfg}: {len(g)} vs {len(R.grad)}"
        if not within(fx, R.value, R.value_scale):
            return f"[value-vs-definition] {cfg}: vgrad value {fx!r} != definition {R.value!r} (n={n})"
        if not within(fx0, R.value, R.value_scale):
            return f"[value-vs-definition] {cfg}: value-only call {fx0!r} != definition {R.value!r} (n={n})"
        for k, (a, b, sc) in enumerate(zip(g, R.grad, R.grad_scale)):
            if not within(a, b, sc):
                return f"[gradient-vs-definition] {cfg}: component {k}: {a!r} != definition {b!r} (n={n})"
    # invariance: all configurations of the same dataset + parameters agree
    h0, fa0, fa, ga = impl[0]
    for (thr, bt, cached), (h, fx0, fx, g) in zip(R.op["variants"][1:], impl[1:]):
        cfg = f"threads={thr} batch={bt} cached={cached}"
        if not within(fx, fa, R.value_scale) or not within(fx0, fa0, R.value_scale):
            return f"[configurations-disagree] value {fx!r} ({cfg}) vs {fa!r} ({R.op['variants'][0]})"
        for k, (a, b, sc) in enumerate(zip(g, ga, R.grad_scale)):
            if not within(a, b, sc):
                return f"[configurations-disagree] gradient component {k}: {a!r} ({cfg}) vs {b!r} ({R.op['variants'][0]})"
    return None


def compare(aug, impl_line, model_line):
    """implementation vs the Lean model (modelled computation per configuration, then the naive definition at Float)"""
    if aug.startswith("reduce "):
        a, m = Toks(impl_line), Toks(model_line)
        try:
            if a.s() != "ok" or m.s() != "ok":
                return False
            ga, gm = a.fs(), m.fs()
            ref = reduce_ref(aug)
        except (ValueError, IndexError):
            return False
        return len(ga) == len(gm) == len(ref) and all(abs(x - y) <= 1e-12 * mag + 5e-324 for x, y, (_, mag) in zip(ga, gm, ref))
    impl = parse_impl(impl_line)
    if impl is None:
        return False
    m = Toks(model_line)
    try:
        if m.s() != "ok":
            return False
        V = m.int()
        mv = []
        for _ in range(V):
            fx = m.f(); g = m.fs()
            mv.append((fx, g))
        if m.s() != "def":
            return False
        dfx = m.f(); dg = m.fs()
        if not m.done():
            return False
        R = reference(aug)
    except (ValueError, IndexError):
        return False
    if V != len(impl):
        return False
    for (h, fx0, fx, g), (mfx, mg) in zip(impl, mv):
        if len(g) != len(mg) or len(g) != len(dg) or len(g) != len(R.grad_scale):
            return False
        if not (within(fx, mfx, R.value_scale) and within(fx0, mfx, R.value_scale) and within(fx, dfx, R.value_scale)):
            return False
        for a, b, c, sc in zip(g, mg, dg, R.grad_scale):
            if not (within(a, b, sc) and within(a, c, sc)):
                return False
    return True


def classify(op, kind, detail):
    t = op.split()
    fam = t[1] if len(t) > 1 else "?"
    if kind == "oracle" and detail.startswith("["):
        return f"{fam}/{detail[1:detail.index(']')]}"
    return f"{fam}/{kind}"


def shrink_candidates(op):
    if op.startswith("reduce "):
        return
    try:
        d, _ = parse_op(op)
    except Exception:
        return
    if len(d["variants"]) > 1:
        for v in d["variants"]:
            yield op_of(dict(d, variants=[v]))
        for i in range(len(d["variants"])):
            yield op_of(dict(d, variants=d["variants"][:i] + d["variants"][i + 1:]))
    n = d["b"] - d["a"]
    for newN in [2, 3, 5, 8, n // 2, n - 1]:
        if 1 <= newN < n:
            vs = []
            for t, bt, c in d["variants"]:
                nb = bt if bt < newN else (newN + (bt - n) if bt <= n + 1 else bt)
                vs.append((t, max(1, nb), c))
            yield op_of(dict(d, N=newN, a=0, b=newN, smode=0, variants=vs))
    if len(d["feats"]) > 1:
        for i in range(len(d["feats"])):
            yield op_of(dict(d, feats=d["feats"][:i] + d["feats"][i + 1:]))
    for key, val in [("l1", 0.0), ("l2", 0.0), ("scaling", 0), ("miss", 0), ("smode", 0), ("unass", 0), ("groups", 1), ("pmag", 1.0)]:
        if d[key] != val:
            yield op_of(dict(d, **{key: val}))
    if d["tdim"] > (1 if d["tkind"] == "R" else 2):
        yield op_of(dict(d, tdim=d["tdim"] - 1))
