"""C09 — ML objectives equal their definitions for any thread count and batch size (DESIGN.md §4 C09)."""
import functools, math, os
import vlib
from vlib import Toks, f2h, h2f, lst

ID = "C09"
LEVEL = "proof"
HARNESS = "c09"
LEAN_MODULES = ["NanoVerif.Props.C09", "NanoVerif.Proofs.IteratorDataset", "NanoVerif.Proofs.IteratorSelect"]
NS = "NanoVerif.Objective."
OBLIGATIONS = [NS + t for t in [
    "chunks_tile", "mapReduce_eq", "fillChunks_chunks",
    "runChunks_none_of_bad_worker", "mapReduce_none_of_batch_zero", "mapReduce_none_of_no_worker",
    "linear_value_eq_def", "linear_grad_eq_def", "linearDefValue_spec",
    "linear_assignment_independent", "linear_batch_independent", "linear_none_of_batch_zero",
    "bias_eq_def", "bias_assignment_independent", "bias_batch_independent",
    "scale_output_spec", "scale_eq_def", "scale_none_of_bad_group",
    "scale_assignment_independent", "scale_batch_independent",
    "grads_eq_def", "grads_batch_independent",
    "sumReduce_eq_reduce_model", "sumReduce_total", "sumReduce_schedule_total",
    # end to end from the raw dataset (gap-closing round)
    "linear_end_to_end", "linear_iter_none_of_empty", "linear_value_only_eq_def", "bias_end_to_end", "scale_end_to_end",
    "grads_end_to_end", "callback_reads_def", "servedRow_zip", "linearV_acc_canonical", "linear_from_raw", "gboost_from_raw",
]] + ["NanoVerif.Iterator." + t for t in [
    # the iterators (Model/Iterator.lean)
    "chunks_tiles", "tiles_flatten", "makeStats_eq_defStats", "stats_batch_independent", "scaled_cell_spec",
    "computeRows_eq", "mapM_scaleRow_none", "fillCache_eq", "fillCache_none_of_bad_worker", "fill_total", "loopWith_eq",
    "inv_make", "inv_step", "inv_run", "fresh_make", "fresh_step", "fresh_configure_then_cache",
    "served_eq_scaled_flatten", "served_targets_eq_scaled", "served_inputs_eq_scaled", "cached_eq_uncached",
    "cache_flatten_spec", "cache_targets_spec", "loop_none_of_batch_zero", "serve_none_of_bad_worker",
    "stale_cache_witness", "served_bit_identical_float",
    # select_iterator_t (Model/IteratorSelect.lean)
    "featuresPerThread_pos", "featuresPerThread_eq", "makeFeatures_mem", "makeFeatures_sorted", "selectLoop_eq",
    "loopList_visits", "loopKind_visits",
    # the contract about the dataset, proved for the C08 dataset model (Proofs/IteratorDataset.lean)
    "flatten_samplewise", "flatten_slice", "targets_samplewise", "data_flat_is_dataset_flatten",
]]
TRUSTED = [
    "Lean 4.33.0 kernel; Mathlib modules Algebra.Order.Field.Basic, Tactic.Ring/Linarith/FieldSimp (Proofs/Objective.lean, Props/C09.lean)",
    "axioms: at most propext, Classical.choice, Quot.sound (audited per theorem on every run)",
    "hand-written model NanoVerif/Model/Iterator.lean of targets_iterator_t / flatten_iterator_t (constructors' statistics with their "
    "own batching, batch / scaling setters, cache_flatten / cache_targets with the byte budget, cached and uncached serving paths, the "
    "three loops) on top of the C14 scaling model (Model/Scaling.lean) and a row view of the C08 dataset; tied to the code by the "
    "correspondence family `iter hist` (histories on ONE real flatten_iterator_t, every served value and every statistic compared) and "
    "by the `objective` family, whose model side now starts from the RAW dump; Model/IteratorSelect.lean of select_iterator_t "
    "(features_per_thread through the translated Gen.idiv, make_features, the three kinds of loop), family `iter select`",
    "hand-written model NanoVerif/Model/Objective.lean of pool_t::map chunking, the per-thread accumulators of linear/function.cpp + "
    "linear/accumulator.cpp + linear/util.cpp (predict), gboost/function.cpp + gboost/accumulator.cpp and reduce.h; tied to the code by the "
    "correspondence run: harness/c09.cpp on the real classes vs the compiled Lean driver fed with the chunk->worker schedule observed "
    "through the pool hook H1",
    "tools/props/c09.py: generator, independent python evaluation of the definition (own loss kernels for all 17 losses, own outputs), "
    "harness/c09.cpp (in-memory datasource, dump of the served data), g++/libstdc++/Eigen, python3 float = IEEE double",
]
ASSUMPTIONS = [
    "exact arithmetic in the theorems; floating-point re-association is bounded only empirically by the tolerance 1e-9 relative to the "
    "sum of the magnitudes of the summands (the property's own tolerance), not proved",
    "the loss is an arbitrary function of (sample, outputs) in the theorems; its kernels are the subject of C06",
    "the RAW flattened rows (dataset_t::flatten / dataset_t::targets of the iterator's samples, NaN = missing) and the per-column enable "
    "masks are taken from the implementation (C08's subject: flatten_eq_encode_select, targets_spec; in the model: Data.flat / Data.targ "
    "return the row of a stored sample and `flatten(samples)` is the list of those rows) — everything after that (statistics, scaling, "
    "NaN->0, batching, caches, per-thread serving) is modelled, proved and recomputed independently by the python oracle",
    "a cache filled under one scaling mode and read after scaling(other mode) serves the OLD scaling (stale_cache_witness + corpus op); "
    "the library always configures before caching (linear.cpp:34-37), the property's configurations are (scaling, batch, threads, cached) "
    "set in that order; the oracle checks such histories against the snapshot semantics and counts them (iter:stale-cache-history)",
    "data races on the per-thread buffers are outside the model; they are observed only through wrong results / sanitizer reports",
    "a worker executes the chunks it pops one after the other and the k-th pop takes the k-th enqueued chunk (pool protocol, C17)",
]
RULE = ("random in-memory datasets (1..200 samples, 1..10 mixed features: single/multi-label, float64 scalar/structured, int16; missing "
        "values 0-100%), regression / single-label / multi-label targets, all 17 losses, l1,l2 in {0} u [1e-6,1e6], 4 scalings, sample "
        "subsets (ranges and shuffled subsets), random parameter vectors, cluster assignments incl. unassigned, weak-learner outputs; per "
        "case the (threads, batch, cached) configurations threads in {1,2,3,16} x batch in {1,7,n-1,n,n+1,10000} x cached in {0,1} (quick: "
        "a sample of 10, thorough: all); a case is non-trivial when some configuration has >= 2 threads and >= 2 chunks; distinct by op text; "
        "plus `iter hist` histories on one iterator (1..200 samples, some 1001..1300 to cross the constructors' statistics batch of 1000; "
        "statistics batches {1,2,7,n-1,n,n+1,1000}; steps batch / scaling / cache_flatten(max_bytes) / cache_targets(max_bytes) with budgets "
        "{-1, 0, 8*n*cols-1, 8*n*cols, 2^62} / the three loops, 1..16 threads): non-trivial when a loop has >= 2 chunks or a cache is filled; "
        "plus `iter select`: select_iterator_t over 1..40 features (counts around the pool sizes 15/16/17, 31/33), the four callback kinds, "
        "all-features / feature lists (permutations, repetitions, empty) / single feature, pools of 1..16: non-trivial with >= 2 threads and "
        ">= 2 features")
FLAVOUR = {"quick": "plain", "thorough": "asan"}
RTOL = 1e-9          # the property's own tolerance (relative to the sum of the magnitudes of the summands)
HARNESS_TIMEOUT = 1500

REG_LOSSES = ["mae", "mse", "cauchy", "pinball"]
S_LOSSES = ["s-hinge", "s-squared-hinge", "s-classnll", "s-savage", "s-tangent", "s-logistic", "s-exponential"]
M_LOSSES = ["m-hinge", "m-squared-hinge", "m-savage", "m-tangent", "m-logistic", "m-exponential"]
THREADS = [1, 2, 3, 16]
EPS = 2.220446049250313e-16
M64 = (1 << 64) - 1


# ---------------------------------------------------------------------------------------------------------------------
# generator

def corpus():
    cp = os.path.join(vlib.VERIF, "corpus", "C09", "ops.txt")
    if os.path.exists(cp):
        return [l.strip() for l in open(cp) if l.strip() and not l.startswith("#")]
    return []


def batches(n):
    out = []
    for b in [1, 7, n - 1, n, n + 1, 10000]:
        if b >= 1 and b not in out:
            out.append(b)
    return out


def make_op(kind, seed, N, feats, tkind, tdim, miss, loss, l1, l2, scaling, a, b, smode, pmag, groups, unass, variants):
    fl = []
    for k, s in feats:
        fl += [k, s]
    vs = " ".join(f"{t} {bt} {c}" for t, bt, c in variants)
    return (f"objective {kind} {seed} {N} {lst(fl)} {tkind} {tdim} {miss} {loss} {f2h(l1)} {f2h(l2)} {scaling} {a} {b} {smode} "
            f"{f2h(pmag)} {groups} {unass} {len(variants)} {vs}")


def parse_op(op):
    t = Toks(op)
    fam = t.s(); kind = t.s(); seed = t.int(); N = t.int()
    fl = t.ints(); feats = [(fl[i], fl[i + 1]) for i in range(0, len(fl), 2)]
    tkind = t.s(); tdim = t.int(); miss = t.int(); loss = t.s(); l1 = t.f(); l2 = t.f(); scaling = t.int()
    a = t.int(); b = t.int(); smode = t.int(); pmag = t.f(); groups = t.int(); unass = t.int()
    V = t.int(); variants = [(t.int(), t.int(), t.int()) for _ in range(V)]
    return dict(kind=kind, seed=seed, N=N, feats=feats, tkind=tkind, tdim=tdim, miss=miss, loss=loss, l1=l1, l2=l2,
                scaling=scaling, a=a, b=b, smode=smode, pmag=pmag, groups=groups, unass=unass, variants=variants), t


def op_of(d):
    return make_op(d["kind"], d["seed"], d["N"], d["feats"], d["tkind"], d["tdim"], d["miss"], d["loss"], d["l1"], d["l2"],
                   d["scaling"], d["a"], d["b"], d["smode"], d["pmag"], d["groups"], d["unass"], d["variants"])


def reg_value(rng):
    r = rng.below(10)
    if r < 3:
        return 0.0
    if r == 3:
        return 1e6
    if r == 4:
        return 1.0
    return 10.0 ** rng.uniform(-6.0, 6.0)


def random_case(rng, tier):
    kind = rng.choice(["linear"] * 5 + ["bias"] * 2 + ["scale"] * 3 + ["grads"] * 1)
    seed = rng.u64() >> 1
    N = rng.choice([1, 2, 3, 7, 8, 9, 50, 100, 199, 200]) if rng.chance(0.4) else rng.range(1, 200)
    if kind == "linear":
        nf = rng.range(1, 10)
    else:
        nf = rng.range(1, 2)
    feats = []
    for _ in range(nf):
        k = rng.below(5)
        size = rng.range(2, 4) if k <= 1 else (rng.range(1, 4) if k == 3 else 1)
        feats.append((k, size))
    tkind = rng.choice(["R", "R", "S", "M"])
    if tkind == "R":
        tdim = rng.choice([1, 1, 2, 3, 4]); loss = rng.choice(REG_LOSSES)
    elif tkind == "S":
        tdim = rng.range(2, 5); loss = rng.choice(S_LOSSES + (["mse"] if rng.chance(0.1) else []))
    else:
        tdim = rng.range(2, 4); loss = rng.choice(M_LOSSES + (["mae"] if rng.chance(0.1) else []))
    miss = rng.choice([0, 0, 10, 30, 60, 100])
    l1 = reg_value(rng) if kind == "linear" else 0.0
    l2 = reg_value(rng) if kind == "linear" else 0.0
    scaling = rng.below(4)
    r = rng.below(10)
    if r < 6 or N == 1:
        a, b, smode = 0, N, 0
    elif r < 8:
        a = rng.range(0, N - 1); b = rng.range(a + 1, N); smode = 0
    else:
        a = 0; b = rng.range(1, N); smode = 1
    n = b - a
    pmag = rng.choice([0.0, 0.1, 1.0, 1.0, 3.0])
    if "exponential" in loss:
        pmag = min(pmag, 0.1 if (kind == "linear" and scaling == 0) else 1.0)
    groups = rng.range(1, 6)
    unass = rng.choice([0, 30, 30, 60, 100])
    allv = [(t, bt, c) for t in THREADS for bt in batches(n) for c in (0, 1)]
    # two more pool sizes of 4..15 (every pool size 1..16 occurs across a run), small batches so that every worker gets chunks
    extra = [(t, rng.choice([1, 1, 2, 7]), rng.below(2)) for t in rng.shuffle(list(range(4, 16)))[:2]]
    if tier == "thorough":
        variants = allv + extra
    else:
        variants = [(1, n, 0)]
        par = [v for v in allv if v[0] >= 2 and v[1] < n]
        if par:
            variants.append(rng.choice(par))
        variants += extra
        rest = rng.shuffle([v for v in allv if v not in variants])
        variants += rest[:10 - len(variants)]
    return make_op(kind, seed, N, feats, tkind, tdim, miss, loss, l1, l2, scaling, a, b, smode, pmag, groups, unass, variants)


def gen_reduce(rng, tier):
    """`reduce sum <samples> <W> <D> <K> {<worker> <v_1 … v_D>}*K`: nano::sum_reduce on W real accumulators for an explicit
    schedule: every W in 1..33 with every worker holding contributions (integers: every summation order is exact), plus random ones"""
    ops = []
    for W in range(1, 34):
        for rep in range(1 if tier == "quick" else 4):
            D = 2 + (W + rep) % 4
            K = W + rng.range(0, W)
            workers = list(range(W)) + [rng.below(W) for _ in range(K - W)]
            workers = rng.shuffle(workers)
            items = [f"{w} " + " ".join(f2h(float(rng.range(-1000, 1000) + (2 ** (k % 20) if d == 0 else 0))) for d in range(D))
                     for k, w in enumerate(workers)]
            ops.append(f"reduce sum {2 ** rng.range(0, 6)} {W} {D} {K} " + " ".join(items))
    for _ in range(60 if tier == "quick" else 600):
        W = rng.range(1, 40); K = rng.range(0, 3 * W); D = rng.range(2, 6)
        scale = rng.choice([1.0, 1e-3, 1e6])
        items = [f"{rng.below(W)} " + " ".join(f2h(rng.uniform(-1.0, 1.0) * scale) for _ in range(D)) for _ in range(K)]
        ops.append(f"reduce sum {rng.range(1, 1000)} {W} {D} {K} " + " ".join(items).strip())
    return [o.strip() for o in ops]


def gen(rng, tier):
    ops = corpus()
    ops += gen_reduce(rng, tier)
    ops += gen_iter(rng, tier)
    ops += gen_select(rng, tier)
    # every loss at least once per kind family, small fixed shapes (boundary: n-1, n, n+1 around tiny n)
    k = 0
    for loss in REG_LOSSES + S_LOSSES + M_LOSSES:
        tkind = "R" if loss in REG_LOSSES else ("S" if loss in S_LOSSES else "M")
        tdim = 2 if tkind != "S" else 3
        kind = ["linear", "scale", "bias", "grads"][k % 4] if tier == "quick" else None
        for kd in ([kind] if kind else ["linear", "scale", "bias", "grads"]):
            N = 9 + k
            n = N
            vs = [(1, n, 0), (3, 1, 0), (2, 7, 1), (16, n - 1, 0), (3, n + 1, 1), (16, 1, 1)]
            ops.append(make_op(kd, 1000 + k, N, [(0, 3), (2, 1), (3, 2), (4, 1), (1, 2)], tkind, tdim, 20, loss,
                               0.5 if kd == "linear" else 0.0, 2.0 if kd == "linear" else 0.0, k % 4, 0, N, 0,
                               0.5, 3, 30, vs))
        k += 1
    count = 500 if tier == "quick" else 1000
    for _ in range(count):
        ops.append(random_case(rng, tier))
    return ops


def nontrivial(op):
    if op.startswith("reduce "):
        t = op.split()
        return int(t[3]) >= 2 and int(t[5]) >= 2
    if op.startswith("iter select "):
        try:
            d, _ = parse_select(op)
        except Exception:
            return False
        return d["threads"] >= 2 and len(select_expected(d)) >= 2
    if op.startswith("iter "):
        try:
            d, _ = parse_iter(op)
        except Exception:
            return False
        n = d["b"] - d["a"]; batch = 100
        for st in d["steps"]:
            if st[0] == "B":
                batch = st[1]
            elif st[0] in ("CF", "CT") and st[1] >= 8 * n * max(d["tdim"], 1):
                return True
            elif st[0] in ("L", "LF", "LT") and batch < n:
                return True
        return False
    try:
        d, _ = parse_op(op)
    except Exception:
        return False
    n = d["b"] - d["a"]
    return any(t >= 2 and bt < n and (n + bt - 1) // bt >= 2 for t, bt, _ in d["variants"])


def distribution(ops):
    d = {}
    for op in ops:
        if op.startswith("reduce "):
            W = int(op.split()[3])
            for k in ["reduce-sum", "reduce-sum:workers" + ("1" if W == 1 else "2-3" if W < 4 else "4-8" if W < 9 else "9-16" if W < 17 else "17+")]:
                d[k] = d.get(k, 0) + 1
            continue
        if op.startswith("iter select "):
            try:
                o, _ = parse_select(op)
            except Exception:
                d["unparsed"] = d.get("unparsed", 0) + 1
                continue
            nf = len(select_expected(o))
            for k in ["iter-select", "select:mode" + o["mode"], "select:kind%d" % o["kind"],
                      "select:features" + ("0" if nf == 0 else "<threads" if nf < o["threads"] else ">=threads")]:
                d[k] = d.get(k, 0) + 1
            continue
        if op.startswith("iter "):
            try:
                o, _ = parse_iter(op)
            except Exception:
                d["unparsed"] = d.get("unparsed", 0) + 1
                continue
            n = o["b"] - o["a"]
            keys = ["iter-hist", "iter:threads" + ("1" if o["threads"] == 1 else "2-3" if o["threads"] < 4 else "4-16"),
                    "iter:n" + ("1" if n == 1 else "2-9" if n < 10 else "10-200" if n <= 200 else ">1000"),
                    "iter:stats-batch" + ("-divides-n" if n % o["sbF"] == 0 else "-remainder")]
            if iter_is_stale(op):
                keys.append("iter:stale-cache-history")
            for st in o["steps"]:
                if st[0] in ("CF", "CT"):
                    width = feat_cols(o["feats"]) if st[0] == "CF" else o["tdim"]
                    keys.append(f"iter:{st[0]}-" + ("fits" if 8 * n * width <= st[1] else "refused"))
                elif st[0] in ("L", "LF", "LT"):
                    keys.append("iter:loop-" + st[0])
            for k in keys:
                d[k] = d.get(k, 0) + 1
            continue
        try:
            o, _ = parse_op(op)
        except Exception:
            d["unparsed"] = d.get("unparsed", 0) + 1
            continue
        n = o["b"] - o["a"]
        for k in [o["kind"], "loss:" + o["loss"], "scaling:%d" % o["scaling"], "target:" + o["tkind"],
                  "n:" + ("1" if n == 1 else "2-9" if n < 10 else "10-99" if n < 100 else "100-200"),
                  "l1>0" if o["l1"] > 0 else "l1=0", "l2>0" if o["l2"] > 0 else "l2=0",
                  "subset" if (o["smode"] == 1 or n != o["N"]) else "all-samples"]:
            d[k] = d.get(k, 0) + 1
        if o["loss"] in ("mse", "mae") and n * ((feat_cols(o["feats"]) if o["kind"] == "linear" else 0) + o["tdim"]) <= 600:
            d["end-to-end-model-function-run"] = d.get("end-to-end-model-function-run", 0) + 1
        for t, bt, c in o["variants"]:
            key = f"cfg:threads{t}/" + ("batch1" if bt == 1 else "batch<n" if bt < n else "batch=n" if bt == n else "batch>n") + ("/cached" if c else "")
            d[key] = d.get(key, 0) + 1
    return d



# ---------------------------------------------------------------------------------------------------------------------
# independent recomputation of the statistics and of the scaling from the RAW data (C14's documented formulas)

class Col:
    """statistics of one column over all the rows (two-pass, math.fsum): count of finite values, min, max, mean, stdev,
    the eps-guarded divisors; a disabled (categorical) column and a column with < 2 values are left as they are"""
    def __init__(self, vals, enabled, eps):
        v = [x for x in vals if math.isfinite(x)]
        self.n = len(v); self.enabled = bool(enabled)
        self.mn = self.mx = self.mean = self.sd = 0.0
        self.div_range = self.mul_range = self.div_sd = self.mul_sd = 1.0
        self.sumsq = math.fsum(x * x for x in v); self.maxabs = max([abs(x) for x in v] + [0.0]); self.S = 0.0
        self.meanabs = math.fsum(abs(x) for x in v) / self.n if self.n else 0.0
        if not self.enabled or self.n == 0:
            return
        self.mn, self.mx = min(v), max(v)
        self.mean = math.fsum(v) / self.n
        if self.n >= 2:
            self.S = math.fsum((x - self.mean) ** 2 for x in v)
            self.sd = math.sqrt(self.S / (self.n - 1))
            self.mul_range = max(self.mx - self.mn, eps); self.div_range = 1.0 / self.mul_range
            self.mul_sd = max(self.sd, eps); self.div_sd = 1.0 / self.mul_sd

    def centre_div(self, mode):
        if mode == 1:
            return self.mean, self.div_range
        if mode == 2:
            return self.mn, self.div_range
        if mode == 3:
            return self.mean, self.div_sd
        return 0.0, 1.0

    def scale(self, x, mode):
        if not math.isfinite(x):
            return 0.0                                  # missing -> 0
        if mode == 0:
            return x
        c, d = self.centre_div(mode)
        return (x - c) * d

    def tol(self, x, mode):
        """|served - ours| allowed: 1e-12 relative to the column magnitude times the divisor; for the standard mode also the
        one-pass variance's cancellation error (None: numerically constant column, the quotient is not determined)"""
        c, d = self.centre_div(mode)
        t = 1e-12 * (1.0 + (abs(x) + self.maxabs) * abs(d))
        if mode == 3 and self.enabled and self.n >= 2:
            if self.S <= 1e-11 * (self.n + 10) * self.sumsq:
                return None
            t += abs((x - c) * d) * 1e-14 * (self.n + 10) * self.sumsq / self.S
        return t


def scale_matrix(raw, n, k, en, mode, eps):
    cols = [Col([raw[i * k + j] for i in range(n)], en[j], eps) for j in range(k)]
    return [cols[j].scale(raw[i * k + j], mode) for i in range(n) for j in range(k)], cols


def served_mismatch(what, served, mine, raw, n, k, cols, mode):
    if len(served) != n * k:
        return f"{what}: {len(served)} values served, {n}x{k} expected"
    for i in range(n):
        for j in range(k):
            a = served[i * k + j]; b = mine[i * k + j]; x = raw[i * k + j]
            if a == b:
                continue
            tol = cols[j].tol(x, mode) if math.isfinite(x) else 0.0
            if tol is None:
                continue
            if not (abs(a - b) <= tol):
                c = cols[j]
                return (f"{what}: sample position {i}, column {j} (scaling mode {mode}, {'scalable' if c.enabled else 'categorical'}, "
                        f"{c.n} finite values): raw {x!r} served as {a!r}, the definition nan2zero(scale(raw)) gives {b!r} "
                        f"[min {c.mn!r} max {c.mx!r} mean {c.mean!r} stdev {c.sd!r}]")
    return None


def stats_mismatch(what, st, cols):
    """the dumped scalar_stats_t (list of 9-tuples) against the recomputed column statistics"""
    if len(st) != len(cols):
        return f"{what}: statistics of {len(st)} columns, {len(cols)} expected"
    for j, ((cnt, mn, mx, mean, sd, dr, mr, dsd, msd), c) in enumerate(zip(st, cols)):
        name = f"{what} column {j} ({c.n} finite values, {'scalable' if c.enabled else 'categorical'})"
        if cnt != c.n:
            return f"{name}: counts {cnt} samples"
        if not c.enabled or c.n <= 1:
            want = (c.mn, c.mx, c.mean, 0.0, 1.0, 1.0, 1.0, 1.0)
            if (mn, mx, mean, sd, dr, mr, dsd, msd) != want:
                return f"{name}: statistics {(mn, mx, mean, sd, dr, mr, dsd, msd)} instead of {want}"
            continue
        if mn != c.mn or mx != c.mx:
            return f"{name}: min/max {mn!r}/{mx!r} != {c.mn!r}/{c.mx!r}"
        if not abs(mean - c.mean) <= 1e-14 * (c.n + 10) * c.meanabs + 1e-300:
            return f"{name}: mean {mean!r} != {c.mean!r}"
        if not abs(sd * sd * (c.n - 1) - c.S) <= 1e-14 * (c.n + 10) * c.sumsq + 1e-300:
            return f"{name}: stdev {sd!r} != {c.sd!r}"
        eps = EPS2
        for got, want, nm in [(mr, max(mx - mn, eps), "mul_range"), (dr, 1.0 / max(mx - mn, eps), "div_range"),
                              (msd, max(sd, eps), "mul_stdev"), (dsd, 1.0 / max(sd, eps), "div_stdev")]:
            if not abs(got - want) <= 1e-14 * abs(want):
                return f"{name}: {nm} {got!r} != {want!r}"
    return None


EPS2 = None   # epsilon2<scalar_t>() as dumped by the harness (set per op)


# ---------------------------------------------------------------------------------------------------------------------
# family `iter hist`: histories on one flatten_iterator_t

BIG = 1 << 62


def make_iter(seed, N, feats, tkind, tdim, miss, a, b, smode, threads, sbF, sbT, steps):
    fl = []
    for k, sz in feats:
        fl += [k, sz]
    st = " ".join(" ".join(str(x) for x in stp) for stp in steps)
    return f"iter hist {seed} {N} {lst(fl)} {tkind} {tdim} {miss} {a} {b} {smode} {threads} {sbF} {sbT} {len(steps)} {st}".strip()


def feat_cols(feats):
    return sum((sz - 1) if k == 0 else (sz if k in (1, 3) else 1) for k, sz in feats)


def parse_iter(op):
    t = Toks(op)
    t.s(); t.s()
    d = dict(seed=t.int(), N=t.int())
    fl = t.ints(); d["feats"] = [(fl[i], fl[i + 1]) for i in range(0, len(fl), 2)]
    d["tkind"] = t.s(); d["tdim"] = t.int(); d["miss"] = t.int(); d["a"] = t.int(); d["b"] = t.int(); d["smode"] = t.int()
    d["threads"] = t.int(); d["sbF"] = t.int(); d["sbT"] = t.int()
    K = t.int(); steps = []
    for _ in range(K):
        k = t.s()
        steps.append((k, t.int()) if k in ("B", "S", "CF", "CT") else (k,))
    d["steps"] = steps
    return d, t


def iter_of(d):
    return make_iter(d["seed"], d["N"], d["feats"], d["tkind"], d["tdim"], d["miss"], d["a"], d["b"], d["smode"], d["threads"],
                     d["sbF"], d["sbT"], d["steps"])


def gen_iter_case(rng, tier, big=False):
    seed = rng.u64() >> 1
    if big:
        N = rng.range(1001, 1300)
    else:
        N = rng.choice([1, 2, 3, 7, 8, 9, 50, 100, 199, 200]) if rng.chance(0.4) else rng.range(1, 200)
    feats = []
    for _ in range(rng.range(1, 3 if big else 6)):
        k = rng.below(5)
        feats.append((k, rng.range(2, 4) if k <= 1 else (rng.range(1, 4) if k == 3 else 1)))
    tkind = rng.choice(["R", "R", "S", "M"])
    tdim = rng.choice([1, 1, 2, 3]) if tkind == "R" else rng.range(2, 4)
    miss = rng.choice([0, 0, 10, 30, 60, 100])
    r = rng.below(10)
    if r < 6 or N == 1 or big:
        a, b, smode = 0, N, 0
    elif r < 8:
        a = rng.range(0, N - 1); b = rng.range(a + 1, N); smode = 0
    else:
        a = 0; b = rng.range(1, N); smode = 1
    n = b - a
    threads = rng.choice([1, 2, 3, 16, rng.range(4, 15)])
    sbs = [x for x in [1, 2, 7, n - 1, n, n + 1, 1000] if x >= 1]
    if big:
        sbs = [x for x in sbs if x >= 7]
    sbF = rng.choice(sbs); sbT = rng.choice(sbs)
    cols = feat_cols(feats)
    tc = tdim
    bt = lambda: rng.choice([b_ for b_ in ([1, 7, n - 1, n, n + 1, 10000] if not big else [100, 333, 1000, n]) if b_ >= 1])
    budget = lambda c: rng.choice([BIG, BIG, BIG, 8 * n * c, 8 * n * c - 1, 0, -1])
    steps = []
    r = rng.below(20)
    m = rng.below(4)
    if r == 0:
        # a cache filled under one scaling, read after scaling(another): the cached path serves the old scaling
        m2 = rng.choice([x for x in range(4) if x != m])
        steps = [("B", bt()), ("S", m), ("CF", BIG), ("CT", BIG), ("S", m2), ("L",)]
    elif r == 1:
        # cache_targets with a too small budget keeps the cache filled before; cache_flatten empties it
        steps = [("B", bt()), ("S", m), ("CF", BIG), ("CT", BIG), ("B", bt()), ("CF", 8 * n * cols - 1), ("CT", 8 * n * tc - 1), ("L",)]
    elif r == 2:
        steps = [("S", m), ("L",), ("B", bt()), ("LT",), ("CF", budget(cols)), ("LF",), ("B", bt()), ("L",)]
    else:
        steps = [("B", bt()), ("S", m)]
        if rng.chance(0.6):
            steps.append(("CF", budget(cols)))
        if rng.chance(0.6):
            steps.append(("CT", budget(tc)))
        steps.append((rng.choice(["L", "L", "L", "LT", "LF"]),))
        if rng.chance(0.4):
            steps += [("B", bt()), (rng.choice(["L", "LT", "LF"]),)]
    return make_iter(seed, N, feats, tkind, tdim, miss, a, b, smode, threads, sbF, sbT, steps)


def gen_iter(rng, tier):
    ops = []
    # fixed small shapes: n not a multiple of the statistics batch, N = 2 (statistics need N > 1, not N > 2), every mode
    for m in range(4):
        for (N, sb) in [(2, 1), (3, 2), (7, 3), (10, 7)]:
            ops.append(make_iter(7000 + m, N, [(2, 1), (0, 3), (4, 1), (3, 2), (1, 2)], "R", 2, 0 if N == 2 else 20, 0, N, 0,
                                 [1, 2, 3, 16][m], sb, sb, [("B", 3), ("S", m), ("L",), ("CF", BIG), ("CT", BIG), ("L",), ("LT",)]))
    for _ in range(150 if tier == "quick" else 600):
        ops.append(gen_iter_case(rng, tier))
    for _ in range(3 if tier == "quick" else 20):
        ops.append(gen_iter_case(rng, tier, big=True))
    return ops


def parse_stats(r):
    k = r.int()
    out = []
    for _ in range(k):
        cnt = r.int()
        out.append((cnt,) + tuple(r.f() for _ in range(8)))
    return out


def iter_walk(aug, res):
    """shared by the oracle: parses op, dump and result; returns (None, why) or (info, None)"""
    global EPS2
    d, t = parse_iter(aug)
    if t.s() != "|":
        return "no dump"
    workers = t.int()
    if t.s() != "raw":
        return "no raw dump"
    eps = t.f(); t.f(); t.f()
    EPS2 = eps
    enF = t.ints(); enT = t.ints()
    k = t.int(); RX = [h2f(x) for x in t.t[t.i:t.i + k]]; t.i += k
    k = t.int(); RT = [h2f(x) for x in t.t[t.i:t.i + k]]; t.i += k
    asgs = [t.ints() for _ in d["steps"]]
    if not t.done():
        return "trailing tokens in the dump"
    n = d["b"] - d["a"]; s = len(enF); ts = len(enT)
    if s != feat_cols(d["feats"]):
        return f"{s} flattened columns, the features of the op have {feat_cols(d['feats'])}"
    if len(RX) != n * s or len(RT) != n * ts:
        return "raw dump sizes"
    r = Toks(res)
    if r.s() != "ok":
        return f"implementation did not answer ok: {res[:120]}"
    sF = parse_stats(r); sT = parse_stats(r); dF = parse_stats(r); dT = parse_stats(r)
    colsF = [Col([RX[i * s + j] for i in range(n)], enF[j], eps) for j in range(s)]
    colsT = [Col([RT[i * ts + j] for i in range(n)], enT[j], eps) for j in range(ts)]
    for what, st, cols in [("iterator flatten_stats:", sF, colsF), ("iterator targets_stats:", sT, colsT),
                           (f"make_flatten_stats(batch={d['sbF']}):", dF, colsF), (f"make_targets_stats(batch={d['sbT']}):", dT, colsT)]:
        why = stats_mismatch(what, st, cols)
        if why:
            return "[statistics] " + why
    # the walk: batch, mode, and for each cache the mode it was filled under (None: not cached)
    batch, mode, fmode, tmode = 100, 0, None, None
    stale = False
    for (step, asg) in zip(d["steps"], asgs):
        kind = step[0]
        if kind == "B":
            batch = step[1]
        elif kind == "S":
            mode = step[1]
        elif kind in ("CF", "CT"):
            width = s if kind == "CF" else ts
            fits = 8 * n * width <= step[1]
            if r.s() != "c":
                return "result layout"
            flag = r.int()
            if flag != (1 if fits else 0):
                return (f"[cache-budget] {'cache_flatten' if kind == 'CF' else 'cache_targets'}({step[1]}) returned {flag}: "
                        f"{n} samples x {width} columns x 8 bytes = {8 * n * width}")
            if fits:
                nch = (n + batch - 1) // batch
                if len(asg) != nch or any(w < 0 or w >= workers for w in asg):
                    return f"[schedule] cache fill: {len(asg)} chunks executed by workers {asg[:8]} of {workers} (expected {nch} chunks)"
                if kind == "CF":
                    fmode = mode
                else:
                    tmode = mode
            elif kind == "CF":
                fmode = None            # cache_flatten empties the cache first; cache_targets keeps an older one
        else:
            if r.s() != "l":
                return "result layout"
            nch = r.int()
            bounds = [(r.int(), r.int()) for _ in range(nch)]
            cmin = r.int(); cmax = r.int()
            k = r.int(); X = [h2f(x) for x in r.t[r.i:r.i + k]]; r.i += k
            k = r.int(); T = [h2f(x) for x in r.t[r.i:r.i + k]]; r.i += k
            cfg = f"loop {kind} batch={batch} scaling={mode} threads={d['threads']} cachedF={fmode is not None} cachedT={tmode is not None}"
            want = [(b0, min(b0 + batch, n)) for b0 in range(0, n, batch)]
            if bounds != want:
                return f"[ranges] {cfg}: ranges {bounds[:6]}… handed to the callback, expected {want[:6]}…"
            if cmin != 1 or cmax != 1:
                return f"[ranges] {cfg}: a sample was served {cmin if cmin != 1 else cmax} times"
            if len(asg) != nch or any(w < 0 or w >= workers for w in asg):
                return f"[schedule] {cfg}: workers {asg[:8]} of {workers}"
            if kind in ("L", "LF"):
                em = mode if fmode is None else fmode
                stale = stale or em != mode
                mine, cols = scale_matrix(RX, n, s, enF, em, eps)
                why = served_mismatch("inputs", X, mine, RX, n, s, cols, em)
                if why:
                    return f"[served-vs-raw] {cfg}: {why}"
            elif X:
                return f"[ranges] {cfg}: inputs served by a targets-only loop"
            if kind in ("L", "LT"):
                em = mode if tmode is None else tmode
                stale = stale or em != mode
                mine, cols = scale_matrix(RT, n, ts, enT, em, eps)
                why = served_mismatch("targets", T, mine, RT, n, ts, cols, em)
                if why:
                    return f"[served-vs-raw] {cfg}: {why}"
            elif T:
                return f"[ranges] {cfg}: targets served by an inputs-only loop"
    if not r.done():
        return "result layout: trailing tokens"
    return None


def oracle_iter(aug, res):
    try:
        why = iter_walk(aug, res)
    except (ValueError, IndexError) as ex:
        return f"[dump] {ex}"
    if why is None:
        return None
    return why if why.startswith("[") else f"[dump] {why}"


def iter_is_stale(op):
    """a loop reads a cache that was filled under another scaling mode (decided from the op text alone; budgets: by size)"""
    try:
        d, _ = parse_iter(op)
    except Exception:
        return False
    n = d["b"] - d["a"]; s = feat_cols(d["feats"]); ts = d["tdim"]
    mode, fm, tm = 0, None, None
    for st in d["steps"]:
        if st[0] == "S":
            mode = st[1]
        elif st[0] == "CF":
            fm = mode if 8 * n * s <= st[1] else None
        elif st[0] == "CT":
            tm = mode if 8 * n * ts <= st[1] else tm
        elif st[0] in ("L", "LF") and fm is not None and fm != mode:
            return True
        if st[0] in ("L", "LT") and tm is not None and tm != mode:
            return True
    return False


def compare_iter(impl_line, model_line):
    a, m = impl_line.split(), model_line.split()
    if len(a) != len(m) or not a or a[0] != "ok":
        return False
    for x, y in zip(a, m):
        if x == y:
            continue
        if vlib.is_hexf(x) and vlib.is_hexf(y) and x != "nan" and y != "nan":
            fx, fy = h2f(x), h2f(y)
            if abs(fx - fy) <= 1e-12 * max(abs(fx), abs(fy)) + 1e-300:
                continue
        return False
    return True


# ---------------------------------------------------------------------------------------------------------------------
# family `iter select`: select_iterator_t

def feat_kind(k, sz):
    """kind of the generated feature as select_iterator_t sees it: 0 sclass, 1 mclass, 2 scalar, 3 struct"""
    return 0 if k == 0 else 1 if k == 1 else (3 if (k == 3 and sz > 1) else 2)


def dataset_kinds(feats):
    """the dataset's features: the four identity generators are added in the order sclass, mclass, scalar, struct"""
    ks = [feat_kind(k, sz) for k, sz in feats]
    return sorted(ks)


def make_select(seed, N, feats, tkind, tdim, miss, a, b, smode, threads, kind, mode, arg=None):
    fl = []
    for k, sz in feats:
        fl += [k, sz]
    tail = "A" if mode == "A" else (f"L {lst(arg)}" if mode == "L" else f"O {arg}")
    return f"iter select {seed} {N} {lst(fl)} {tkind} {tdim} {miss} {a} {b} {smode} {threads} {kind} {tail}"


def parse_select(op):
    t = Toks(op)
    t.s(); t.s()
    d = dict(seed=t.int(), N=t.int())
    fl = t.ints(); d["feats"] = [(fl[i], fl[i + 1]) for i in range(0, len(fl), 2)]
    d["tkind"] = t.s(); d["tdim"] = t.int(); d["miss"] = t.int(); d["a"] = t.int(); d["b"] = t.int(); d["smode"] = t.int()
    d["threads"] = t.int(); d["kind"] = t.int(); d["mode"] = t.s()
    d["arg"] = t.ints() if d["mode"] == "L" else (t.int() if d["mode"] == "O" else None)
    return d, t


def select_of(d):
    return make_select(d["seed"], d["N"], d["feats"], d["tkind"], d["tdim"], d["miss"], d["a"], d["b"], d["smode"], d["threads"],
                       d["kind"], d["mode"], d["arg"])


def select_expected(d):
    """the features the callback must be called for (with multiplicity)"""
    ks = dataset_kinds(d["feats"])
    if d["mode"] == "A":
        return [i for i, k in enumerate(ks) if k == d["kind"]]
    if d["mode"] == "L":
        return list(d["arg"])
    return [d["arg"]]


def gen_select(rng, tier):
    ops = []
    for _ in range(60 if tier == "quick" else 300):
        seed = rng.u64() >> 1
        N = rng.range(1, 40)
        nf = rng.choice([1, 2, 3, 5, 8, 15, 16, 17, 31, 33]) if rng.chance(0.5) else rng.range(1, 40)
        feats = []
        for _ in range(nf):
            k = rng.below(5)
            feats.append((k, rng.range(2, 4) if k <= 1 else (rng.range(1, 3) if k == 3 else 1)))
        tkind = rng.choice(["R", "S", "M"]); tdim = 1 if tkind == "R" else 2
        miss = rng.choice([0, 20, 60])
        a, b, smode = 0, N, 0
        if N > 2 and rng.chance(0.3):
            a = 0; b = rng.range(1, N); smode = 1
        threads = rng.choice([1, 2, 3, 4, 7, 16])
        ks = dataset_kinds(feats)
        kind = rng.below(4)
        mine = [i for i, k in enumerate(ks) if k == kind]
        r = rng.below(10)
        if r < 5 or not mine:
            ops.append(make_select(seed, N, feats, tkind, tdim, miss, a, b, smode, threads, kind, "A"))
        elif r < 9:
            m = rng.range(0, 2 * len(mine))
            lst_ = [rng.choice(mine) for _ in range(m)] if rng.chance(0.5) else rng.shuffle(list(mine))[:max(1, m)]
            ops.append(make_select(seed, N, feats, tkind, tdim, miss, a, b, smode, threads, kind, "L", lst_))
        else:
            ops.append(make_select(seed, N, feats, tkind, tdim, miss, a, b, smode, threads, kind, "O", rng.choice(mine)))
    return ops


def oracle_select(aug, res):
    try:
        d, t = parse_select(aug)
        if t.s() != "|":
            return "[dump] no dump"
        workers = t.int(); kinds = t.ints(); asg = t.ints()
        r = Toks(res)
        if r.s() != "ok":
            return f"[no-answer] implementation did not answer ok: {res[:120]}"
        ncalls = r.int(); bad = r.int()
        rows = []
        while not r.done():
            rows.append((r.int(), r.int(), r.int()))
    except (ValueError, IndexError) as ex:
        return f"[dump] {ex}"
    if kinds != dataset_kinds(d["feats"]):
        return f"[dump] feature kinds {kinds} of the dataset, {dataset_kinds(d['feats'])} expected from the op"
    want = {}
    for f in select_expected(d):
        want[f] = want.get(f, 0) + 1
    got = {f: c for f, c, _ in rows}
    if got != want or ncalls != sum(want.values()):
        return (f"[select-visits] threads={d['threads']} kind={d['kind']} mode={d['mode']}: callback called for {got} "
                f"({ncalls} calls), expected every feature of the list exactly once: {want}")
    if bad:
        return f"[select-tnum] {bad} calls with a thread number >= {workers}"
    for f, c, e in rows:
        if e != c:
            return f"[select-values] feature {f}: {c - e} of {c} calls received values different from dataset.select(samples, {f})"
    if any(w < 0 or w >= workers for w in asg):
        return f"[schedule] workers {asg[:8]} of {workers}"
    return None


# ---------------------------------------------------------------------------------------------------------------------
# independent evaluation of the definition

def _exp(x):
    try:
        return math.exp(x)
    except OverflowError:
        return float("inf")


def sign(x):
    return (x > 0) - (x < 0)


def loss_value(loss, tg, o):
    base = loss[2:] if loss[:2] in ("s-", "m-") else loss
    if base == "mae":
        return math.fsum(abs(a - b) for a, b in zip(o, tg))
    if base == "mse":
        return 0.5 * math.fsum((a - b) * (a - b) for a, b in zip(o, tg))
    if base == "cauchy":
        return 0.5 * math.fsum(math.log((b - a) * (b - a) + 1.0) for a, b in zip(o, tg))
    if base == "pinball":
        return math.fsum(0.5 * max(b - a, 0.0) + 0.5 * max(a - b, 0.0) for a, b in zip(o, tg))
    if base == "hinge":
        return math.fsum(max(1.0 - b * a, 0.0) for a, b in zip(o, tg))
    if base == "squared-hinge":
        return math.fsum(max(1.0 - b * a, 0.0) ** 2 for a, b in zip(o, tg))
    if base == "classnll":
        omax = max(o)
        return math.log(EPS + math.fsum(_exp(a - omax) for a in o)) - math.fsum(a for a, b in zip(o, tg) if b > 0) + omax
    if base == "savage":
        return math.fsum(1.0 / (1.0 + _exp(b * a)) ** 2 for a, b in zip(o, tg))
    if base == "tangent":
        return math.fsum((2.0 * math.atan(b * a) - 1.0) ** 2 for a, b in zip(o, tg))
    if base == "logistic":
        tot = []
        for a, b in zip(o, tg):
            x = -b * a
            tot.append(math.log1p(_exp(x)) if x < 1.0 else x + math.log1p(_exp(-x)))
        return math.fsum(tot)
    if base == "exponential":
        return math.fsum(_exp(-b * a) for a, b in zip(o, tg))
    raise ValueError("loss " + loss)


def loss_grad(loss, tg, o):
    """(gradient w.r.t. the outputs, kink flags: True where the (sub)gradient is not unique up to rounding)"""
    base = loss[2:] if loss[:2] in ("s-", "m-") else loss
    K = 1e-9
    if base == "mae":
        return [float(sign(a - b)) for a, b in zip(o, tg)], [abs(a - b) < K for a, b in zip(o, tg)]
    if base == "mse":
        return [a - b for a, b in zip(o, tg)], [False] * len(o)
    if base == "cauchy":
        return [(a - b) / (1.0 + (a - b) * (a - b)) for a, b in zip(o, tg)], [False] * len(o)
    if base == "pinball":
        return [-0.5 + 0.5 * (1.0 - sign(b - a)) for a, b in zip(o, tg)], [abs(a - b) < K for a, b in zip(o, tg)]
    if base == "hinge":
        return [-b * (sign(1.0 - b * a) + 1.0) * 0.5 for a, b in zip(o, tg)], [abs(1.0 - b * a) < K for a, b in zip(o, tg)]
    if base == "squared-hinge":
        return [-b * max(1.0 - b * a, 0.0) * 2.0 for a, b in zip(o, tg)], [False] * len(o)
    if base == "classnll":
        omax = max(o)
        e = [_exp(a - omax) for a in o]
        z = math.fsum(e)
        return [ei / z - (1.0 if b > 0 else 0.0) for ei, b in zip(e, tg)], [False] * len(o)
    if base == "savage":
        return [-2.0 * b / ((1.0 + _exp(b * a)) ** 2 * (1.0 + _exp(-b * a))) for a, b in zip(o, tg)], [False] * len(o)
    if base == "tangent":
        return [4.0 * b * (2.0 * math.atan(b * a) - 1.0) / (1.0 + (b * a) ** 2) for a, b in zip(o, tg)], [False] * len(o)
    if base == "logistic":
        out = []
        for a, b in zip(o, tg):
            x = -b * a
            g = (_exp(x) / (1.0 + _exp(x))) if x < 1.0 else 1.0 / (1.0 + _exp(-x))
            out.append(-b * g)
        return out, [False] * len(o)
    if base == "exponential":
        return [-b * _exp(-b * a) for a, b in zip(o, tg)], [False] * len(o)
    raise ValueError("loss " + loss)


def near(a, b, rtol, atol=0.0):
    if a != a or b != b:
        return (a != a) and (b != b)
    if a == b:
        return True
    return abs(a - b) <= atol + rtol * max(abs(a), abs(b))


def bits(tok):
    return 0x7ff8000000000000 if tok == "nan" else int(tok, 16)


class Ref:
    pass


@functools.lru_cache(maxsize=8)
def reference(aug):
    """parses the augmented op and evaluates the definition of the objective from the dumped inputs, independently of
    the library and of the Lean model; raises ValueError with the reason when the dump itself is inconsistent"""
    op, t = parse_op(aug)
    if t.s() != "|":
        raise ValueError("no dump")
    R = Ref()
    R.op = op
    kind, loss = op["kind"], op["loss"]
    n = t.int(); s = t.int(); ts = t.int(); d = t.int()
    R.n, R.s, R.t, R.d = n, s, ts, d

    def ftoks():
        k = t.int()
        v = t.t[t.i:t.i + k]; t.i += k
        return v
    Xt = ftoks(); Tt = ftoks(); Pt = ftoks(); Lt = ftoks(); Gt = ftoks(); SOt = ftoks(); WOt = ftoks()
    GR = t.ints()
    V = t.int()
    R.sched = []
    for _ in range(V):
        w = t.int(); bt = t.int(); asg = t.ints()
        R.sched.append((w, bt, asg))
    if t.done() or t.s() != "raw":
        raise ValueError("no raw dump")
    eps = t.f(); t.f(); t.f()
    enF = t.ints(); enT = t.ints()
    RXt = ftoks(); RTt = ftoks()
    if not t.done():
        raise ValueError("trailing tokens in the dump")
    h = 0xCBF29CE484222325
    for tok in Xt + Tt:
        h = ((h ^ bits(tok)) * 0x100000001B3) & M64
    R.hash = "h%016x" % h
    X = [h2f(x) for x in Xt]; T = [h2f(x) for x in Tt]; P = [h2f(x) for x in Pt]
    Lv = [h2f(x) for x in Lt]; G = [h2f(x) for x in Gt]; SO = [h2f(x) for x in SOt]; WO = [h2f(x) for x in WOt]
    R.nonfinite = sum(1 for v in X + T if not math.isfinite(v))
    # ---- end to end: the definition's data are recomputed here from the RAW dump (statistics + scaling, C14's documented
    #      formulas); what the iterator served must agree with them, and the definition below is evaluated on OUR data
    if len(enF) != s or len(enT) != ts or len(RXt) != n * s or len(RTt) != n * ts:
        raise ValueError("raw dump sizes")
    RX = [h2f(x) for x in RXt]; RT = [h2f(x) for x in RTt]
    mode = op["scaling"]
    myX, fst = scale_matrix(RX, n, s, enF, mode, eps)
    myT, tst = scale_matrix(RT, n, ts, enT, mode, eps)
    R.raw_mismatch = served_mismatch("inputs", X, myX, RX, n, s, fst, mode) or served_mismatch("targets", T, myT, RT, n, ts, tst, mode)
    if R.raw_mismatch is None:
        X, T = list(myX), list(myT)
    if len(T) != n * ts or len(Lv) != n or len(G) != n * ts or len(P) != d or n != op["b"] - op["a"]:
        raise ValueError("dump sizes")
    if kind == "linear" and (len(X) != n * s or d != ts * s + ts):
        raise ValueError("dump sizes (linear)")
    if kind == "scale" and (len(SO) != n * ts or len(WO) != n * ts or len(GR) != n or d != op["groups"]):
        raise ValueError("dump sizes (scale)")
    if kind == "bias" and d != ts:
        raise ValueError("dump sizes (bias)")
    if kind == "grads" and d != n * ts:
        raise ValueError("dump sizes (grads)")

    # outputs of every sample, from the definition
    O = []
    for i in range(n):
        if kind == "linear":
            xi = X[i * s:(i + 1) * s]
            O.append([sum(xi[j] * P[k * s + j] for j in range(s)) + P[ts * s + k] for k in range(ts)])
        elif kind == "bias":
            O.append(P[:ts])
        elif kind == "scale":
            g = GR[i]
            if g >= d:
                raise ValueError("group out of range")
            sc = 0.0 if g < 0 else P[g]
            O.append([SO[i * ts + k] if g < 0 else SO[i * ts + k] + sc * WO[i * ts + k] for k in range(ts)])
        else:
            O.append(P[i * ts:(i + 1) * ts])

    # per-sample loss values / gradients: own kernels; the dumped ones (library's loss) must agree
    ell = []; grads = []
    R.dump_mismatch = None
    for i in range(n):
        tg = T[i * ts:(i + 1) * ts]
        v = loss_value(loss, tg, O[i])
        g, kink = loss_grad(loss, tg, O[i])
        if not near(v, Lv[i], 1e-9, 1e-12) and R.dump_mismatch is None:
            R.dump_mismatch = f"sample {i}: library loss value {Lv[i]!r} vs definition {v!r}"
        for k in range(ts):
            if kink[k]:
                g[k] = G[i * ts + k]          # sub-gradient not unique here: take the library's choice
            elif not near(g[k], G[i * ts + k], 1e-9, 1e-12) and R.dump_mismatch is None:
                R.dump_mismatch = f"sample {i} output {k}: library loss gradient {G[i * ts + k]!r} vs definition {g[k]!r}"
        ell.append(v); grads.append(g)

    fn = float(n)
    R.value = math.fsum(ell) / fn
    R.value_scale = math.fsum(abs(v) for v in ell) / fn
    if kind == "linear":
        l1, l2 = op["l1"], op["l2"]
        W = P[:ts * s]; size = float(ts * s)
        R.value += l1 * (math.fsum(abs(w) for w in W) / size) + l2 / 2.0 * (math.fsum(w * w for w in W) / size)
        R.value_scale = abs(R.value_scale) + l1 * (math.fsum(abs(w) for w in W) / size) + l2 / 2.0 * (math.fsum(w * w for w in W) / size)
        gd = []; gs = []
        for k in range(ts):
            col = [grads[i][k] for i in range(n)]
            for j in range(s):
                terms = [col[i] * X[i * s + j] for i in range(n)]
                w = W[k * s + j]
                reg = l1 * sign(w) / size + l2 * w / size
                gd.append(math.fsum(terms) / fn + reg)
                gs.append(math.fsum(abs(x) for x in terms) / fn + abs(l1 * sign(w) / size) + abs(l2 * w / size))
        for k in range(ts):
            col = [grads[i][k] for i in range(n)]
            gd.append(math.fsum(col) / fn)
            gs.append(math.fsum(abs(x) for x in col) / fn)
    elif kind == "bias":
        gd = []; gs = []
        for k in range(ts):
            col = [grads[i][k] for i in range(n)]
            gd.append(math.fsum(col) / fn)
            gs.append(math.fsum(abs(x) for x in col) / fn)
    elif kind == "scale":
        gd = []; gs = []
        for q in range(d):
            terms = []; mags = []
            for i in range(n):
                if GR[i] == q:
                    pr = [grads[i][k] * WO[i * ts + k] for k in range(ts)]
                    terms.append(math.fsum(pr)); mags.append(math.fsum(abs(x) for x in pr))
            gd.append(math.fsum(terms) / fn)
            gs.append(math.fsum(mags) / fn)
    else:
        gd = [grads[i][k] / fn for i in range(n) for k in range(ts)]
        gs = [abs(x) for x in gd]
    R.grad, R.grad_scale = gd, gs
    return R


def parse_impl(res):
    r = Toks(res)
    if r.s() != "ok":
        return None
    V = r.int()
    out = []
    for _ in range(V):
        h = r.s(); fx0 = r.f(); fx = r.f(); g = r.fs()
        out.append((h, fx0, fx, g))
    if not r.done():
        return None
    return out


def within(a, b, scale):
    """|a - b| <= RTOL * (sum of the magnitudes of the summands); NaN/inf must coincide"""
    if a != a or b != b:
        return (a != a) and (b != b)
    if a == b:
        return True
    if math.isinf(a) or math.isinf(b) or not math.isfinite(scale):
        return False
    return abs(a - b) <= RTOL * max(scale, abs(a), abs(b)) if scale == scale else False


def reduce_ref(op):
    """(plain sums / samples, magnitude scale) per component of a `reduce sum` op — python's exact fsum, no schedule involved"""
    r = Toks(op); r.s(); r.s()
    n, W, D, K = r.int(), r.int(), r.int(), r.int()
    cols = [[] for _ in range(D)]
    for _ in range(K):
        r.int()
        for d in range(D):
            cols[d].append(r.f())
    return [(math.fsum(c) / n, math.fsum(abs(v) for v in c) / n) for c in cols]


def oracle_reduce(op, res):
    a = Toks(res)
    if a.s() != "ok":
        return f"[reduce] implementation did not answer ok: {res[:120]}"
    got = a.fs()
    ref = reduce_ref(op)
    if len(got) != len(ref):
        return "[reduce] wrong size"
    for d, (g, (want, mag)) in enumerate(zip(got, ref)):
        if not abs(g - want) <= 1e-12 * mag + 5e-324:
            return (f"[reduce] sum_reduce over {op.split()[3]} accumulators: component {d}: reduced value {g!r} differs from "
                    f"(the sum of all contributions) / samples = {want!r}")
    return None


def oracle(aug, res):
    if aug.startswith("reduce "):
        return oracle_reduce(aug, res)
    if aug.startswith("iter select "):
        return oracle_select(aug, res)
    if aug.startswith("iter "):
        return oracle_iter(aug, res)
    impl = parse_impl(res)
    if impl is None:
        return f"[no-answer] implementation did not answer ok: {res[:120]}"
    try:
        R = reference(aug)
    except ValueError as ex:
        return f"[dump] {ex}"
    if len(impl) != len(R.op["variants"]) or len(R.sched) != len(impl):
        return "[dump] number of configurations"
    if R.nonfinite:
        return f"[served-data] {R.nonfinite} non-finite value(s) served by the iterator (missing values must be served as 0)"
    if R.raw_mismatch:
        return f"[served-vs-raw] {R.raw_mismatch}"
    if R.dump_mismatch:
        return f"[loss-kernel] {R.dump_mismatch}"
    n = R.n
    for (thr, bt, cached), (w, bt2, asg), (h, fx0, fx, g) in zip(R.op["variants"], R.sched, impl):
        cfg = f"threads={thr} batch={bt} cached={cached}"
        if h != R.hash:
            return f"[served-data] {cfg}: the inputs/targets served differ from the ones served with 1 thread, 1 batch, no cache"
        if bt2 != bt or len(asg) != (n + bt - 1) // bt or any(a < 0 or a >= w for a in asg):
            return f"[schedule] {cfg}: {len(asg)} chunks executed by workers {asg[:8]} of {w} (expected {(n + bt - 1) // bt} chunks)"
        if len(g) != len(R.grad):
            return f"[gradient-size] {cfg}: {len(g)} vs {len(R.grad)}"
        if not within(fx, R.value, R.value_scale):
            return f"[value-vs-definition] {cfg}: vgrad value {fx!r} != definition {R.value!r} (n={n})"
        if not within(fx0, R.value, R.value_scale):
            return f"[value-vs-definition] {cfg}: value-only call {fx0!r} != definition {R.value!r} (n={n})"
        for k, (a, b, sc) in enumerate(zip(g, R.grad, R.grad_scale)):
            if not within(a, b, sc):
                return f"[gradient-vs-definition] {cfg}: component {k}: {a!r} != definition {b!r} (n={n})"
    # invariance: all configurations of the same dataset + parameters agree
    h0, fa0, fa, ga = impl[0]
    for (thr, bt, cached), (h, fx0, fx, g) in zip(R.op["variants"][1:], impl[1:]):
        cfg = f"threads={thr} batch={bt} cached={cached}"
        if not within(fx, fa, R.value_scale) or not within(fx0, fa0, R.value_scale):
            return f"[configurations-disagree] value {fx!r} ({cfg}) vs {fa!r} ({R.op['variants'][0]})"
        for k, (a, b, sc) in enumerate(zip(g, ga, R.grad_scale)):
            if not within(a, b, sc):
                return f"[configurations-disagree] gradient component {k}: {a!r} ({cfg}) vs {b!r} ({R.op['variants'][0]})"
    return None


def compare(aug, impl_line, model_line):
    """implementation vs the Lean model (modelled computation per configuration, then the naive definition at Float)"""
    if aug.startswith("reduce "):
        a, m = Toks(impl_line), Toks(model_line)
        try:
            if a.s() != "ok" or m.s() != "ok":
                return False
            ga, gm = a.fs(), m.fs()
            ref = reduce_ref(aug)
        except (ValueError, IndexError):
            return False
        return len(ga) == len(gm) == len(ref) and all(abs(x - y) <= 1e-12 * mag + 5e-324 for x, y, (_, mag) in zip(ga, gm, ref))
    if aug.startswith("iter select "):
        return impl_line.split() == model_line.split()
    if aug.startswith("iter "):
        return compare_iter(impl_line, model_line)
    impl = parse_impl(impl_line)
    if impl is None:
        return False
    m = Toks(model_line)
    try:
        if m.s() != "ok":
            return False
        V = m.int()
        mv = []
        for _ in range(V):
            fx0m = m.f(); fx = m.f(); g = m.fs()
            mv.append((fx0m, fx, g))
        if m.s() != "def":
            return False
        dfx = m.f(); dg = m.fs()
        if not m.done():
            return False
        R = reference(aug)
    except (ValueError, IndexError):
        return False
    if V != len(impl):
        return False
    for (h, fx0, fx, g), (mfx0, mfx, mg) in zip(impl, mv):
        if len(g) != len(mg) or len(g) != len(dg) or len(g) != len(R.grad_scale):
            return False
        if not (within(fx, mfx, R.value_scale) and within(fx0, mfx0, R.value_scale) and within(fx, dfx, R.value_scale)):
            return False
        for a, b, c, sc in zip(g, mg, dg, R.grad_scale):
            if not (within(a, b, sc) and within(a, c, sc)):
                return False
    return True


def classify(op, kind, detail):
    t = op.split()
    fam = t[1] if len(t) > 1 else "?"
    if t and t[0] == "iter":
        fam = "iter"
    if kind == "oracle" and detail.startswith("["):
        return f"{fam}/{detail[1:detail.index(']')]}"
    return f"{fam}/{kind}"


def shrink_candidates(op):
    if op.startswith("reduce "):
        return
    if op.startswith("iter select "):
        try:
            d, _ = parse_select(op)
        except Exception:
            return
        if d["mode"] == "L":
            for i in range(len(d["arg"])):
                yield select_of(dict(d, arg=d["arg"][:i] + d["arg"][i + 1:]))
        for key, val in [("miss", 0), ("N", 2)]:
            if d[key] != val and not (key == "N" and d["b"] > 2):
                yield select_of(dict(d, **{key: val}))
        return
    if op.startswith("iter "):
        try:
            d, _ = parse_iter(op)
        except Exception:
            return
        for i in range(len(d["steps"])):
            if d["steps"][i][0] not in ("L", "LF", "LT") or sum(1 for st in d["steps"] if st[0] in ("L", "LF", "LT")) > 1:
                yield iter_of(dict(d, steps=d["steps"][:i] + d["steps"][i + 1:]))
        n = d["b"] - d["a"]
        for newN in [2, 3, 5, 8, n // 2, n - 1]:
            if 1 <= newN < n:
                yield iter_of(dict(d, N=newN, a=0, b=newN, smode=0))
        if len(d["feats"]) > 1:
            for i in range(len(d["feats"])):
                yield iter_of(dict(d, feats=d["feats"][:i] + d["feats"][i + 1:]))
        for key, val in [("miss", 0), ("threads", 1), ("sbF", 1000), ("sbT", 1000), ("smode", 0)]:
            if d[key] != val:
                yield iter_of(dict(d, **{key: val}))
        return
    try:
        d, _ = parse_op(op)
    except Exception:
        return
    if len(d["variants"]) > 1:
        for v in d["variants"]:
            yield op_of(dict(d, variants=[v]))
        for i in range(len(d["variants"])):
            yield op_of(dict(d, variants=d["variants"][:i] + d["variants"][i + 1:]))
    n = d["b"] - d["a"]
    for newN in [2, 3, 5, 8, n // 2, n - 1]:
        if 1 <= newN < n:
            vs = []
            for t, bt, c in d["variants"]:
                nb = bt if bt < newN else (newN + (bt - n) if bt <= n + 1 else bt)
                vs.append((t, max(1, nb), c))
            yield op_of(dict(d, N=newN, a=0, b=newN, smode=0, variants=vs))
    if len(d["feats"]) > 1:
        for i in range(len(d["feats"])):
            yield op_of(dict(d, feats=d["feats"][:i] + d["feats"][i + 1:]))
    for key, val in [("l1", 0.0), ("l2", 0.0), ("scaling", 0), ("miss", 0), ("smode", 0), ("unass", 0), ("groups", 1), ("pmag", 1.0)]:
        if d[key] != val:
            yield op_of(dict(d, **{key: val}))
    if d["tdim"] > (1 if d["tkind"] == "R" else 2):
        yield op_of(dict(d, tdim=d["tdim"] - 1))
