"""C03 — bundle / ellipsoid solvers: reported convergence certifies eps-optimality (DESIGN.md §4 C03).

Op lines (one self-contained solver run per line; doubles as 16 hex digits):
  bundle run <rqb|fpba1|fpba2> <n> <norm 1|0> <mu> <A n*n> <xs n> <x0 n> <eps> <max_evals> <max_size>
             <m1> <m2> <m3> <m4> <interpol> <extrapol> <miu0min> <miu0max> <min_dot_nuv> <wmode> <wfrac> <budget>
  ellipsoid run <n> <norm> <mu> <A> <xs> <x0> <eps> <max_evals> <R> <wmode> <wfrac> <budget>
f(x) = ||A(x-xs)||_1 (norm 1) or ||A(x-xs)||_inf (norm 0) + mu/2 ||x-xs||^2, f* = 0 at xs.
The harness appends ` | <eps0> <epsM> <wbegin> <nrec> (<tag> <count> <doubles>)*`: the window of the raw trace
(wmode 0: from the start, 1: the tail of the run, 2: from fraction wfrac; at most <budget> doubles).
Result: `ok <status> <fx> <x> <fcalls> <gcalls> <evals> <nrecords> <nnull> <nserious> qp <calls(>=3 rows)> <max|sum-1|>
<min alpha> <max FW gap (QP solver reported converged, miu <= 1e8)> <max FW gap (2 rows)> <calls not reported converged>
<their max gap> trace <groups>` — the `qp` figures are the run-time monitor of the QP contract over EVERY bundle_t::solve of the
run (computed in the trace sink of the harness); the groups now include `outer` (which call of the outer loop of RQB / FPBA
follows a curve search, with which point), the proximity parameter handed to every curve-search pass, and `final` (the status of
the returned state, when the window reaches the end of the run), all predicted by Model/BundleSolver.lean / Model/Ellipsoid.lean.
"""
import math, os
import vlib
from vlib import Toks, lst, f2h, h2f
from props.c03_translate import translate  # noqa: F401  (regenerates lean/NanoVerif/Gen/EllipsoidStep.lean, Gen/BundleStep.lean)

ID = "C03"
LEVEL = "proof"
HARNESS = "c03"
LEAN_MODULES = ["NanoVerif.Props.C03", "NanoVerif.Proofs.BundleSolver", "NanoVerif.Proofs.EllipsoidGen", "NanoVerif.Proofs.BundleGen",
                "NanoVerif.Proofs.BundleGenField"]
NB = "NanoVerif.Bundle."
NE = "NanoVerif.Ellipsoid."
OBLIGATIONS = []   # filled in below (kept next to the theorem list)
TRUSTED = [
    "Lean 4.33.0 kernel; single Mathlib modules (Mathlib.Algebra.Order.Field.Basic, Tactic.Ring, Tactic.Linarith, Tactic.NormNum, "
    "Algebra.Order.Field.Rat; Analysis.Real.Sqrt only for the non-vacuity examples over the reals) only in Proofs/ and Props/",
    "axioms: at most propext, Classical.choice, Quot.sound (audited per theorem on every run)",
    "hand-written generic-scalar models NanoVerif/Model/Bundle.lean (bundle.cpp append/moveto/delete/aggregate, bundle.h smeared "
    "quantities, econverged/sconverged, csearch.cpp loop body), Model/BundleSolver.lean (proximity.cpp, nesterov.h, the whole "
    "csearch loop, the outer loops of rqb.cpp / fpba.cpp) and Model/Ellipsoid.lean (ellipsoid.cpp: 1-D loop, n-D loop with the "
    "deep-cut update, solver_t::done); tied to the code by trace replay: harness/c03.cpp runs rqb/fpba1/fpba2/ellipsoid with the "
    "NANO_VERIF trace sink installed, driver_c03 replays every logged append / solve / csearch pass / outer-loop decision "
    "(serious or null, the point handed to the bundle, the Nesterov extrapolation, the proximity parameter) / ellipsoid pass "
    "(iterND) / final status from the logged pre-state and oracle answers",
    "REGENERATED on every run from the tree under check (tools/props/c03_translate.py -> Gen/EllipsoidStep.lean, Gen/BundleStep.lean; the "
    "model_*_is_generated obligations state that the hand-written model's definitions ARE the generated ones): every scalar formula and "
    "decision of the ellipsoid loop body; econverged/sconverged/delta/proximal, the error formulas of bundle_t::append, solve for 1-2 rows; "
    "the whole decision chain of csearch_t::search (symbolic execution) with new_trial and the status numbering; make_miu0/make_miu, the "
    "grid, nu combination and guards of proximity_t::update; iter_ok/converged/dispatch of rqb.cpp and fpba.cpp. The translator (python, "
    "expression parser of c07_translate) and its reading of Eigen expressions element-wise are trusted; statements it only pins as text "
    "(reductions smeared_e/smeared_s, branch bodies of the outer loops, plumbing of proximity_t::update) break the translation when edited",
    "ORACLES of the model (contracts are hypotheses of the theorems, monitored on every trace): the objective returns true "
    "sub-gradients; bundle_t::solve returns a point of the simplex for >= 3 rows (|sum-1| <= 1e-9, alpha >= -1e-12 on EVERY call of "
    "every run; proved for 1 and 2 rows: solve1_simplex, solve2_simplex) and, whenever the QP solver itself reports converged, a "
    "KKT point (relative Frank-Wolfe gap <= 1e-3; not needed by any theorem, monitored only); std::nth_element meets its contract "
    "(NthElement). The Loewner-John containment of the deep-cut update is PROVED (ellipsoid_deep_cut_contains), no longer an oracle",
    "Lean Float = g++ double for + - * / sqrt evaluated in the same order; Eigen reductions compared with tolerance",
    "tools/props/c03.py generator + independent python evaluation of f, of the two inequalities and of the lower-bound hypothesis; "
    "harness/c03.cpp; g++/libstdc++/Eigen",
]
ASSUMPTIONS = [
    "theorems are about exact arithmetic (any linear ordered field; sqrt enters as a function with sqrt v >= 0, sqrt v * sqrt v = v "
    "for v >= 0); rounding is covered by the correspondence / oracle runs only",
    "the quadratic sub-problem solver and std::nth_element of delete_largest are oracles: any simplex point / any surviving "
    "sub-collection keeps the theorems valid",
    "ellipsoid, n >= 2: the only containment assumed is ||x* - x0|| <= R (the starting ball); the iterates' containment is the proved "
    "loop invariant (ellipsoid_nd_run_certificate); ellipsoid, n = 1: the code maintains x* in [x - 2H, x + 2H] (not the interval of "
    "radius H): proved as such",
    "bundle solvers: the clause 'the ACTIVE multipliers (what delete_inactive keeps) sum to 1 when the bundle is full' of the solve "
    "contract (EnvOK.hsolve, hypothesis hw of appendFull_valid) is exact only if the dropped multipliers are exactly 0; it is "
    "necessary in exact arithmetic (kernel-checked witness hw_necessary); in the code the dropped mass is < size * 1e-15",
    "the QP sub-solver is NOT always optimal on the unchanged tree: when a curve search stalls (t -> 0, miu/t up to 1e170) it "
    "reports converged with the uniform starting point; such calls (miu/t > 1e8) and calls it does not report converged for are "
    "counted in the evidence, not failed (no theorem needs optimality)",
    "convergence of the ellipsoid method within 20000 evaluations for n <= 6 is tested only (floating-point convergence-rate claim)",
    "correspondence tolerances: copied rows exact; recomputed sums/dot products/matrix updates relative 1e-9 of the largest entry of "
    "the compared vector plus 1e-12 * (sum of the absolute values of the terms of the formula); decisions (econv, sconv, converged, "
    "curve-search branch) are compared only when their margin exceeds 1e-9 relative (1e-12 of the terms for the two dot products)",
    "only a window of each run is replayed (at most `budget` doubles): start, tail (includes the stop) or a random position",
]
RULE = ("sharp functions ||A(x-x*)||_1, ||A(x-x*)||_inf, optionally + mu/2||x-x*||^2, A = Givens-rotated diag(sv) with sv in [1,4], "
        "n in 1..8 (ellipsoid 1..6), x* in [-3,3]^n, x0 at distance in {1e-3, 4, log-uniform} <= 4; eps on a log grid in [1e-8,1e-3]; "
        "bundle max_size in {2,3,4,5} (analytic / QP / aggregation paths) or up to 100; csearch/proximity parameters over their "
        "domains or defaults; max_evals in [100,20000]; ellipsoid R >= distance; a run is non-trivial when >= 1 null step and >= 1 "
        "serious step occurred (bundle) or >= 2 updates (ellipsoid); distinct by op text")
FLAVOUR = {"quick": "plain", "thorough": "asan"}
HARNESS_TIMEOUT = 3000
RT = 1e-9
RTOL = 1e-9   # (reported in the evidence; the comparison itself is `compare` below)

OBLIGATIONS = [NB + t for t in [
    "aggregate_valid", "kept_valid", "reduce_kept", "appendStep_valid", "bundle_lower_bound_invariant", "appendFull_valid",
    "appendFull_step", "solve1_simplex", "solve2_simplex", "append_stays_below_capacity", "append_stays_below_capacity_nth",
    "dot_self_nonneg",
    "cauchy_schwarz", "bundle_stop_certificate", "csearch_converged_iff", "solver_converged_certificate",
]] + [NE + t for t in [
    "ellipsoid_stop_certificate", "ellipsoid_converged_certificate", "ellipsoid_early_certificate", "best_le",
    "ellipsoid_mem_of_factor", "deep_cut_valid", "ellipsoid_1d_contains", "ellipsoid_1d_stop_certificate",
    "ellipsoid_1d_run_certificate", "ellipsoid_init_contains", "ellipsoid_deep_cut_contains", "ellipsoid_nd_run_certificate",
    "ellipsoid_nd_converged_10eps", "ellipsoid_done_logic", "ellipsoid_no_budget",
    # helper layer of the Loewner-John step (Proofs/EllipsoidLJ.lean, EllipsoidStep.lean, EllipsoidLoop.lean)
    "lj_det", "lj_plane", "lj_scalar", "quad_vaxpy", "dot_mv_stepH", "stepH_wellH", "stepND_contains", "dot_mv_initH",
    "initH_wellH", "initH_contains", "iterND_spec", "runND_spec",
]] + ["NanoVerif.BundleSolver." + t for t in [
    # outer loops of RQB / FPBA1 / FPBA2 (Proofs/BundleSolver.lean)
    "miuInit_pos", "proxUpdate1_pos", "proxUpdate2_pos", "csearchLoop_spec", "seriousR_inv", "seriousF_inv", "pass_spec",
    "run_spec", "start_inv", "solver_run_certificate", "solver_run_statement_bound",
]] + ["NanoVerif.C03SolverExamples.exE_ok", "NanoVerif.C03SolverExamples.hw_necessary"] + [NE + t for t in [
    # translation round: the model's formulas ARE the ones regenerated from src/solver/ellipsoid.cpp (Proofs/EllipsoidGen.lean)
    "model_initH_is_generated", "model_earlyStop_is_generated", "model_step1d_is_generated", "model_alphaCut_is_generated",
    "model_stepX_is_generated", "model_stepH_is_generated", "model_converged_is_generated", "model_iterND_early_is_generated",
    "model_iterND_regular_is_generated",
]] + [NB + t for t in [
    # … from bundle.cpp / bundle.h / csearch.cpp / csearch.h (Proofs/BundleGen.lean)
    "model_appendStep_is_generated", "model_delCount_is_generated", "model_proximal_is_generated",
    "model_status_numbering_is_generated", "model_csearch_start_is_generated", "model_newTrial_is_generated",
    "model_csearchStep_is_generated", "model_econverged_is_generated", "model_sconverged_is_generated", "model_delta_is_generated",
    # the one- and two-row branches of bundle_t::solve (Proofs/BundleGenField.lean: `0.5 * x` = `x / 2` in a field)
    "model_solve1_is_generated", "model_solve2_is_generated",
]] + ["NanoVerif.BundleSolver." + t for t in [
    # … from proximity.cpp
    "model_makeMiu0_is_generated", "model_makeMiu_is_generated", "model_makeMiuU_is_generated", "model_nuComb_is_generated",
    "model_proxUpdate1_is_generated", "model_proxUpdate2_is_generated",
    # … from rqb.cpp / fpba.cpp: flags handed to solver_t::done and the dispatch on the curve-search status
    "model_pass_is_generated",
]]


# ---------------------------------------------------------------------------------------------------------
# the test functions (pure python)

def matvec(A, n, d):
    return [sum(A[i * n + j] * d[j] for j in range(n)) for i in range(n)]


def fval(case, z):
    n = case["n"]
    d = [z[i] - case["xs"][i] for i in range(n)]
    r = matvec(case["A"], n, d)
    f = sum(abs(v) for v in r) if case["norm"] == 1 else max(abs(v) for v in r)
    return f + 0.5 * case["mu"] * sum(v * v for v in d)


def dist(a, b):
    return math.sqrt(sum((x - y) ** 2 for x, y in zip(a, b)))


def rotations(rng, n, M):
    """M (row-major n*n) <- G M for a few random Givens rotations G (orthogonal up to rounding)"""
    for _ in range(2 * n):
        if n < 2:
            break
        i = rng.below(n); j = rng.below(n - 1)
        if j >= i:
            j += 1
        th = rng.uniform(0, 2 * math.pi)
        c, s = math.cos(th), math.sin(th)
        for k in range(n):
            a, b = M[i * n + k], M[j * n + k]
            M[i * n + k] = c * a - s * b
            M[j * n + k] = s * a + c * b
    return M


def transpose(M, n):
    return [M[j * n + i] for i in range(n) for j in range(n)]


def make_A(rng, n):
    """A = U diag(sv) V^T with sv in [1, 4]: smallest singular value >= 1 (sharpness f(x) >= ||x - x*||_2)"""
    sv = [1.0 + 3.0 * rng.unit() for _ in range(n)]
    if rng.chance(0.3):
        sv[rng.below(n)] = 1.0
    M = [sv[i] if i == j else 0.0 for i in range(n) for j in range(n)]
    M = rotations(rng, n, M)
    M = transpose(rotations(rng, n, transpose(M, n)), n)
    if n == 1 and rng.chance(0.5):
        M[0] = -M[0]
    return M


def make_problem(rng, nmax):
    n = rng.range(1, nmax)
    A = make_A(rng, n)
    xs = [rng.uniform(-3, 3) for _ in range(n)]
    if rng.chance(0.1):
        xs = [float(round(v)) for v in xs]
    d = [rng.uniform(-1, 1) for _ in range(n)]
    nd = math.sqrt(sum(v * v for v in d)) or 1.0
    k = rng.below(4)
    r = [1e-3, 4.0, 10 ** rng.uniform(-3, math.log10(4.0)), 4.0 * rng.unit()][k]
    x0 = [xs[i] + 0.999 * r * d[i] / nd for i in range(n)]
    norm = rng.below(2)
    mu = 0.0 if rng.chance(0.5) else rng.unit()
    eps = 10 ** rng.choice([-8, -7, -6, -5, -4, -3, rng.uniform(-8, -3)])
    return dict(n=n, norm=norm, mu=mu, A=A, xs=xs, x0=x0, eps=eps)


def fl(xs):
    return lst(xs, f2h)


def fmt_problem(c):
    return f"{c['n']} {c['norm']} {f2h(c['mu'])} {fl(c['A'])} {fl(c['xs'])} {fl(c['x0'])} {f2h(c['eps'])} {c['max_evals']}"


def fmt(c):
    w = f"{c['wmode']} {f2h(c['wfrac'])} {c['budget']}"
    if c["fam"] == "bundle":
        p = " ".join(f2h(c[k]) for k in ["m1", "m2", "m3", "m4", "interpol", "extrapol", "miu0min", "miu0max", "mindot"])
        return f"bundle run {c['solver']} {fmt_problem(c)} {c['max_size']} {p} {w}"
    return f"ellipsoid run {fmt_problem(c)} {f2h(c['R'])} {w}"


def parse_op(t):
    fam = t.s(); op = t.s()
    c = dict(fam=fam)
    if fam == "bundle":
        c["solver"] = t.s()
    else:
        c["solver"] = "ellipsoid"
    c["n"] = t.int(); c["norm"] = t.int(); c["mu"] = t.f()
    c["A"] = t.fs(); c["xs"] = t.fs(); c["x0"] = t.fs(); c["eps"] = t.f(); c["max_evals"] = t.int()
    if fam == "bundle":
        c["max_size"] = t.int()
        for k in ["m1", "m2", "m3", "m4", "interpol", "extrapol", "miu0min", "miu0max", "mindot"]:
            c[k] = t.f()
    else:
        c["R"] = t.f()
    c["wmode"] = t.int(); c["wfrac"] = t.f(); c["budget"] = t.int()
    return c


DEFAULTS = dict(m1=0.5, m2=0.9, m3=1.0, m4=1.0, interpol=0.3, extrapol=5.0, miu0min=1e2, miu0max=1e4, mindot=1e-15)


def window(rng, c, tier):
    k = rng.below(10)
    c["wmode"] = 0 if k < 3 else (1 if k < 7 else 2)
    c["wfrac"] = rng.unit()
    c["budget"] = rng.choice([3000, 8000, 20000])


def gen_bundle(rng, tier, solver=None):
    c = make_problem(rng, 8)
    c["fam"] = "bundle"
    c["solver"] = solver or rng.choice(["rqb", "fpba1", "fpba2"])
    k = rng.below(10)
    c["max_size"] = [2, 3, 4, 4, 5, 5, rng.range(6, 12), rng.range(6, 30), rng.range(2, 100), 100][k]
    hi = 20000 if tier == "thorough" else 3000
    c["max_evals"] = rng.choice([100, rng.range(100, 600), rng.range(100, hi), rng.range(100, hi)])
    # the quadratic sub-problem costs ~ size^3 per evaluation: keep one run below a second
    c["max_evals"] = max(100, min(c["max_evals"], (40000 if tier == "quick" else 60000) // c["max_size"]))
    c.update(DEFAULTS)
    if rng.chance(0.6):
        a = rng.uniform(0.02, 0.9); b = rng.uniform(a + 0.02, 0.98)
        c["m1"], c["m2"] = a, b
        c["m3"] = 10 ** rng.uniform(-2, 2)
        c["m4"] = 10 ** rng.uniform(-2, 2)
        c["interpol"] = rng.uniform(0.05, 0.95)
        c["extrapol"] = rng.uniform(1.2, 10.0)
        lo = 10 ** rng.uniform(-2, 3)
        c["miu0min"], c["miu0max"] = lo, min(lo * 10 ** rng.uniform(0.2, 3), 9e5)
        c["mindot"] = 10 ** rng.uniform(-15, -3)
    window(rng, c, tier)
    return fmt(c)


def gen_ellipsoid(rng, tier, full=None):
    c = make_problem(rng, 6)
    c["fam"] = "ellipsoid"
    d = dist(c["x0"], c["xs"])
    c["R"] = rng.choice([10.0, 4.0, max(d * 1.01, 1e-3), max(d, 1e-3) * 10 ** rng.uniform(0.01, 2)])
    if c["R"] < d * 1.001:
        c["R"] = 10.0
    full = rng.chance(0.6) if full is None else full
    c["max_evals"] = 20000 if full else rng.range(100, 5000)
    window(rng, c, tier)
    return fmt(c)


def gen(rng, tier):
    ops = []
    cp = os.path.join(vlib.VERIF, "corpus", "C03", "ops.txt")
    if os.path.exists(cp):
        ops += [l.strip() for l in open(cp) if l.strip() and not l.startswith("#")]
    nb, ne = (450, 225) if tier == "quick" else (600, 300)
    for solver in ["rqb", "fpba1", "fpba2"]:
        for _ in range(nb // 3):
            ops.append(gen_bundle(rng, tier, solver))
    for _ in range(ne):
        ops.append(gen_ellipsoid(rng, tier))
    return ops


# ---------------------------------------------------------------------------------------------------------
# trace parsing

class Rd:
    def __init__(self, v):
        self.v = v; self.i = 0
    def f(self):
        x = self.v[self.i]; self.i += 1; return x
    def l(self):
        n = int(self.f()); r = self.v[self.i:self.i + n]; self.i += n; return r


def parse_aug(aug):
    t = Toks(aug)
    c = parse_op(t)
    recs = []
    if not t.done():
        assert t.s() == "|"
        c["eps0"] = t.f(); c["epsM"] = t.f(); c["wbegin"] = t.int()
        for _ in range(t.int()):
            tag = t.s()
            recs.append((tag, t.fs()))
    return c, recs


def parse_res(res):
    r = Toks(res)
    if r.s() != "ok":
        return None
    out = dict(status=r.s(), fx=r.f(), x=r.fs(), fcalls=r.int(), gcalls=r.int(), evals=r.int(), nrec=r.int(),
               nnull=r.int(), nserious=r.int())
    if not r.done() and r.t[r.i] == "qp":
        r.s()
        out["qp"] = dict(count=r.int(), maxdev=r.f(), minalpha=r.f(), maxgap=r.f(), maxgap2=r.f(), unconv=r.int(),
                         maxgap_unconv=r.f())
    return out


_INFO = {}
_QMAX = [0.0]
_QP = dict(calls=0, unconverged=0, maxgap=0.0, maxgap2=0.0, maxgap_unconverged=0.0)
QP_GAP = 1e-3   # relative Frank-Wolfe gap above which a multiplier vector counts as NOT optimal. Observed on the unchanged tree: <= 6e-9 (QP
                # solver) and <= 4e-8 (2 rows) over 800 runs, but 1.03e-6 for an analytic 2-row solve at VERIF_SEED=15 (ill-conditioned 2x2 system):
                # the first threshold (1e-6) was a false alarm there. Optimality of the multipliers is not needed by any theorem nor by the statement
                # (any simplex point keeps the certificate valid); a wrong QP (wrong cost, wrong sign) gives gaps of 0.1 .. 1


def fw_gap(n, miu, al, E, S):
    """(a'gr - min gr) / max_i sum|terms of gr_i| for gr = S S'a + miu e"""
    size = len(al)
    sbar = [sum(al[i] * S[i * n + j] for i in range(size)) for j in range(n)]
    sabs = [sum(abs(al[i] * S[i * n + j]) for i in range(size)) for j in range(n)]
    gr = [miu * E[i] + sum(S[i * n + j] * sbar[j] for j in range(n)) for i in range(size)]
    sc = max([abs(miu * E[i]) + sum(abs(S[i * n + j]) * sabs[j] for j in range(n)) for i in range(size)] + [1e-300])
    return (sum(a * g for a, g in zip(al, gr)) - min(gr) * sum(al)) / sc


def quad_inv(H, n, d):
    """d' H^-1 d by Gaussian elimination with partial pivoting; None when H is numerically singular"""
    A = [H[i * n:(i + 1) * n] + [d[i]] for i in range(n)]
    scale = max(abs(v) for v in H) or 1.0
    for c in range(n):
        p = max(range(c, n), key=lambda r: abs(A[r][c]))
        if abs(A[p][c]) <= 1e-13 * scale:
            return None
        A[c], A[p] = A[p], A[c]
        for r in range(c + 1, n):
            m = A[r][c] / A[c][c]
            for k in range(c, n + 1):
                A[r][k] -= m * A[c][k]
    u = [0.0] * n
    for r in range(n - 1, -1, -1):
        u[r] = (A[r][n] - sum(A[r][k] * u[k] for k in range(r + 1, n))) / A[r][r]
    return sum(a * b for a, b in zip(d, u))


def op_of(aug):
    return aug.split(" | ")[0]


def test_points(case):
    """x*, and a few points derived deterministically from the case"""
    n = case["n"]
    rng = vlib.Rng(int(vlib.sha(fl(case["xs"]) + fl(case["x0"])), 16))
    zs = [list(case["xs"]), list(case["x0"])]
    for r in [1e-6, 1e-2, 1.0, 5.0]:
        d = [rng.uniform(-1, 1) for _ in range(n)]
        nd = math.sqrt(sum(v * v for v in d)) or 1.0
        zs.append([case["xs"][i] + r * d[i] / nd for i in range(n)])
    return zs


def lb_violation(case, zs, fz, centre, fc, s, e, what):
    """f(z) >= fc + s.(z - centre) - e for the known f, within rounding: 1e-9 of the terms, plus 1e-11 of the largest
    function value of the run (the errors e_i accumulate the rounding of every earlier shift `e_i += fy - fx - s_i.(y - x)`)"""
    floor = 1e-11 * max(1.0, fz[1])          # fz[1] = f(x0)
    for z, f_z in zip(zs + [centre], fz + [fc]):
        lin = sum(si * (zi - ci) for si, zi, ci in zip(s, z, centre))
        scale = abs(fc) + abs(f_z) + abs(e) + sum(abs(si * (zi - ci)) for si, zi, ci in zip(s, z, centre)) + 1e-300
        if not (f_z - (fc + lin - e) >= -1e-9 * scale - floor):
            return (f"{what}: pair (e={e!r}) is not a lower bound of f: f(z)={f_z!r} < f(xc) + s.(z-xc) - e = "
                    f"{fc + lin - e!r} at z={z}")
    return None


def oracle(aug, res):
    case, recs = parse_aug(aug)
    out = parse_res(res)
    if res.startswith("overflow "):
        _, size, cap = res.split()
        return (f"bundle_t::append: {size} rows survive delete_inactive/delete_largest and one is appended, so m_size reaches capacity()={cap} "
                f"(max_size={int(cap) - 1}): the code's own assert(m_size < capacity()) fails and row index {max(int(size), int(cap))} is written "
                f"behind the end of m_bundleS/m_bundleE ({'in this very call' if int(size) >= int(cap) else 'by the next append unless an inactive row is dropped first'})")
    if out is None:
        return f"implementation did not answer ok: {res[:120]}"
    n, eps = case["n"], case["eps"]
    ell = case["fam"] == "ellipsoid"
    _INFO[op_of(aug)] = (out["nnull"] >= 1 and out["nserious"] >= 2) if not ell else out["nrec"] >= 5
    x = out["x"]
    if len(x) != n or any(v != v or abs(v) == float("inf") for v in x):
        if out["status"] != "failed":
            return f"non-finite point returned with status {out['status']}"
        return None
    f_x = fval(case, x)          # f* = 0
    d = dist(x, case["xs"])
    if abs(out["fx"] - f_x) > 1e-9 * (1 + abs(f_x)):
        return f"reported fx={out['fx']!r} is not f(x)={f_x!r}"
    if out["evals"] > case["max_evals"] + 2 and not ell:
        pass  # the budget clause belongs to C02
    if out["status"] == "converged":
        if ell:
            if f_x > 10 * eps:
                return f"ellipsoid reports converged at eps={eps!r} but f(x)-f*={f_x!r} > 10*eps"
        else:
            bound = 2 * eps * math.sqrt(n) * (1 + d)
            if f_x > bound:
                return (f"{case['solver']} reports converged at eps={eps!r} but f(x)-f*={f_x!r} > 2*eps*sqrt(n)*(1+||x-x*||)="
                        f"{bound!r}")
    elif ell and n <= 6 and case["max_evals"] >= 20000 and dist(case["x0"], case["xs"]) <= case["R"]:
        return f"ellipsoid did not report converged within 20000 evaluations (status {out['status']}, f(x)-f*={f_x!r}, evals={out['evals']})"
    # run-time monitor of the QP contract over EVERY bundle_t::solve of the run (figures computed by the harness in the sink)
    qp = out.get("qp")
    if qp is not None and not ell:
        _QP["calls"] += qp["count"]; _QP["unconverged"] += qp["unconv"]
        _QP["maxgap"] = max(_QP["maxgap"], qp["maxgap"]); _QP["maxgap2"] = max(_QP["maxgap2"], qp["maxgap2"])
        _QP["maxgap_unconverged"] = max(_QP["maxgap_unconverged"], qp["maxgap_unconv"])
        if qp["maxdev"] > 1e-9 or qp["minalpha"] < -1e-12:
            return (f"solve: multipliers are not in the simplex in some call of the run: max|sum-1|={qp['maxdev']!r} "
                    f"min alpha={qp['minalpha']!r}")
        if qp["maxgap"] > QP_GAP:
            return (f"solve: the quadratic sub-solver reported converged but its multipliers are not KKT-optimal for the bundle "
                    f"problem min 1/2|S'a|^2 + miu e'a over the simplex: relative Frank-Wolfe gap {qp['maxgap']!r} > {QP_GAP}")
        if qp["maxgap2"] > QP_GAP:
            return (f"solve: the analytic 2-row multipliers are not optimal: relative Frank-Wolfe gap {qp['maxgap2']!r} > {QP_GAP}")
    # hypotheses of the theorems, checked on the logged trace against the known f
    zs = test_points(case)
    fz = [fval(case, z) for z in zs]
    begin = None
    inside = ell and dist(case["x0"], case["xs"]) <= case["R"]
    for tag, v in recs:
        rd = Rd(v)
        if tag == "bundle.append.begin":
            serious = rd.f() != 0.0; fy = rd.f(); fxc = rd.f(); rd.f()
            y = rd.l(); gy = rd.l(); xc = rd.l()
            begin = (serious, fy, fxc, y, xc)
            f_y = fval(case, y)
            if abs(fy - f_y) > 1e-9 * (1 + abs(f_y)):
                return f"append: logged fy={fy!r} is not f(y)={f_y!r}"
            why = lb_violation(case, zs, fz, y, fy, gy, 0.0, "append: (gy, fy) at y")
            if why:
                return why
        elif tag == "bundle.append.end" and begin is not None:
            serious, fy, fxc, y, xc = begin
            begin = None
            size = int(rd.f()); E = rd.l(); S = rd.l()
            centre, fc = (y, fy) if serious else (xc, fxc)
            for i in range(size):
                why = lb_violation(case, zs, fz, centre, fc, S[i * n:(i + 1) * n], E[i], f"append.end({'serious' if serious else 'null'}) row {i}/{size}")
                if why:
                    return why
        elif tag == "bundle.solve":
            rd.f(); size = int(rd.f()); fxc = rd.f(); xc = rd.l(); al = rd.l(); E = rd.l(); S = rd.l()
            f_c = fval(case, xc)
            if abs(fxc - f_c) > 1e-9 * (1 + abs(f_c)):
                return f"solve: logged fx={fxc!r} is not f(centre)={f_c!r}"
            for i in range(size):
                why = lb_violation(case, zs, fz, xc, fxc, S[i * n:(i + 1) * n], E[i], f"solve row {i}/{size}")
                if why:
                    return why
            if abs(sum(al) - 1.0) > 1e-9 or min(al) < -1e-12:
                return f"solve: multipliers are not in the simplex: sum={sum(al)!r} min={min(al)!r}"
            # KKT optimality, recomputed here from the logged QP (independent of the harness's figure): with gr = S S'a + miu e,
            # a is optimal over the simplex iff a'gr = min_i gr_i (Frank-Wolfe gap 0). 2 rows: analytic path, always;
            # >= 3 rows: when the QP solver reported converged for every call of the run and miu/t is in a sane range
            miu = v[0]
            if size == 2 or (size >= 3 and qp is not None and qp["unconv"] == 0 and miu <= 1e8):
                gap = fw_gap(n, miu, al, E, S)
                if gap > QP_GAP:
                    return (f"solve: multipliers of a {size}-row bundle problem are not KKT-optimal: relative Frank-Wolfe gap "
                            f"{gap!r} > {QP_GAP} (miu={miu!r})")
        elif tag == "ellipsoid.iter":
            gHg = rd.f(); f = rd.f(); best = rd.f(); rd.f(); xc = rd.l(); g = rd.l()
            f_c = fval(case, xc)
            if abs(f - f_c) > 1e-9 * (1 + abs(f_c)):
                return f"ellipsoid: logged f={f!r} is not f(x)={f_c!r}"
            if best > f + 1e-12 * (1 + abs(f)):
                return f"ellipsoid: best value {best!r} above the current value {f!r}"
            why = lb_violation(case, zs, fz, xc, f, g, 0.0, "ellipsoid: (g, f) at x")
            if why:
                return why
            # the containment hypothesis of the certificates, monitored: x* in E(x_k, H_k)
            # (n >= 2: (x*-x)' H^-1 (x*-x) <= 1, the Loewner-John step is not proved; n = 1: |x*-x| <= 2 H, proved)
            if inside:
                H = rd.l()
                dv = [a - b for a, b in zip(case["xs"], xc)]
                if n == 1:
                    # once H drops below the spacing of the doubles around x the centre cannot move any more: allow 4 ulp
                    slack = abs(dv[0]) - 4 * 2.220446049250313e-16 * max(abs(xc[0]), abs(case["xs"][0]))
                    q = max(slack, 0.0) / (2 * H[0]) if H[0] > 0 else (0.0 if slack <= 0 else float("inf"))
                else:
                    q = quad_inv(H, n, dv)
                if q is not None:
                    _QMAX[0] = max(_QMAX[0], q)
                    if q > 1 + 1e-6:
                        return (f"ellipsoid: the minimiser left the ellipsoid: (x*-x)' H^-1 (x*-x) = {q!r} > 1 at a logged iterate "
                                f"(n={n})")
    return None


def nontrivial(op):
    return _INFO.get(op, False)


def distribution(ops):
    d = {"qp/calls(>=3 rows)": _QP["calls"], "qp/calls the QP solver did not report converged for": _QP["unconverged"]}
    for op in ops:
        t = op.split()
        if t[0] == "bundle":
            n = int(t[3]); ms = None
            try:
                c = parse_op(Toks(op)); ms = c["max_size"]
            except Exception:
                pass
            k = f"{t[2]}/n{n}/size{'2' if ms == 2 else '3' if ms == 3 else '4-5' if ms and ms <= 5 else '6+'}"
        else:
            k = f"ellipsoid/n{t[2]}"
        d[k] = d.get(k, 0) + 1
    return d


def classify(op, kind, detail):
    t = op.split()
    who = t[2] if t[0] == "bundle" else "ellipsoid"
    if kind == "oracle":
        if "m_size reaches capacity" in detail:
            return "bundle-overflow:m_size-reaches-capacity"
        if "reports converged" in detail:
            return f"{who}:converged-but-gap-over-bound"
        if "left the ellipsoid" in detail:
            return "ellipsoid:minimiser-left-the-ellipsoid"
        if "not a lower bound" in detail:
            return f"{who}:bundle-pair-not-a-lower-bound" if who != "ellipsoid" else "ellipsoid:not-a-subgradient"
        if "did not report converged" in detail:
            return "ellipsoid:not-converged-within-20000"
        if "simplex" in detail:
            return f"{who}:multipliers-off-simplex"
        if "KKT-optimal" in detail or "not optimal" in detail:
            return f"{who}:multipliers-not-kkt-optimal"
        return f"{who}:oracle"
    return f"{who}:{kind}"


# ---------------------------------------------------------------------------------------------------------
# comparison of the logged groups (implementation) with the replayed groups (model)

def groups(toks):
    """[(kind, payload)] ; `S x` = absolute scale hint for the next group (model side only); names are kept"""
    out = []; i = 0; n = len(toks)
    while i < n:
        k = toks[i]
        if k in ("F", "B", "I", "S"):
            out.append((k, toks[i + 1])); i += 2
        elif k == "L":
            if toks[i + 1] == "?":
                out.append(("L", None)); i += 2
            else:
                m = int(toks[i + 1]); out.append(("L", toks[i + 2:i + 2 + m])); i += 2 + m
        else:
            out.append(("N", k)); i += 1
    return out


def compare(aug, impl, model):
    if not impl.startswith("ok "):
        return True       # the oracle reports it
    a = impl.split(); b = model.split()
    if "trace" not in a or b[:2] != ["ok", "trace"]:
        return False
    ga = groups(a[a.index("trace") + 1:]); gb = groups(b[2:])
    j = 0
    for ka, pa in ga:
        scale = 0.0
        while j < len(gb) and gb[j][0] == "S":
            scale = max(scale, h2f(gb[j][1])); j += 1
        if j >= len(gb):
            return False
        kb, pb = gb[j]; j += 1
        if ka != kb:
            return False
        if ka == "N":
            if pa != pb:
                return False
        elif ka in ("B", "I"):
            if pa != pb and pa != "?" and pb != "?":
                return False
        elif ka == "F":
            if pa == "?" or pb == "?":
                continue
            x, y = h2f(pa), h2f(pb)
            if not (x == y or (x != x and y != y) or abs(x - y) <= RT * max(abs(x), abs(y)) + 1e-12 * scale):
                return False
        else:
            if pa is None or pb is None:
                continue
            if len(pa) != len(pb):
                return False
            xs = [h2f(v) for v in pa]; ys = [h2f(v) for v in pb]
            m = max([abs(v) for v in xs + ys if v == v] + [0.0])
            for x, y in zip(xs, ys):
                if not (x == y or (x != x and y != y) or abs(x - y) <= RT * m + 1e-12 * scale):
                    return False
    while j < len(gb) and gb[j][0] == "S":
        j += 1
    return j == len(gb)


def shrink_candidates(op):
    """smaller budgets / fewer evaluations / window at the start (the op stays self-contained)"""
    try:
        c = parse_op(Toks(op))
    except Exception:
        return
    if c["budget"] > 500:
        d = dict(c); d["budget"] = c["budget"] // 2; yield fmt(d)
    if c["max_evals"] > 100:
        d = dict(c); d["max_evals"] = max(100, c["max_evals"] // 2); yield fmt(d)
