"""C06: C++ -> Lean translator for the per-element formulas of the loss kernels (DESIGN.md §2.3.a).

Extracts, *by struct / function name* from the current source text of the repository under check,
  detail::{exponential,hinge,squared_hinge,savage,tangent,mae,mse,cauchy}_t::value / ::vgrad   (include/nano/loss/flatten.h)
      Eigen array expressions over (target, output): `return <e>.sum();`, `return scalar_t(c) * <e>.sum();`, `vgrad = <e>;`
  detail::logistic_t::value / ::vgrad                                                          (include/nano/loss/flatten.h)
      scalar loops: `const auto x = <e>; value += <e>;` / `const auto x = <e>; const auto g = <e>; vgrad(i) = <e>;`
  pinball_loss_t::value / ::vgrad                                                               (src/loss/pinball.cpp)
      `values(i) = (<e>).sum();`, `vgrads.array(i) = <e>;`
  loss::detail::absdiff_t::error, mclass_t::error                                               (include/nano/loss/error.h)
      `return <e>.sum();`; `const auto edges = <e>; … return static_cast<scalar_t>((edges < epsilon).count());`
and emits lean/NanoVerif/Gen/LossKernels.lean: one scalar definition per formula (`<name>V t o`, `<name>G t o`), generic over
the scalar with the classes of Model/Loss.lean, plus how the per-sample value is assembled from it (`<name>Value`, `<name>Vgrad`).
Model/Loss.lean is ADD-only (C05, C09, C11 import it), so its hand-written text is tied to the generated one by the theorems of
Proofs/C06Gen.lean (`rfl`, any scalar type). NOT translated (hand-written model only): `classnll_t` (two loops over a running
maximum and accumulators), `sclass_t::error` (branch on the number of outputs + arg-max), the benchmark functions.

Array methods: .exp() .log() .atan() .abs() .sign() .square() .max(0) .sum() .count(); calls std::exp / std::log / std::log1p /
scalar_t(c); the conditional operator with a `<` comparison; numeric literals through OfNat + Div only (0.5 -> 1 / 2).
Anything else raises TranslateError -> vlib.Broken("translate", …).
"""
import os, re
from fractions import Fraction
import vlib

OUT = os.path.join(vlib.LEAN, "NanoVerif", "Gen", "LossKernels.lean")


class TranslateError(Exception):
    pass


TOK = re.compile(r"\s*(?:(\d+\.\d*(?:[eE][-+]?\d+)?|\.\d+(?:[eE][-+]?\d+)?|\d+(?:[eE][-+]?\d+)?)"
                 r"|([A-Za-z_][A-Za-z_0-9]*(?:::[A-Za-z_][A-Za-z_0-9]*)*(?:<[A-Za-z_0-9:]+>)?)"
                 r"|(<=|>=|==|!=|&&|\|\||[-+*/()<>,!?:.]))")


def strip_comments(s):
    s = re.sub(r"/\*.*?\*/", " ", s, flags=re.S)
    return re.sub(r"//[^\n]*", " ", s)


def tokenize(s):
    out, i = [], 0
    while i < len(s):
        if s[i:].strip() == "":
            break
        m = TOK.match(s, i)
        if not m:
            raise TranslateError("cannot tokenize at: " + s[i:i + 40].strip())
        if m.group(1):
            out.append(("num", m.group(1)))
        elif m.group(2):
            out.append(("id", m.group(2)))
        else:
            out.append(("op", m.group(3)))
        i = m.end()
    return out


def block_after(src, start):
    """text between the braces of the first `{` at or after `start`; returns (text, end index)"""
    i = src.index("{", start)
    depth, j = 1, i + 1
    while depth:
        if j >= len(src):
            raise TranslateError("unbalanced braces")
        depth += (src[j] == "{") - (src[j] == "}")
        j += 1
    return src[i + 1:j - 1], j


def struct_body(src, name, path):
    m = re.search(r"\bstruct\s+" + re.escape(name) + r"\b[^;{]*\{", src)
    if not m:
        raise TranslateError(f"struct {name} not found in {path}")
    return block_after(src, m.start())[0]


def method_body(body, name, where):
    m = re.search(r"\b" + re.escape(name) + r"\s*\((?:[^()]|\([^()]*\))*\)\s*(?:const)?\s*\{", body)
    if not m:
        raise TranslateError(f"{where}: member {name} not found")
    text = block_after(body, m.start())[0]
    return re.sub(r"\bassert\s*\((?:[^()]|\((?:[^()]|\([^()]*\))*\))*\)\s*;", "", text)


def lean_number(text):
    q = Fraction(text)
    if q.denominator == 1:
        if q.numerator not in (0, 1, 2, 4):
            raise TranslateError(f"literal {text}: Model/Loss.lean has OfNat instances for 0, 1, 2, 4 only")
        return str(q.numerator)
    if (q.numerator, q.denominator) == (1, 2):
        return "(1 / 2)"
    raise TranslateError(f"literal {text} is not one of 0, 1, 2, 4, 0.5")


def S(x):
    """a scalar term; comparisons / reductions are only allowed where the grammar names them"""
    if isinstance(x, tuple):
        raise TranslateError(f"a {x[0]} is not allowed inside a scalar expression")
    return x


class Parser:
    """recursive descent for Eigen array / scalar expressions; `bind` maps C++ symbols to Lean variables.
    Values: a Lean term (str), ("cmp", a, b) for a parenthesised `a < b`, ("reduce", "sum" | "count", inner) for a trailing
    `.sum()` / `.count()`, ("scaled", c, reduce) for `c * <reduction>`"""

    METHODS = {"exp": "exp", "log": "log", "atan": "atan", "abs": "abs'", "sign": "sign'"}
    CALLS = {"std::exp": "exp", "std::log": "log", "std::log1p": "log1p", "std::atan": "atan"}

    def __init__(self, toks, bind):
        self.t, self.i, self.bind = toks, 0, bind

    def peek(self):
        return self.t[self.i] if self.i < len(self.t) else ("eof", "")

    def eat(self, v=None):
        k = self.peek()
        if k[0] == "eof" or (v is not None and k[1] != v):
            raise TranslateError(f"expected {v!r}, got {k[1]!r}")
        self.i += 1
        return k

    def expr(self):
        a = self.cmpx()
        if self.peek()[1] == "?":
            if not (isinstance(a, tuple) and a[0] == "cmp"):
                raise TranslateError("the condition of ?: must be a `<` comparison")
            self.eat(); x = S(self.expr()); self.eat(":"); y = S(self.expr())
            return f"(if {a[1]} < {a[2]} then {x} else {y})"
        return a

    def cmpx(self):
        a = self.add()
        if self.peek()[1] == "<":
            self.eat(); b = self.add()
            return ("cmp", S(a), S(b))
        return a

    def add(self):
        a = self.mul()
        while self.peek()[1] in ("+", "-"):
            op = self.eat()[1]; a = f"({S(a)} {op} {S(self.mul())})"
        return a

    def mul(self):
        a = self.unary()
        while self.peek()[1] in ("*", "/"):
            op = self.eat()[1]
            b = self.unary()
            if isinstance(b, tuple) and b[0] == "reduce" and op == "*":
                return ("scaled", S(a), b)
            a = f"({S(a)} {op} {S(b)})"
        return a

    def unary(self):
        if self.peek()[1] == "-":
            self.eat(); return f"(-{S(self.unary())})"
        return self.postfix()

    def postfix(self):
        a = self.primary()
        while self.peek()[1] == ".":
            self.eat()
            name = self.eat()[1]
            self.eat("(")
            if name == "max":
                arg = self.eat()
                if arg[0] != "num" or Fraction(arg[1]) != 0:
                    raise TranslateError(".max(c) is translated for c = 0 only")
                self.eat(")"); a = f"(max0 {S(a)})"
            elif name == "square":
                self.eat(")"); a = f"({S(a)} * {S(a)})"
            elif name in self.METHODS:
                self.eat(")"); a = f"({self.METHODS[name]} {S(a)})"
            elif name == "array":
                self.eat(")")
            elif name == "sum":
                self.eat(")"); a = ("reduce", "sum", S(a))
            elif name == "count":
                self.eat(")")
                if not (isinstance(a, tuple) and a[0] == "cmp"):
                    raise TranslateError(".count() of something that is not a `<` comparison")
                a = ("reduce", "count", a)
            else:
                raise TranslateError("array method ." + name + "() is not translated")
        return a

    def primary(self):
        k = self.eat()
        if k[0] == "num":
            return lean_number(k[1])
        if k[1] == "(":
            e = self.expr(); self.eat(")"); return e
        if k[0] == "id":
            name = k[1]
            if self.peek()[1] == "(":
                self.eat("(")
                if name in ("scalar_t", "static_cast<scalar_t>"):
                    e = self.expr(); self.eat(")"); return e
                if name in self.CALLS:
                    e = S(self.expr()); self.eat(")"); return f"({self.CALLS[name]} {e})"
                if name in self.bind:            # element access target(i) / output(i)
                    self.eat(); self.eat(")"); return self.bind[name]
                raise TranslateError("call of " + name + " is not translated")
            if name in self.bind:
                return self.bind[name]
            raise TranslateError("unbound symbol " + name)
        raise TranslateError(f"unexpected token {k[1]!r}")


def formula(text, bind, what):
    """text of one C++ expression -> (scale or None, reduction or None, lean scalar term / (lhs, rhs) for count)"""
    try:
        p = Parser(tokenize(text), bind)
        e = p.expr()
        if p.peek()[0] != "eof":
            raise TranslateError("trailing tokens: " + p.peek()[1])
    except TranslateError as ex:
        raise TranslateError(f"{what}: {ex} in `{' '.join(text.split())}`")
    scale = None
    if isinstance(e, tuple) and e[0] == "scaled":
        scale, e = e[1], e[2]
    if isinstance(e, tuple) and e[0] == "reduce":
        if e[1] == "count":
            return scale, "count", (e[2][1], e[2][2])
        return scale, "sum", e[2]
    if isinstance(e, tuple):
        raise TranslateError(f"{what}: unexpected shape {e[0]}")
    return scale, None, e


def statements(body):
    return [" ".join(s.split()) for s in strip_comments(body).split(";") if s.strip()]


B2 = {"target": "t", "output": "o"}

ARRAY_KERNELS = [  # (struct, Lean prefix)
    ("exponential_t", "exp"), ("hinge_t", "hinge"), ("squared_hinge_t", "sqhinge"), ("savage_t", "savage"),
    ("tangent_t", "tangent"), ("mae_t", "mae"), ("mse_t", "mse"), ("cauchy_t", "cauchy"),
]


def single(body, pattern, what):
    st = statements(body)
    if len(st) != 1:
        raise TranslateError(f"{what}: expected one statement, got {len(st)}: {st}")
    m = re.fullmatch(pattern, st[0])
    if not m:
        raise TranslateError(f"{what}: unexpected statement `{st[0]}`")
    return m.group(1), st[0]


def gen_array_kernel(src, struct, pre, path):
    sb = strip_comments(struct_body(src, struct, path))
    out = []
    text, quoted = single(method_body(sb, "value", struct), r"return (.*)", f"{struct}::value")
    scale, red, e = formula(text, B2, f"{struct}::value")
    if red != "sum":
        raise TranslateError(f"{struct}::value is not a `.sum()` over the outputs")
    out.append(f"/-- `{struct}::value`: `{quoted};` -/")
    out.append(f"def {pre}V (t o : α) : α := {e}")
    out.append(f"def {pre}Value (t o : List α) : α := " + (f"{scale} * " if scale else "") + f"sum2 {pre}V t o")
    text, quoted = single(method_body(sb, "vgrad", struct), r"vgrad = (.*)", f"{struct}::vgrad")
    scale, red, e = formula(text, B2, f"{struct}::vgrad")
    if red is not None or scale is not None:
        raise TranslateError(f"{struct}::vgrad is not an element-wise expression")
    out.append(f"/-- `{struct}::vgrad`: `{quoted};` -/")
    out.append(f"def {pre}G (t o : α) : α := {e}")
    out.append(f"def {pre}Vgrad (t o : List α) : List α := map2 {pre}G t o")
    flags = {}
    for f in ("convex", "smooth"):
        m = re.search(r"static constexpr auto " + f + r"\s*=\s*(true|false)\s*;", sb)
        if not m:
            raise TranslateError(f"{struct}: flag {f} not found")
        flags[f] = m.group(1)
    m = re.search(r'static constexpr auto basename\s*=\s*"([^"]*)"\s*;', sb)
    if not m:
        raise TranslateError(f"{struct}: basename not found")
    return out, (m.group(1), flags["convex"], flags["smooth"])


def loop_statements(body, what):
    """the statements inside the single `for (…) { … }` of a scalar loop"""
    m = re.search(r"\bfor\s*\(", body)
    if not m:
        raise TranslateError(f"{what}: no loop")
    return statements(block_after(body, m.start())[0])


def gen_logistic(src, path):
    sb = strip_comments(struct_body(src, "logistic_t", path))
    out = []
    st = loop_statements(method_body(sb, "value", "logistic_t"), "logistic_t::value")
    if len(st) != 2:
        raise TranslateError(f"logistic_t::value: loop body {st}")
    m1 = re.fullmatch(r"const auto x = (.*)", st[0]); m2 = re.fullmatch(r"value \+= (.*)", st[1])
    if not m1 or not m2:
        raise TranslateError(f"logistic_t::value: loop body {st}")
    _, _, x = formula(m1.group(1), B2, "logistic_t::value x")
    _, _, v = formula(m2.group(1), {"x": "x"}, "logistic_t::value")
    out.append(f"/-- `logistic_t::value`, loop body: `{st[0]}; {st[1]};` -/")
    out.append(f"def logisticV (t o : α) : α :=\n  let x := {x}\n  {v}")
    out.append("def logisticValue (t o : List α) : α := sum2 logisticV t o")
    st = loop_statements(method_body(sb, "vgrad", "logistic_t"), "logistic_t::vgrad")
    if len(st) != 3:
        raise TranslateError(f"logistic_t::vgrad: loop body {st}")
    m1 = re.fullmatch(r"const auto x = (.*)", st[0]); m2 = re.fullmatch(r"const auto g = (.*)", st[1])
    m3 = re.fullmatch(r"vgrad\(i\) = (.*)", st[2])
    if not m1 or not m2 or not m3:
        raise TranslateError(f"logistic_t::vgrad: loop body {st}")
    _, _, x = formula(m1.group(1), B2, "logistic_t::vgrad x")
    _, _, g = formula(m2.group(1), {"x": "x"}, "logistic_t::vgrad g")
    _, _, r = formula(m3.group(1), dict(B2, g="g"), "logistic_t::vgrad")
    out.append(f"/-- `logistic_t::vgrad`, loop body: `{st[0]}; {st[1]}; {st[2]};` -/")
    out.append(f"def logisticG (t o : α) : α :=\n  let x := {x}\n  let g := {g}\n  {r}")
    out.append("def logisticVgrad (t o : List α) : List α := map2 logisticG t o")
    return out


def gen_pinball(src, path):
    out = []
    bind = {"itarget": "t", "ioutput": "o", "alpha": "a"}
    for member, lhs, pre in (("pinball_loss_t::value", "values\\(i\\)", "V"), ("pinball_loss_t::vgrad", "vgrads\\.array\\(i\\)", "G")):
        m = re.search(r"\b" + re.escape(member) + r"\s*\(", src)
        if not m:
            raise TranslateError(f"{member} not found in {path}")
        body = re.sub(r"\bassert\s*\((?:[^()]|\((?:[^()]|\([^()]*\))*\))*\)\s*;", "", block_after(src, m.start())[0])
        st = loop_statements(body, member)
        hit = [s for s in st if re.match(lhs + r" = ", s)]
        if len(hit) != 1 or len(st) != 3:
            raise TranslateError(f"{member}: loop body {st}")
        text = re.sub(r"^" + lhs + r" = ", "", hit[0])
        scale, red, e = formula(text, bind, member)
        if scale is not None or (pre == "V") != (red == "sum"):
            raise TranslateError(f"{member}: unexpected shape")
        out.append(f"/-- `{member}`: `{hit[0]};` -/")
        out.append(f"def pinball{pre} (a t o : α) : α := {e}")
        out.append("def pinballValue (a : α) (t o : List α) : α := sum2 (pinballV a) t o" if pre == "V" else
                   "def pinballVgrad (a : α) (t o : List α) : List α := map2 (pinballG a) t o")
    return out


def gen_errors(src, path):
    out = []
    sb = strip_comments(struct_body(src, "absdiff_t", path))
    text, quoted = single(method_body(sb, "error", "absdiff_t"), r"return (.*)", "absdiff_t::error")
    scale, red, e = formula(text, B2, "absdiff_t::error")
    if red != "sum" or scale is not None:
        raise TranslateError("absdiff_t::error: unexpected shape")
    out.append(f"/-- `absdiff_t::error`: `{quoted};` -/")
    out.append(f"def absdiffK (t o : α) : α := {e}")
    out.append("def absdiffError (t o : List α) : α := sum2 absdiffK t o")
    sb = strip_comments(struct_body(src, "mclass_t", path))
    st = statements(method_body(sb, "error", "mclass_t"))
    if len(st) != 3 or not re.fullmatch(r"constexpr auto epsilon = std::numeric_limits<scalar_t>::epsilon\(\)", st[1]):
        raise TranslateError(f"mclass_t::error: body {st}")
    m1 = re.fullmatch(r"const auto edges = (.*)", st[0]); m3 = re.fullmatch(r"return (.*)", st[2])
    if not m1 or not m3:
        raise TranslateError(f"mclass_t::error: body {st}")
    _, _, edge = formula(m1.group(1), B2, "mclass_t::error edges")
    scale, red, c = formula(m3.group(1), {"edges": "(mclassEdge t o)", "epsilon": "eps"}, "mclass_t::error")
    if red != "count" or scale is not None:
        raise TranslateError("mclass_t::error: not a .count()")
    out.append(f"/-- `mclass_t::error`: `{st[0]}; … {st[2]};` -/")
    out.append(f"def mclassEdge (t o : α) : α := {edge}")
    out.append(f"def mclassWrong (eps t o : α) : Bool := decide ({c[0]} < {c[1]})")
    return out


HEADER = """-- GENERATED by tools/props/c06.py from include/nano/loss/flatten.h, include/nano/loss/error.h, src/loss/pinball.cpp — do not edit
import NanoVerif.Model.Loss
/-!
  The per-element formulas of libnano's loss kernels, re-translated from the C++ source text on every check (DESIGN.md §2.3.a).
  `<k>V t o` / `<k>G t o`: the element-wise value / derivative for the target entry `t` and the output entry `o`;
  `<k>Value` / `<k>Vgrad`: how the per-sample value / gradient is assembled from them (`.sum()` over the outputs, leading factor).
  Eigen's `.abs() .sign() .max(0) .square()` are `abs'`, `sign'`, `max0` and a product; literals go through OfNat + Div only.
  Tied to the hand-written text of Model/Loss.lean by `rfl` for every scalar type: Proofs/C06Gen.lean.
-/
namespace NanoVerif.Gen.LossKernels
open NanoVerif.Loss
section
variable {α : Type} [Add α] [Sub α] [Mul α] [Div α] [Neg α] [LT α] [LE α] [DecidableLT α] [DecidableLE α]
  [OfNat α 0] [OfNat α 1] [OfNat α 2] [OfNat α 4] [NatCast α] [Transc α]
open Transc
"""


def generate(repo):
    path_f = os.path.join(repo, "include", "nano", "loss", "flatten.h")
    path_e = os.path.join(repo, "include", "nano", "loss", "error.h")
    path_p = os.path.join(repo, "src", "loss", "pinball.cpp")
    src_f = strip_comments(open(path_f).read())
    out, flags = [], []
    for struct, pre in ARRAY_KERNELS:
        lines, fl = gen_array_kernel(src_f, struct, pre, path_f)
        out += lines + [""]
        flags.append(fl)
    out += gen_logistic(src_f, path_f) + [""]
    out += gen_pinball(strip_comments(open(path_p).read()), path_p) + [""]
    out += gen_errors(strip_comments(open(path_e).read()), path_e) + [""]
    # the flags of the kernels that were not translated are still read from the header
    for struct in ("classnll_t", "logistic_t"):
        sb = strip_comments(struct_body(src_f, struct, path_f))
        fl = [re.search(r"static constexpr auto " + f + r"\s*=\s*(true|false)\s*;", sb) for f in ("convex", "smooth")]
        bn = re.search(r'static constexpr auto basename\s*=\s*"([^"]*)"\s*;', sb)
        if not all(fl) or not bn:
            raise TranslateError(f"{struct}: flags not found")
        flags.append((bn.group(1), fl[0].group(1), fl[1].group(1)))
    body = ["end", "",
            "/-- `static constexpr auto basename / convex / smooth` of the kernel structs of flatten.h -/",
            "def kernelFlags : List (String × Bool × Bool) := ["
            + ", ".join(f'("{b}", {c}, {s})' for b, c, s in flags) + "]", "",
            "end NanoVerif.Gen.LossKernels", ""]
    return HEADER + "\n" + "\n".join(out) + "\n".join(body)


def translate(repo=None):
    try:
        text = generate(repo or vlib.REPO)
    except (TranslateError, OSError, ValueError) as ex:
        raise vlib.Broken("translate:LossKernels", str(ex))
    vlib.write_if_changed(OUT, text)


if __name__ == "__main__":
    import sys
    print(generate(sys.argv[1] if len(sys.argv) > 1 else vlib.REPO))
