"""C01 — L-BFGS/BFGS solve well-conditioned smooth convex problems, truthfully (DESIGN.md §4 C01)."""
import math, os, sys
import vlib
from vlib import Toks, f2h, h2f, lst
from props.c01_translate import translate  # noqa: F401  (regenerates lean/NanoVerif/Gen/DoneLogic.lean)
from props import c01_ls0

ID = "C01"
LEVEL = "proof"
HARNESS = "c01"
LEAN_MODULES = ["NanoVerif.Props.C01"]
NS = "NanoVerif.Solver."
OBLIGATIONS = [NS + t for t in [
    "converged_truthful", "converged_truthful_lt", "converged_truthful_gd", "converged_truthful_cgd", "converged_truthful_lbfgs",
    "converged_truthful_quasi", "converged_components", "twoloop_descent", "direction_is_descent_lbfgs",
    "direction_is_descent_quasi", "direction_is_descent_cgd", "direction_is_descent_gd", "bfgs_update_secant",
    "strongly_convex_gradient_bound", "strongly_convex_accuracy",
]] + ["NanoVerif.SolverStep." + t for t in [
    # lsearch_t::get = lsearch0 o lsearchk modelled (Model/SolverStep.lean): only f is an oracle
    "converged_truthful_composed", "converged_truthful_composed_lt", "converged_truthful_composed_lbfgs",
    "converged_truthful_composed_quasi", "converged_truthful_composed_gd_cgd",
    "lsearch_success_is_evaluation_at_positive_step", "initial_step_formula", "strategy_members_after_call",
    "initial_step_positive_in_run", "initial_step_positive_throughout_run", "object_after_success",
    "quadratic_negative_step_after_refusal", "linear_negative_step_on_ascent", "cgdescent_zero_steps",
    # Proofs/SolverStep.lean: the four strategies
    "constant_t0", "constant_pos", "linear_first", "linear_formula", "linear_pos", "linear_neg_of_ascent",
    "quadratic_first", "quadratic_formula", "quadratic_pos", "quadratic_neg_of_prev_ascent", "quadratic_is_parabola_minimiser",
    "cg_first_formula", "cg_first_pos", "cg_first_zero_gradient", "cg_next_formula", "cg_next_is_parabola_minimiser",
    "cg_next_pos", "cg_zero_last", "history_members", "history_step", "l0run_stateless", "quadratic_history_step",
    "linear_history_step",
    # Proofs/SolverStepLoop.lean, Proofs/SolverStepCompose.lean: the glue and the composition
    "lkOfModel_contract", "lsearchGetM_contract", "lsearchGetM_state_cases", "lsLoopS_eq_lsLoop", "lsRunS_eq_lsRun",
    "lsMinimizeS_eq_lsMinimize", "lkOfModel_success", "lkOfModel_nondescent", "lsearchGetM_success", "lsearchGetM_nondescent",
    "t0_pos_in_run", "objInv_init", "lsearchGetM_ok_descent", "objInv_after_success", "objects_of_run_inv",
]]
TRUSTED = [
    "Lean 4.33.0 kernel + the Mathlib modules imported by Proofs/Solver*.lean and Props/C01.lean (Algebra.Order.Field.Basic, "
    "Tactic.Ring/Linarith/Positivity/FieldSimp)",
    "axioms: at most propext, Classical.choice, Quot.sound (audited per theorem on every run)",
    "tools/props/c01_translate.py: regex + recursive-descent translation of solver_t::done, gradient_test, valid, update_if_better, "
    "nano::converged, the converged flag / loop guard / return statement of gd.cpp, cgd.cpp, lbfgs.cpp, quasi.cpp into Gen/DoneLogic.lean",
    "hand-written model NanoVerif/Model/Solver.lean (directions of gd / 10 cgd / lbfgs / 5 quasi-Newton, shared loop), tied to the code by "
    "the oracle-replay correspondence on the trace hooks lsearch.begin / lsearch.end / solver.done",
    "the line search is an oracle of the model: contract 'the state it leaves is an evaluation of f' (proved for the five line "
    "searches in C07; monitored here at run time against the wrapper's evaluation log)",
    "tools/props/c01.py generator + oracle (own evaluation of the quadratics), harness/c01.cpp + harness/c01_common.h, g++/Eigen",
    "hand-written model NanoVerif/Model/SolverStep.lean (the four lsearch0 strategies with their private members, the glue "
    "lsearch_t::get, make_lsearch; composed with the C07 model of lsearchk_t::get), tied to the code by the family `ls0`: replay of "
    "every logged lsearch_t::get of real solver runs (17 solvers x 4 strategies x 5 searches x parameters over the domains), of a "
    "stand-alone lsearch_t on arbitrary (point, direction) sequences, and of a stand-alone lsearch0 object on scripted histories; "
    "tools/props/c01_ls0.py (generator, independent formulas of the four strategies, comparator)",
    "C07's theorems about lsearchk_t::get (Props/C07.lean is imported by Proofs/SolverStepCompose.lean): success_state_is_last_answer, "
    "success_step_positive, morethuente_/cgdescent_success_step_positive, nondescent_refused",
]
ASSUMPTIONS = [
    "converged_truthful_composed*: the line search is the model lsearch0 o lsearchk; its only oracle is the objective f (value and "
    "gradient as mathematical functions of the point; the call counters are those of function_t::vgrad)",
    "family ls0: the four Eigen reductions a strategy reads (g.d, |x|inf, |g|inf, |g|^2) are recomputed by the harness with Eigen on "
    "copies of the logged vectors and handed to the model's formulas (compared at 1e-12, bit-identical in practice); the model's own "
    "sequential reductions are compared within the rounding bound 8 n u sum|g_i d_i|; vectors containing NaN are not compared for "
    "CG_DESCENT's first step (Eigen leaves max-reductions over NaN unspecified)",
    "private members of the strategy objects cannot be read from outside: they are checked through the next initial step and, on the "
    "model side, against the logged (f, g.d) of the call that set them",
    "theorems are about exact arithmetic (ordered fields) or about the control skeleton for an arbitrary scalar type; rounding is outside",
    "'converged within 1500 evaluations' is a floating-point convergence-rate claim: tested on the statement's problem class, not proved",
    "benchmark functions are re-evaluated by a fresh instance of the same libnano class (their formulas are C06's subject); the random "
    "quadratics are re-evaluated by the python oracle itself",
    "replays log at most 60 iterations per run; later iterations are checked by the property oracle only",
    "the 1500-evaluation clause is checked for the registered configuration of lbfgs / bfgs (the statement's 'the L-BFGS or BFGS solver at "
    "epsilon = 1e-8'); with solver::lbfgs::history or the scaled start changed only 'converged' and the accuracy bound are demanded "
    "(observed: history = 1 on kappa = 1e3, n = 15 converges after 7614 evaluations)",
]
RULE = ("statement experiment: random strongly convex quadratics (kappa log-uniform in [1,1e3] with clustered / spread / two-point spectra, "
        "n 1..16, scale 1e-3..1e3, minimiser in [-5,5]^n, x0 in [-10,10]^n incl. box faces) with lbfgs (history 1..20 + default) and bfgs at "
        "eps = 1e-8; truthfulness: 17 line-search solvers x 4 lsearch0 x 5 lsearchk x random (c1,c2) x eps on a log grid x max_evals on the "
        "smooth benchmark functions at 1..32 dims and on random quadratics; a case is non-trivial when >= 2 iterations were taken "
        "(the forced-descent / pair-skipping branch status of every logged iteration is printed by the model); distinct by op text; "
        "family ls0 (step initialisation + glue): one real run per (solver, strategy, search) triple and seed with the strategy's parameters "
        "log-uniform / at the ends of their domains, starts incl. the origin; 250 stand-alone lsearch_t sequences with ascent / zero / random "
        "directions and calls after failed searches; 600 scripted lsearch0 histories (any last step size incl. 0, negative, NaN, inf; "
        "non-finite values; trial values on both sides of the tangent; 12% exact dyadic boundary cases); non-trivial when >= 2 calls")
FLAVOUR = {"quick": "plain", "thorough": "plain"}
HARNESS_TIMEOUT = 1500
RTOL_DIR = 1e-9      # direction recomputed by the model vs logged direction, relative to |d|_inf (lbfgs, bfgs, gd, cgd)
RTOL_GTEST = 1e-12
# The quasi-Newton matrix H is not logged, so the model's H accumulates the rounding differences of all earlier updates; the
# updates other than BFGS divide by quantities that vanish at the solution (DFP, Hoshino, Fletcher: 1e-6). (cgd and L-BFGS
# directions are recomputed from logged quantities only: previous direction / iterates.) SR1 divides by (dx - H dg).dg, guarded
# only by r (1e-8 by default, down to 1e-10 in the generator): whether the guard fires, and the update itself, are decided at
# the level of the rounding differences between Eigen's and the model's reductions, so only its first direction is compared
# (all its decisions - converged flags, done, returned state - still are).
# The error is measured relative to max(|d|_inf, |g|_inf): d = -g + beta pd (cgd) and d = -H g cancel almost completely close
# to the solution of an ill-conditioned problem, where |d| itself is rounding noise.
# Fletcher's switch with the scaled start decides its first update by the sign of dx.dg - dg'H dg, which is 0 in exact
# arithmetic for H = (dx.dg / dg.dg) I: only the first direction is compared there.
DIR_TOL = {"dfp": 1e-6, "hoshino": 1e-6, "fletcher": 1e-6, "sr1": 1e-6}
DIR_ONLY_FIRST = {"sr1": 1, "fletcher+scaled": 1, "sr1+scaled": 1}   # (SR1 after the scaled start: (dx - H dg).dg = 0 exactly)
ILL_CONDITIONED = {"mse+ridge[1e+06]", "mse+ridge[10000]", "powell"}   # tolerance x 1e3 (Hessians with kappa >= 1e6 / singular at the optimum)

LS_SOLVERS = ["gd", "cgd-pr", "cgd-n", "cgd-hs", "cgd-fr", "cgd-cd", "cgd-ls", "cgd-dy", "cgd-dycd", "cgd-dyhs", "cgd-frpr",
              "lbfgs", "dfp", "sr1", "bfgs", "hoshino", "fletcher"]
LSEARCH0 = ["constant", "linear", "quadratic", "cgdescent"]
LSEARCHK = ["backtrack", "cgdescent", "fletcher", "lemarechal", "morethuente"]
# id -> (convex, smooth), checked against the registry on every run (static_checks)
FUNCTIONS = {
    "maxq": (1, 0), "maxquad": (1, 0), "maxhilb": (1, 0), "chained_lq": (1, 0), "chained_cb3I": (1, 0), "chained_cb3II": (1, 0),
    "trid": (1, 1), "qing": (0, 1), "kinks": (1, 0), "cauchy": (0, 1), "sargan": (1, 1), "powell": (0, 1), "sphere": (1, 1),
    "zakharov": (1, 1), "quadratic": (1, 1), "rosenbrock": (0, 1), "exponential": (1, 1), "dixon-price": (0, 1),
    "chung-reynolds": (1, 1), "axis-ellipsoid": (1, 1), "styblinski-tang": (0, 1), "schumer-steiglitz": (1, 1),
    "rotated-ellipsoid": (1, 1), "geometric-optimization": (1, 1),
    "mse+ridge[1]": (1, 1), "mse+ridge[100]": (1, 1), "mse+ridge[10000]": (1, 1), "mse+ridge[1e+06]": (1, 1),
    "mse+lasso[1]": (1, 0), "mse+lasso[100]": (1, 0), "mse+lasso[10000]": (1, 0), "mse+lasso[1e+06]": (1, 0),
    "mse+elasticnet[1,1]": (1, 0), "mse+elasticnet[100,100]": (1, 0), "mse+elasticnet[10000,10000]": (1, 0),
    "mse+elasticnet[1e+06,1e+06]": (1, 0), "mae+ridge[1]": (1, 0), "mae+lasso[1]": (1, 0), "mae+elasticnet[1,1]": (1, 0),
    "hinge+ridge[1]": (1, 0), "hinge+lasso[1]": (1, 0), "hinge+elasticnet[1,1]": (1, 0), "cauchy+ridge[1]": (0, 0),
    "cauchy+lasso[1]": (0, 0), "cauchy+elasticnet[1,1]": (0, 0), "logistic+ridge[1]": (1, 1), "logistic+lasso[1]": (1, 0),
    "logistic+elasticnet[1,1]": (1, 0),
}
SMOOTH = sorted(k for k, v in FUNCTIONS.items() if v[1])
STATUS = {0: "max_iters", 1: "converged", 2: "failed", 3: "unfeasible", 4: "unbounded"}


# ---------------------------------------------------------------------------------------------------------------------
# problem generation (all randomness from the rng argument)

def gauss(rng):
    u1 = max(rng.unit(), 1e-300); u2 = rng.unit()
    return math.sqrt(-2.0 * math.log(u1)) * math.cos(2.0 * math.pi * u2)


def random_orthogonal(rng, n):
    """modified Gram-Schmidt on a Gaussian matrix; rows are orthonormal"""
    rows = []
    while len(rows) < n:
        v = [gauss(rng) for _ in range(n)]
        for _ in range(2):
            for q in rows:
                c = sum(a * b for a, b in zip(v, q))
                v = [a - c * b for a, b in zip(v, q)]
        nv = math.sqrt(sum(a * a for a in v))
        if nv > 1e-8:
            rows.append([a / nv for a in v])
    return rows


def spectrum(rng, n, kappa, mode=None):
    if n == 1:
        return [1.0]
    mode = rng.below(4) if mode is None else mode
    if mode == 3:      # one small eigenvalue, the rest clustered at the top (seeded change C01-e3: More-Thuente as the default search fails there)
        s = [kappa * (1.0 - 1e-3 * rng.unit() * (1 if rng.chance(0.5) else 0)) for _ in range(n)]
        s[0] = 1.0; s[-1] = kappa
        return s
    if mode == 0:      # spread
        s = [kappa ** rng.unit() for _ in range(n)]
    elif mode == 1:    # clustered at both ends
        s = [(1.0 if rng.chance(0.5) else kappa) * (1.0 + 1e-3 * rng.unit() * (1 if rng.chance(0.5) else 0)) for _ in range(n)]
        s = [min(max(v, 1.0), kappa) for v in s]
    else:              # one large eigenvalue
        s = [1.0 + rng.unit() for _ in range(n)]
        s = [min(v, kappa) for v in s]
    s[0] = 1.0; s[-1] = kappa
    return s


def random_quadratic(rng, n, kappa, scale, mode=None):
    """A = scale * Q' diag(spec) Q (symmetrised), minimiser xs in [-5,5]^n, a = -A xs; lambda_min = scale"""
    Q = random_orthogonal(rng, n)
    spec = spectrum(rng, n, kappa, mode)
    A = [[0.0] * n for _ in range(n)]
    for i in range(n):
        for j in range(i, n):
            v = scale * sum(Q[k][i] * spec[k] * Q[k][j] for k in range(n))
            A[i][j] = v; A[j][i] = v
    xs = [rng.uniform(-5.0, 5.0) for _ in range(n)]
    a = [-sum(A[i][j] * xs[j] for j in range(n)) for i in range(n)]
    return A, a, xs


def start_point(rng, n, radius=10.0):
    x0 = [rng.uniform(-radius, radius) for _ in range(n)]
    if rng.chance(0.3):  # on a face / a vertex of the box
        for i in range(n):
            if rng.chance(0.5):
                x0[i] = radius if rng.chance(0.5) else -radius
    return x0


def fmt_params(params):
    out = [str(len(params))]
    for name, kind, val in params:
        if kind == "f":
            out += [name, "f", f2h(val)]
        elif kind == "i":
            out += [name, "i", str(int(val))]
        elif kind == "s":
            out += [name, "s", val]
        else:
            out += [name, "p", f2h(val[0]), f2h(val[1])]
    return " ".join(out)


def quad_spec(A, a):
    n = len(a)
    return f"quad {n} {lst([A[i][j] for i in range(n) for j in range(n)], f2h)} {lst(a, f2h)} 0"


def make_op(family, sid, ls0, lsk, params, fnspec, x0, meta=""):
    return f"{family} run {sid} {ls0} {lsk} {fmt_params(params)} {fnspec} {lst(x0, f2h)}" + (f" # {meta}" if meta else "")


def eps_grid(rng):
    return 10.0 ** (-rng.range(2, 12)) * (1.0 if rng.chance(0.7) else rng.uniform(1.0, 9.99))


def gen(rng, tier):
    ops = []
    cp = os.path.join(vlib.VERIF, "corpus", "C01", "ops.txt")
    if os.path.exists(cp):
        ops += [l.strip() for l in open(cp) if l.strip() and not l.startswith("#")]
    n_stmt = 300 if tier == "quick" else 2000
    n_truth = 1000 if tier == "quick" else 8000
    # the statement's experiment
    for k in range(n_stmt):
        sid = "lbfgs" if k % 2 == 0 else "bfgs"
        n = rng.range(1, 16) if not rng.chance(0.15) else rng.choice([1, 2, 16])
        kappa = 10.0 ** (3.0 * rng.unit()) if not rng.chance(0.15) else rng.choice([1.0, 1e3])
        scale = 10.0 ** rng.uniform(-3.0, 3.0) if not rng.chance(0.15) else rng.choice([1e-3, 1e3])
        A, a, xs = random_quadratic(rng, n, kappa, scale)
        x0 = start_point(rng, n)
        params = [("solver::epsilon", "f", 1e-8), ("solver::max_evals", "i", 20000)]
        if sid == "lbfgs" and rng.chance(0.6):
            params.append(("solver::lbfgs::history", "i", rng.range(1, 20)))
        if sid == "bfgs" and rng.chance(0.3):
            params.append(("solver::quasi::initialization", "s", "scaled"))
        ops.append(make_op("solver", sid, "-", "-", params, quad_spec(A, a), x0,
                           f"stmt {f2h(scale)} {lst(xs, f2h)}"))
    # corners of the statement's domain (from a forked stream): large dimension x extreme curvature scale x extreme condition number x
    # each spectrum shape, default configuration - where a changed default line search / a slip in an update formula shows first
    # (seeded changes C01-e2: low curvature, n >= 6, spread spectrum; C01-e3: scale >= 30, one small eigenvalue, n = 16)
    rc = rng.fork()
    for k in range(80 if tier == "quick" else 600):
        sid = "lbfgs" if k % 2 == 0 else "bfgs"
        n = rc.choice([12, 14, 15, 16, 16])
        kappa = rc.choice([1e3, 1e3, 10.0 ** rc.uniform(2.5, 3.0)])
        scale = rc.choice([1e-3, 3e-3, 30.0, 100.0, 1e3, 10.0 ** rc.uniform(1.5, 3.0), 10.0 ** rc.uniform(-3.0, -2.0)])
        A, a, xs = random_quadratic(rc, n, kappa, scale, mode=k // 2 % 4)
        x0 = start_point(rc, n)
        params = [("solver::epsilon", "f", 1e-8), ("solver::max_evals", "i", 20000)]
        ops.append(make_op("solver", sid, "-", "-", params, quad_spec(A, a), x0, f"stmt {f2h(scale)} {lst(xs, f2h)}"))
    # ... and the sharpest of these corners more densely: n = 16, curvature scale 100..1e3, one small eigenvalue and the rest at the
    # top, so that |f| ~ 1e7..1e8 near the minimiser and the decrease along the last steps is of the order of an ulp of f
    for k in range(40 if tier == "quick" else 300):
        sid = "bfgs" if k % 4 else "lbfgs"
        scale = rc.choice([100.0, 300.0, 1e3])
        A, a, xs = random_quadratic(rc, 16, rc.choice([100.0, 300.0, 1e3]), scale, mode=3)
        params = [("solver::epsilon", "f", 1e-8), ("solver::max_evals", "i", 20000)]
        ops.append(make_op("solver", sid, "-", "-", params, quad_spec(A, a), start_point(rc, 16), f"stmt {f2h(scale)} {lst(xs, f2h)}"))
    # truthfulness of `converged` for the 17 line-search solvers
    for k in range(n_truth):
        sid = LS_SOLVERS[k % len(LS_SOLVERS)]
        ls0 = rng.choice(LSEARCH0 + ["-"])
        lsk = rng.choice(LSEARCHK + ["-"])
        eps = eps_grid(rng)
        params = [("solver::epsilon", "f", eps),
                  ("solver::max_evals", "i", rng.choice([10, 11, 20, 50, 100, 300, 1000, 5000]) if rng.chance(0.5) else rng.range(10, 5000))]
        if rng.chance(0.6):
            c1 = 10.0 ** rng.uniform(-6.0, math.log10(0.45))
            c2 = rng.uniform(max(c1 * 1.01, 0.05), 0.99)
            params.append(("solver::tolerance", "p", (c1, c2)))
        if sid == "lbfgs" and rng.chance(0.7):
            params.append(("solver::lbfgs::history", "i", rng.choice([1, 2, 3, 5, 10, 20, 50])))
        if sid in ("dfp", "sr1", "bfgs", "hoshino", "fletcher") and rng.chance(0.4):
            params.append(("solver::quasi::initialization", "s", "scaled"))
        if sid == "sr1" and rng.chance(0.5):
            params.append(("solver::quasi::sr1::r", "f", 10.0 ** rng.uniform(-10, -1)))
        if sid.startswith("cgd-") and rng.chance(0.5):
            params.append(("solver::cgd::orthotest", "f", rng.uniform(0.01, 0.99)))
        if sid == "cgd-n" and rng.chance(0.5):
            params.append(("solver::cgdN::eta", "f", 10.0 ** rng.uniform(-4, 2)))
        if rng.chance(0.25):
            n = rng.range(1, 16)
            A, a, xs = random_quadratic(rng, n, 10.0 ** (4.0 * rng.unit()), 10.0 ** rng.uniform(-3.0, 3.0))
            fnspec = quad_spec(A, a)
        else:
            fid = rng.choice(SMOOTH)
            n = rng.choice([1, 2, 3, 4, 8, 16, 32]) if not rng.chance(0.3) else rng.range(1, 32)
            if fid == "rosenbrock" or "+" in fid:
                n = max(n, 2)
            if fid == "powell":
                n = max(4, n - n % 4)
            fnspec = f"bench {fid} {n} {rng.choice([10, 50])} 0"
        radius = 10.0 ** rng.uniform(-3.0, 1.0)
        x0 = start_point(rng, n, radius)
        ops.append(make_op("solver", sid, ls0, lsk, params, fnspec, x0))
    # the step-initialisation strategies and the glue lsearch_t::get (family ls0)
    ops += c01_ls0.gen(rng, tier, sys.modules[__name__])
    return ops


# ---------------------------------------------------------------------------------------------------------------------
# parsing

class Op:
    pass


def parse_op(text):
    """the generator's part of the line (before ` | `)"""
    head = text.split(" | ")[0]
    meta = None
    if " # " in head:
        head, meta = head.split(" # ", 1)
    t = Toks(head)
    o = Op()
    o.family = t.s(); o.op = t.s(); o.sid = t.s(); o.ls0 = t.s(); o.lsk = t.s()
    o.params = {}
    for _ in range(t.int()):
        name = t.s(); kind = t.s()
        if kind == "f":
            o.params[name] = t.f()
        elif kind == "i":
            o.params[name] = t.int()
        elif kind == "s":
            o.params[name] = t.s()
        else:
            o.params[name] = (t.f(), t.f())
    o.kind = t.s()
    o.A = o.a = o.W = o.b = None
    if o.kind == "quad":
        n = t.int(); A = t.fs(); o.a = t.fs()
        o.A = [A[i * n:(i + 1) * n] for i in range(n)]
        o.n = n; o.fid = "quad"
    elif o.kind == "pwl":
        n = t.int(); m = t.int(); W = t.fs(); o.b = t.fs()
        o.W = [W[i * n:(i + 1) * n] for i in range(m)]
        o.n = n; o.fid = "pwl"
    else:
        o.fid = t.s(); o.n = t.int(); o.summands = t.int()
    o.constraints = []
    for _ in range(t.int()):
        ck = t.s()
        if ck == "box":
            o.constraints.append((ck, t.f(), t.f()))
        elif ck == "ball":
            o.constraints.append((ck, t.f()))
        else:
            o.constraints.append((ck, t.fs(), t.f()))
    o.x0 = t.fs()
    o.meta = meta
    o.eps = o.params.get("solver::epsilon", 1e-8)
    o.max_evals = o.params.get("solver::max_evals", 1000)
    return o


def quad_eval(A, a, x):
    """same operation order as quad_t::do_vgrad of the harness: bit-identical"""
    n = len(a)
    fx = 0.0; g = []
    for i in range(n):
        Ax = 0.0
        for j in range(n):
            Ax += A[i][j] * x[j]
        g.append(Ax + a[i])
        fx += x[i] * (0.5 * Ax + a[i])
    return fx, g


def pwl_eval(W, b, x):
    best = 0; fx = 0.0
    for i in range(len(b)):
        v = b[i]
        for j in range(len(x)):
            v += W[i][j] * x[j]
        if i == 0 or v > fx:
            fx = v; best = i
    return fx, list(W[best])


class Res:
    pass


def parse_res(res):
    t = Toks(res)
    if t.s() != "ok":
        return None
    r = Res()
    r.status = t.int(); r.units = t.int(); r.fcalls = t.int(); r.gcalls = t.int()
    r.x = t.fs(); r.fx = t.f(); r.gx = t.fs(); r.fr = t.f(); r.gr = t.fs()
    r.mon_checked = t.int(); r.mon_bad = t.int()
    assert t.s() == "T"
    r.iters = t.int(); r.logged = t.int()
    r.it = []
    for _ in range(r.logged):
        d = t.fs(); conv = t.int(); valid = t.int(); gtest = t.f(); ok = t.int(); xn = t.fs()
        r.it.append((d, conv, valid, gtest, ok, xn))
    return r


def same(a, b):
    return a == b or (a != a and b != b)


def gtest_of(f, g):
    gn = max(abs(v) for v in g) if g else 0.0
    return gn / max(1.0, abs(f))


_seen = {}


def oracle(aug, res):
    """independent evaluation of the property statement on the implementation's answer"""
    if aug.startswith("ls0 "):
        if " | " not in aug:
            return f"ls0: the harness did not answer: {res[:120]}"
        _seen[aug.split(" | ")[0]] = c01_ls0.calls_of(aug)
        return c01_ls0.oracle(aug, res, c01_ls0.quad_of(aug, sys.modules[__name__]))
    o = parse_op(aug)
    r = parse_res(res)
    if r is None:
        return f"implementation did not return a state: {res[:120]}"
    _seen[aug.split(" | ")[0]] = r.iters
    if len(r.x) != o.n:
        return f"returned point has dimension {len(r.x)}, expected {o.n}"
    if r.mon_bad:
        return f"monitor: {r.mon_bad} of {r.mon_checked} states left by the line search / shown to done are not evaluations of the function"
    # independent re-evaluation at the returned point
    if o.kind == "quad":
        f, g = quad_eval(o.A, o.a, r.x)
    else:
        f, g = r.fr, r.gr
    if r.status == 1:
        gt = gtest_of(f, g)
        if not gt < o.eps:
            return (f"status converged but the recomputed max|grad f(x)|/max(1,|f(x)|) = {gt:.17g} is not below epsilon = {o.eps:.17g} "
                    f"(reported fx={r.fx!r}, recomputed {f!r})")
    if o.meta and o.meta.startswith("stmt"):
        mt = Toks(o.meta); mt.s(); lmin = mt.f(); xs = mt.fs()
        if r.status != 1:
            return f"statement: status {STATUS.get(r.status, r.status)} instead of converged after {r.units} evaluations"
        default_cfg = "solver::lbfgs::history" not in o.params and "solver::quasi::initialization" not in o.params
        if default_cfg and r.units > 1500:
            return f"statement: converged after {r.units} > 1500 function+gradient evaluations"
        dist = math.sqrt(sum((p - q) ** 2 for p, q in zip(r.x, xs)))
        bound = math.sqrt(o.n) * o.eps * max(1.0, abs(f)) / lmin
        # xs is the minimiser up to the rounding of a = -A xs: |x* - xs| <= kappa * n * macheps * |xs| (absorbed below)
        if not dist <= bound * (1.0 + 1e-6) + 1e-12 * max(1.0, max(abs(v) for v in xs)):
            return f"statement: |x - x*|_2 = {dist:.6g} exceeds sqrt(n) eps max(1,|f|)/lambda_min = {bound:.6g}"
    return None


def classify(op, kind, detail):
    if op.startswith("ls0 "):
        t = op.split()
        strat = next((w for w in t[2:12] if w in c01_ls0.STRATEGIES), "?")
        what = detail.split(":")[2].strip().split(" ")[0] if kind == "oracle" and detail.count(":") >= 2 else kind
        return f"ls0:{t[1]}:{strat}:{what}" if kind == "oracle" else f"{kind}:ls0:{t[1]}:{strat}"
    try:
        o = parse_op(op)
    except Exception:
        return None
    if kind == "oracle":
        if detail.startswith("statement: status"):
            return f"stmt:{o.sid}:not-converged"
        if detail.startswith("statement: converged after"):
            return f"stmt:{o.sid}:evals>1500"
        if detail.startswith("statement: |x"):
            return f"stmt:{o.sid}:inaccurate"
        if detail.startswith("status converged"):
            return f"truthful:{o.sid}:{o.lsk}:{o.fid}"
        if detail.startswith("monitor"):
            return f"monitor:{o.sid}:{o.lsk}"
        return f"other:{o.sid}"
    if kind == "corr":
        return f"corr:{o.sid}"
    return f"{kind}:{o.sid}"


def nontrivial(op):
    return _seen.get(op.split(" | ")[0], 0) >= 2


def distribution(ops):
    d = {}
    for op in ops:
        t = op.split()
        k = f"{t[2]}" if t[0] != "ls0" else f"ls0:{t[1]}"
        d[k] = d.get(k, 0) + 1
    d.update(c01_ls0.COUNTS)
    its = [v for k, v in _seen.items() if not k.startswith("ls0 ")]
    if its:
        d["iterations:0"] = sum(1 for v in its if v == 0)
        d["iterations:1"] = sum(1 for v in its if v == 1)
        d["iterations:2-60"] = sum(1 for v in its if 2 <= v <= 60)
        d["iterations:>60"] = sum(1 for v in its if v > 60)
    return d


def vec_close(a, b, rtol, floor=0.0):
    if len(a) != len(b):
        return False
    if any(x != x for x in a) or any(x != x for x in b):
        return all(same(x, y) for x, y in zip(a, b))
    scale = max([abs(x) for x in a] + [floor])
    if scale == math.inf:
        return all(x == y for x, y in zip(a, b))
    return all(abs(x - y) <= rtol * scale for x, y in zip(a, b))


def logged_gradient_norms(aug):
    """|g|_inf at the start of every logged iteration (from the trace part of the A line)"""
    t = Toks(aug.split(" | ", 1)[1])
    t.int(); t.f(); t.int(); t.int(); t.int(); t.f(); t.f(); t.f(); t.int(); logged = t.int()
    t.s(); t.fs(); t.f(); t.fs(); t.int(); t.int()
    out = []
    for _ in range(logged):
        t.fs(); g = t.fs(); t.f(); t.fs(); t.f(); t.int(); t.f(); t.fs(); t.fs(); t.f(); t.int(); t.int(); t.int()
        out.append(max([abs(v) for v in g if v == v] + [0.0]))
    return out


def compare(aug, impl, model):
    """impl: what the hooks logged; model: what the Lean model recomputed from the logged oracle answers"""
    if aug.startswith("ls0 "):
        try:
            return c01_ls0.compare(aug, impl, model)
        except Exception:
            return False
    r = parse_res(impl)
    if r is None:
        return False
    t = Toks(model)
    if t.s() != "ok":
        return False
    first = t.s()
    truncated = r.logged < r.iters
    if first == "trunc":
        if not truncated:
            return False
    else:
        if truncated:
            return False
        status = int(first); x = t.fs(); fx = t.f(); gx = t.fs()
        if status != r.status or len(x) != len(r.x):
            return False
        if not (all(same(p, q) for p, q in zip(x, r.x)) and same(fx, r.fx) and all(same(p, q) for p, q in zip(gx, r.gx))):
            return False
    if t.s() != "T":
        return False
    miters = t.int(); mlogged = t.int()
    if miters != r.logged or mlogged != r.logged:
        return False
    o = parse_op(aug)
    gnorms = logged_gradient_norms(aug)
    tol = DIR_TOL.get(o.sid, RTOL_DIR) * (1e3 if o.fid in ILL_CONDITIONED else 1.0)
    key = o.sid + ("+scaled" if o.params.get("solver::quasi::initialization") == "scaled" else "")
    only_first = DIR_ONLY_FIRST.get(key, DIR_ONLY_FIRST.get(o.sid, 1 << 30))
    for k in range(r.logged):
        d = t.fs(); conv = t.int(); valid = t.int(); gtest = t.f(); xpred = t.fs(); t.int(); t.int()
        di, ci, vi, gi, oki, xn = r.it[k]
        gk = gnorms[k] if k < len(gnorms) else 0.0
        # a direction that cancelled down to < 1e-6 |g| is rounding noise, and so is the has_descent / restart decision taken
        # on it (seen with cgd on mse+ridge[1e+06] at eps = 1e-11): not compared
        degenerate = min(max([abs(v) for v in di] + [0.0]), max([abs(v) for v in d] + [0.0])) < 1e-6 * gk
        # quasi-Newton on a function whose Hessian is singular at the optimum (powell) / has kappa >= 1e6: the unlogged H grows
        # without bound as |g| -> 0 and the rounding differences of its updates grow with it (seen: bfgs + scaled start on powell at
        # eps = 2.5e-11, relative error 3e-7, 3e-6, 3e-5 in iterations 46..48 with |g|inf <= 1e-10): directions not compared there
        # (VERIF_SEED=17: bfgs on powell, relative error 2.4e-6 at an iteration with |g|inf = 1.8e-9 AFTER an iteration with 8e-11:
        # the gradient norms are not monotone and H keeps what it accumulated, so the RUNNING MINIMUM decides; a wrong update
        # formula shows in the first two or three iterations, long before)
        if o.fid in ILL_CONDITIONED and o.sid in ("bfgs", "dfp", "sr1", "hoshino", "fletcher") and \
                min(gnorms[:k + 1] + [gk]) < 1e-6:
            degenerate = True
        # H is not logged: the model's H carries the rounding differences of ALL earlier updates, which compound (VERIF_SEED=20:
        # fletcher on styblinski-tang[28], relative error 2.05e-6 > 1e-6 deep inside a 60-iteration window on a well-conditioned
        # function). A wrong update formula shows in the first iterations, so the updates that divide by vanishing quantities
        # (dfp, hoshino, fletcher, sr1) are compared for the first 12 directions only and the tolerance of bfgs grows with the
        # square of the iteration index; every decision (converged flags, done, returned state) is still compared
        if o.sid in DIR_TOL and k >= 12:
            degenerate = True
        tol_k = tol * (1 + k) ** 2 if o.sid == "bfgs" else tol
        if k < only_first and not degenerate and not vec_close(di, d, tol_k, gk):
            return False
        if conv != ci or valid != vi:
            return False
        if not vlib.close(gi, gtest, RTOL_GTEST):
            return False
        if oki and not all(same(p, q) for p, q in zip(xpred, xn)):
            return False
    return t.done()


def model_skip(aug):
    return " | " not in aug


def static_checks():
    """the function registry still is what the generator's table says"""
    exe = os.path.join(vlib.CACHE, "harness-plain", HARNESS)
    if not os.path.exists(exe):
        return []
    _, res, crash = vlib.run_harness(exe, ["solver list"])
    if crash or not res:
        return ["`solver list` failed"]
    got = {}
    for item in res[0].split()[1:]:
        name, c, s = item.rsplit(":", 2)
        got[name] = (int(c), int(s))
    bad = []
    if got != FUNCTIONS:
        diff = sorted(set(got.items()) ^ set(FUNCTIONS.items()))
        bad.append(f"function registry differs from the generator's table: {diff[:6]}")
    return bad
