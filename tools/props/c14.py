"""C14 — feature scaling is invertible; the un-scaled linear model is the same predictor (DESIGN.md §4 C14).

Op lines (one self-contained case per line; doubles as 16 hex digits, `nan` = missing):
  scaling run <threads> <batch> <xmode> <tmode> <groups> <tkind> <tsize> <rows> <cols> <X> <tcols> <Y> <samples> <W> <b>
  scaling feature <threads> <batch> <ifeature> <groups> <tkind> <tsize> <rows> <cols> <X> <tcols> <Y> <samples>
  <groups> = <ngroups> (<kind S|M|F|T> <nfeat> <size>...)...   the input features in flatten-column order
  scaling xclass <kind S|M> <classes> <astarget 0|1> <rows> <labels> <samples>     class statistics (xclass_stats_t)
  scaling t4 <batch> <tmode> <d1> <d2> <d3> <rows> <Y> <samples>      structured (4-D) target + feature with dims (d1, d2, d3)
The harness appends `<eps> <hi> <lo>` (epsilon2, numeric_limits max/lowest) for the Lean model.
"""
import math, os
from fractions import Fraction
import vlib
from vlib import Toks, lst, f2h, h2f
from props import c14_translate

ID = "C14"
LEVEL = "proof"
HARNESS = "c14"
LEAN_MODULES = ["NanoVerif.Props.C14"]   # imports Proofs/ScalingLemmas, ScalingGen (Gen/ScalingGuards), ScalingTop
NS = "NanoVerif.Scaling."
OBLIGATIONS = [NS + t for t in [
    "div_mul_one", "upscale_scale_id", "upscale_scale_id_row", "minmax_range", "mean_centered", "standard_unit",
    "categorical_identity", "missing_to_zero_and_ignored", "var_nonneg", "clamp_is_identity",
    "affine_upscale_same_predictor_row", "affine_upscale_same_predictor", "affine_upscale_same_predictor_of_data",
    "affine_upscale_guard",
    # gap-closing round
    "div_mul_one_regimes", "epsilon2_pos", "div_mul_one_generated", "upscale_scale_id_generated", "onepass_eq_twopass",
    "flatten_categorical_never_rescaled", "targets_and_feature_stats_guards", "targets_scaling_componentwise",
    "targets_roundtrip4",
    "model_cmax_is_generated", "model_init_is_generated", "model_push_is_generated", "model_finalize_is_generated",
    "model_nan2zero_is_generated", "model_scale_is_generated", "model_upscale_is_generated", "model_makeScaling_is_generated",
    "enableMask_spec", "column2feature_isSome",
    "makeHashes_sorted", "mem_makeHashes", "find_spec", "sample_classified", "class_weights_pos",
    # round 5: closed form of the class counts; the hypotheses of class_weights_pos hold for what make_xclass_stats computes
    "class_counts_closed_form", "xclass_counts_pos", "xclass_weights_pos", "class_weights_balanced", "xclass_weights_balanced",
]]


def translate():
    """Gen/ScalingGuards.lean: ::done / ::update / scale / upscale / make_scaling / nan2zero / ctor fill values / epsilon2 from the source"""
    return c14_translate.translate()

TRUSTED = [
    "Lean 4.33.0 kernel; Mathlib modules Mathlib.Algebra.Order.Field.Basic, Mathlib.Algebra.Order.Field.Rat, "
    "Mathlib.Tactic.Ring/Linarith/FieldSimp/LinearCombination/NormNum (only in Proofs/ScalingLemmas.lean and Props/C14.lean)",
    "axioms: at most propext, Classical.choice, Quot.sound (audited per theorem on every run)",
    "hand-written generic-scalar model NanoVerif/Model/Scaling.lean of src/dataset/stats.cpp (update, done, scale, upscale, "
    "make_scaling, nano::upscale); tied to the code by the correspondence run: harness/c14.cpp builds an in-memory "
    "datasource/dataset whose flatten matrix is the op's matrix (checked bit for bit), calls make_flatten_stats / "
    "make_targets_stats / make_feature_stats, scalar_stats_t::scale/upscale (2d and 4d overloads), nano::upscale, "
    "linear::predict, flatten_iterator_t (cached and not), vs the same model compiled at Float (driver_c14)",
    "Lean Float = g++ double for + - * / sqrt in the same order (no -ffast-math, no FMA contraction on the x86-64 baseline)",
    "tools/props/c14.py generator + independent python oracle (exact rational statistics); harness/c14.cpp; g++/libstdc++/Eigen",
    "tools/props/c14_translate.py: the translator of ::done / ::update / scale / upscale / make_scaling / nan2zero / the constructor's fill "
    "values / epsilon2 (statement-level: let, attribute assignment, compound assignment, if/else, switch over scaling_type) into "
    "Gen/ScalingGuards.lean; Proofs/ScalingGen.lean proves the hand-written model text equal to it for every scalar type",
    "std::lower_bound's contract (first position whose element is not less, on a partitioned range; the range is proved strictly "
    "increasing) and nano::hash of a multi-label row (reported per sample by the harness) in the model of xclass_stats_t",
]
ASSUMPTIONS = [
    "theorems are about exact arithmetic (any linear ordered field); the standard deviation enters as a value sd >= 0 with "
    "sd*sd = variance (the Sqrt class; Float.sqrt in the driver); rounding is covered by the correspondence/oracle runs only",
    "a missing value is a non-finite double (NaN when not given, or an infinity): the model's Option.none; present values are "
    "finite, i.e. within [numeric_limits::lowest(), numeric_limits::max()] (hypothesis of the min/max theorems)",
    "asserts on sizes are compiled out in the release build: ops with mismatching sizes are never generated; the model returns none there",
    "oracle tolerances ('rounding relative to the magnitudes involved'): round trip 1e-12*(|x|+max|column|); mean 1e-15*(N+10)*mean|x|; "
    "(N-1)*variance 1e-15*(N+10)*sum x^2; scaled range 1e-12; scaled mean 1e-15*(N+10)*max|x|/denominator; scaled variance "
    "2*delta/variance+1e-12 checked when delta = 1e-15*(N+10)*sum x^2/(N-1) <= variance/10; predictions 1e-9 * sum|terms|",
    "correspondence is bit-exact except the converted bias and linear::predict (Eigen matrix products re-associate the sums): "
    "those are compared with an absolute tolerance 1e-12 * sum|terms|",
    "linear_t::fit / linear_t::do_predict themselves are not executed (they need a solver run); their scaling-related calls "
    "(flatten_iterator_t statistics and scaling, nano::upscale with the iterator's statistics, linear::predict on scaling=none inputs) are",
]
RULE = ("random in-memory datasets 1..300 samples x 1..20 flatten columns (single-label / multi-label / scalar / structured "
        "features in random generator order, so the enable mask is mixed), magnitudes 1e-6..1e6, column kinds: log-uniform, "
        "offset+tiny spread, constant (non-dyadic values 0.1, 0.3, 1/3 ... with N = 2..10 swept), near-constant (1 ulp apart), "
        "single-sample, all-missing, NaN/inf patterns, small integers, two-valued; statistics over a random sample subset "
        "(sorted / shuffled / with duplicates / empty), random batch; 4x4 scaling modes for inputs and targets; random W "
        "(1..5 x 1..20) and b; a case is non-trivial when some enabled column is degenerate (constant, N <= 1) or a scaling "
        "other than none meets a column with >= 2 distinct values; distinct by op text. Gap-closing round: boundary columns whose "
        "range / deviation is exactly epsilon2, one ulp below, one ulp above, eps/2, 2 eps, 2^-27 / 2^-26 around power-of-two offsets, "
        "N = 0, 1, 2, 3 x 4 modes (all arithmetic of the code on them is exact, so the regime is decided exactly in Float; counted as "
        "regime/* in the distribution); family t4: structured targets / features with dims up to (4,2,2) through the tensor4d overloads; "
        "family xclass: single / multi-label class statistics with missing labels, skewed classes, feature and target variants")
FLAVOUR = {"quick": "plain", "thorough": "asan"}
HARNESS_TIMEOUT = 1500

U = 2.0 ** -53
NAN = float("nan")
INF = float("inf")
CONSTS = [0.1, 0.3, 1.0 / 3.0, 0.7, 2.2, 123.456, 1e6 + 0.1, 7e-6, 1e3 + 1e-3, -0.1, 1.1, -4.35, 1e-6 / 3, 999999.9, 0.2,
          1.0, 0.0, -5.0, 1e6, 1e-6]


# ---------------------------------------------------------------------------------------------------------
# op text <-> case

def fcols(kind, size):
    return {"S": size - 1, "M": size, "F": 1, "T": size}[kind]


def tcols_of(kind, size):
    return size if kind == "S" else fcols(kind, size)


def fmt(c):
    if c["op"] == "xclass":
        return " ".join(["scaling", "xclass", c["kind"], str(c["classes"]), str(c["astarget"]), str(c["rows"]),
                         lst([v for r in c["labels"] for v in r]), lst(c["samples"])])
    if c["op"] == "t4":
        return " ".join(["scaling", "t4", str(c["batch"]), str(c["tmode"]), str(c["d1"]), str(c["d2"]), str(c["d3"]), str(c["rows"]),
                         lst([v for r in c["Y"] for v in r], f2h), lst(c["samples"])])
    g = [str(len(c["groups"]))]
    for k, sizes in c["groups"]:
        g += [k, lst(sizes)]
    head = ["scaling", c["op"], str(c["threads"]), str(c["batch"])]
    if c["op"] == "run":
        head += [str(c["xmode"]), str(c["tmode"])]
    else:
        head += [str(c["ifeature"])]
    body = [" ".join(g), c["tkind"], str(c["tsize"]), str(c["rows"]), str(c["cols"]),
            lst([v for r in c["X"] for v in r], f2h), str(c["tcols"]), lst([v for r in c["Y"] for v in r], f2h),
            lst(c["samples"])]
    if c["op"] == "run":
        body += [lst([v for r in c["W"] for v in r], f2h), lst(c["b"], f2h)]
    return " ".join(head + body)


def chunk(v, n, k):
    return [v[i * n:(i + 1) * n] for i in range(k)]


def parse(op):
    t = Toks(op)
    t.s()
    kind = t.s()
    if kind == "xclass":
        c = dict(op="xclass", kind=t.s(), classes=t.int(), astarget=t.int(), rows=t.int())
        per = 1 if c["kind"] == "S" else c["classes"]
        c["labels"] = chunk(t.ints(), per, c["rows"])
        c["samples"] = t.ints()
        rest = t.rest()
        c["pairs"] = [(int(rest[1 + 2 * i]), int(rest[2 + 2 * i])) for i in range(int(rest[0]))] if rest else None
        c.update(cols=0, tcols=0, X=[], Y=[], groups=[], xmode=0, tmode=0)
        return c
    if kind == "t4":
        c = dict(op="t4", threads=1, batch=t.int(), tmode=t.int(), d1=t.int(), d2=t.int(), d3=t.int(), rows=t.int())
        size = c["d1"] * c["d2"] * c["d3"]
        c["Y"] = chunk(t.fs(), size, c["rows"]); c["X"] = c["Y"]
        c["samples"] = t.ints()
        c.update(cols=size, tcols=size, groups=[("T", [size])], tkind="T", tsize=size, xmode=0)
        rest = t.rest()
        c["eps"] = h2f(rest[0]) if rest else 1e-8
        return c
    c = dict(op=kind, threads=t.int(), batch=t.int())
    if c["op"] == "run":
        c["xmode"] = t.int(); c["tmode"] = t.int()
    else:
        c["ifeature"] = t.int()
    groups = []
    for _ in range(t.int()):
        k = t.s(); groups.append((k, t.ints()))
    c["groups"] = groups
    c["tkind"] = t.s(); c["tsize"] = t.int()
    c["rows"] = t.int(); c["cols"] = t.int()
    c["X"] = chunk(t.fs(), c["cols"], c["rows"])
    c["tcols"] = t.int()
    c["Y"] = chunk(t.fs(), c["tcols"], c["rows"])
    c["samples"] = t.ints()
    if c["op"] == "run":
        c["W"] = chunk(t.fs(), c["cols"], c["tcols"]); c["b"] = t.fs()
    rest = t.rest()
    c["eps"] = h2f(rest[0]) if rest else 1e-8
    return c


def feats(c):
    return [(k, s) for k, sizes in c["groups"] for s in sizes]


def mask(c):
    m = []
    for k, s in feats(c):
        m += [k in "FT"] * fcols(k, s)
    return m


def fin(x):
    return x == x and abs(x) != INF


# ---------------------------------------------------------------------------------------------------------
# generator

def logu(rng, lo=-6.0, hi=6.0):
    return (1.0 if rng.chance(0.5) else -1.0) * 10.0 ** rng.uniform(lo, hi)


def gen_column(rng, rows, sel, kind=None):
    """values of one continuous column (all rows), shaped by what the selected rows should look like"""
    selset = set(sel)
    kinds = ["logu", "offset", "constant", "near", "single", "allmissing", "nans", "ints", "two", "mixedmag", "plain"]
    kind = kind or rng.choice(kinds)
    if kind == "logu":
        v = [logu(rng) for _ in range(rows)]
    elif kind == "plain":
        m = 10.0 ** rng.uniform(-6, 6)
        v = [m * rng.uniform(-1, 1) for _ in range(rows)]
    elif kind == "offset":
        off = logu(rng); r = rng.choice([1e-1, 1e-3, 1e-6, 1e-9, 1e-12, 1e-15])
        v = [off * (1.0 + r * rng.uniform(-1, 1)) for _ in range(rows)]
    elif kind == "constant":
        cst = rng.choice(CONSTS) if rng.chance(0.7) else logu(rng)
        v = [cst if (i in selset or rng.chance(0.5)) else cst * rng.uniform(0.5, 1.5) + rng.uniform(-1, 1) for i in range(rows)]
    elif kind == "near":
        cst = rng.choice(CONSTS) if rng.chance(0.5) else logu(rng)
        nxt = math.nextafter(cst, INF if rng.chance(0.5) else -INF)
        v = [cst if rng.chance(0.5) else nxt for _ in range(rows)]
    elif kind == "single":
        keep = rng.choice(sel) if sel else -1
        v = [logu(rng) if (i == keep or i not in selset) else NAN for i in range(rows)]
        if sel and sel.count(keep) > 1:      # duplicated sample index: still one distinct row, counted twice
            pass
    elif kind == "allmissing":
        v = [NAN if i in selset else logu(rng) for i in range(rows)]
    elif kind == "nans":
        p = rng.choice([0.05, 0.3, 0.8]); m = 10.0 ** rng.uniform(-6, 6)
        v = [(NAN if rng.chance(0.8) else rng.choice([INF, -INF])) if rng.chance(p) else m * rng.uniform(-1, 1) for _ in range(rows)]
    elif kind == "ints":
        v = [float(rng.range(-3, 3)) for _ in range(rows)]
    elif kind == "two":
        a, b = logu(rng), logu(rng)
        v = [a if rng.chance(0.5) else b for _ in range(rows)]
    else:  # mixedmag
        v = [logu(rng, -6, -5) if rng.chance(0.5) else logu(rng, 5, 6) for _ in range(rows)]
    return v, kind


def gen_samples(rng, rows):
    r = rng.below(30)
    if r == 0:
        return []
    if r <= 4:
        return list(range(rows))
    n = rng.range(1, rows)
    if rng.chance(0.25):
        n = min(n, rng.range(1, 10))
    s = rng.shuffle(list(range(rows)))[:n]
    if r <= 10:          # unsorted, maybe with duplicates
        if rng.chance(0.5):
            s += [rng.choice(s) for _ in range(rng.range(1, 3))]
        return s
    return sorted(s)


def gen_features(rng, maxcols):
    """random feature groups (generator order) with at most maxcols flatten columns, at least one column"""
    cols_left = maxcols
    groups = []
    for k in rng.shuffle(["S", "M", "F", "T"]):
        if cols_left <= 0 or not rng.chance(0.75 if k in "FT" else 0.45):
            continue
        sizes = []
        for _ in range(rng.range(1, 4)):
            s = {"S": rng.range(2, 4), "M": rng.range(1, 3), "F": 1, "T": rng.range(2, 5)}[k]
            if fcols(k, s) <= cols_left:
                sizes.append(s); cols_left -= fcols(k, s)
        if sizes:
            groups.append((k, sizes))
    if not groups or (not any(k in "FT" for k, _ in groups) and cols_left > 0 and rng.chance(0.8)):
        groups.insert(rng.below(len(groups) + 1), ("F", [1]))
    return groups


def gen_matrix(rng, rows, sel, flist, is_target, colkind=None):
    """flatten matrix (list of rows) for the given features"""
    columns = []
    kinds = []
    for k, s in flist:
        if k == "S":
            n = s if is_target else s - 1
            labels = [rng.below(s) for _ in range(rows)]
            miss = [(not is_target) and rng.chance(0.15) for _ in range(rows)]
            for j in range(n):
                columns.append([NAN if miss[i] else (1.0 if labels[i] == j else -1.0) for i in range(rows)])
            kinds += ["class"] * n
        elif k == "M":
            miss = [(not is_target) and rng.chance(0.15) for _ in range(rows)]
            for j in range(s):
                columns.append([NAN if miss[i] else (1.0 if rng.chance(0.4) else -1.0) for i in range(rows)])
            kinds += ["class"] * s
        else:
            for j in range(fcols(k, s)):
                v, kd = gen_column(rng, rows, sel, colkind)
                columns.append(v); kinds.append(kd)
    return [[col[i] for col in columns] for i in range(rows)], kinds


def gen_weights(rng, tcols, cols):
    style = rng.below(4)
    def w():
        if style == 0:
            return rng.uniform(-1, 1)
        if style == 1:
            return logu(rng, -3, 3)
        if style == 2:
            return 0.0 if rng.chance(0.3) else rng.uniform(-10, 10)
        return float(rng.range(-2, 2))
    return [[w() for _ in range(cols)] for _ in range(tcols)], [w() for _ in range(tcols)]


def gen_case(rng, size, op="run", xmode=None, tmode=None, colkind=None):
    if size == "tiny":
        rows = rng.range(1, 6); maxcols = rng.range(1, 4)
    elif size == "small":
        rows = rng.range(1, 40); maxcols = rng.range(1, 10)
    else:
        rows = rng.range(40, 300); maxcols = rng.range(1, 20)
    samples = gen_samples(rng, rows)
    groups = gen_features(rng, maxcols)
    tk = rng.choice(["F", "T", "T", "F", "S", "M"])
    ts = {"F": 1, "T": rng.range(2, 5), "S": rng.range(2, 5), "M": rng.range(1, 5)}[tk]
    c = dict(op=op, threads=rng.choice([1, 1, 2, 3]), batch=rng.choice([1, 2, 3, 7, 10, 100, 1000]),
             groups=groups, tkind=tk, tsize=ts, rows=rows, samples=samples)
    c["xmode"] = rng.below(4) if xmode is None else xmode
    c["tmode"] = rng.below(4) if tmode is None else tmode
    fl = feats(c)
    c["X"], _ = gen_matrix(rng, rows, samples, fl, False, colkind)
    c["cols"] = len(c["X"][0])
    c["Y"], _ = gen_matrix(rng, rows, samples, [(tk, ts)], True, colkind)
    c["tcols"] = len(c["Y"][0])
    c["W"], c["b"] = gen_weights(rng, c["tcols"], c["cols"])
    if op == "feature":
        c["ifeature"] = rng.below(len(fl))
    return c


def const_sweep(rng, n, xmode, tmode, part):
    """N = n samples of constant columns with non-dyadic values (the pre-fix stdev NaN lives here)"""
    vals = CONSTS[:15] if part == 0 else [logu(rng) for _ in range(15)]
    tv = [rng.choice(CONSTS[:15]) for _ in range(3)]
    rows = n + 2
    X = [list(vals) for _ in range(n)] + [[v * 1.5 + 0.25 for v in vals], [NAN] * len(vals)]
    Y = [list(tv) for _ in range(n)] + [[v - 1.0 for v in tv], [v + 2.0 for v in tv]]
    W, b = gen_weights(rng, 3, len(vals))
    return dict(op="run", threads=1, batch=rng.choice([1, 2, 1000]), xmode=xmode, tmode=tmode,
                groups=[("F", [1] * 5), ("T", [len(vals) - 5])], tkind="T", tsize=3, rows=rows, cols=len(vals), X=X,
                tcols=3, Y=Y, samples=list(range(n)), W=W, b=b)


EPS = 1e-8          # epsilon2<double>(): the harness reports the real one, the oracle uses the reported one


def onepass_sd(vals):
    """the standard deviation exactly as ::update / ::done compute it (same operations, same order): used by the GENERATOR only,
    to know which regime a boundary case lands in (the oracle never uses it)"""
    n = len(vals); s1 = 0.0; s2 = 0.0
    for v in vals:
        s1 += v; s2 += v * v
    if n < 2:
        return 0.0
    return math.sqrt(max((s2 - s1 * s1 / n) / (n - 1.0), 0.0))


def boundary_columns():
    """(name, values) of columns whose range / deviation sits exactly on, one ulp below and one ulp above epsilon; all arithmetic
    of the code on them is exact (zero minimum, or power-of-two offsets and spreads), so the regime is decided exactly in Float"""
    e = EPS; lo = math.nextafter(e, 0.0); hi = math.nextafter(e, 1.0)
    cols = []
    for nm, r in (("range=eps", e), ("range<eps", lo), ("range>eps", hi), ("range=eps/2", e / 2), ("range=2eps", 2 * e)):
        cols.append((nm + "/N2", [0.0, r]))
        cols.append((nm + "/N3", [0.0, r, 0.0]))
        cols.append((nm + "/N3neg", [-r, 0.0, -r / 2]))
    for nm, r in (("range=2^-27", 2.0 ** -27), ("range=2^-26", 2.0 ** -26)):       # 7.45e-9 < eps < 1.49e-8, around an offset
        for off in (1.0, -4.0, 1024.0):
            cols.append((nm + f"/off{off}", [off, off + r]))
    # deviation: {-x, 0, x} has one-pass variance fl(x^2) and deviation sqrt(fl(x^2)) = x
    for nm, x in (("sd=eps", e), ("sd<eps", lo), ("sd>eps", hi), ("sd=eps/2", e / 2), ("sd=2eps", 2 * e)):
        cols.append((nm + "/N3", [-x, 0.0, x]))
        cols.append((nm + "/N5", [-x, 0.0, x, x, -x]))
    # deviation below eps while the range is above it (and N = 2: sd = range / sqrt 2)
    cols.append(("sd<eps<=range/N2", [0.0, 1.2e-8]))
    cols.append(("sd<eps<=range/N9", [0.0] * 8 + [1.5e-8]))
    cols.append(("N1", [3.5]))
    cols.append(("N0", []))
    cols.append(("N2/equal", [0.75, 0.75]))
    cols.append(("N3/equal", [0.1, 0.1, 0.1]))
    return cols


def regime_cases(rng, tier):
    """every boundary column x every mode (inputs and targets use the same mode), as continuous scalar features (enabled) — plus the
    same columns as the target; unseen rows with ordinary values are appended so that scale / upscale act on other data as well"""
    cols = boundary_columns()
    out = []
    width = 6
    for xmode in range(4):
        for start in range(0, len(cols), width):
            part = cols[start:start + width]
            n = max(len(v) for _, v in part)
            rows = n + 2
            X = []
            for i in range(rows):
                row = []
                for _, v in part:
                    if i < len(v):
                        row.append(v[i])
                    elif i < n:
                        row.append(NAN)
                    else:
                        row.append(rng.choice([0.5, -3.0, 1e-8, 2e-8, 7.0]))
                X.append(row)
            tcol = rng.choice(cols)[1]
            Y = [[(tcol[i] if i < len(tcol) else (NAN if i < n else 1.25))] for i in range(rows)]
            W, b = gen_weights(rng, 1, len(part))
            if any(w == 0.0 for w in W[0]):
                W = [[(w if w != 0.0 else 1.0) for w in W[0]]]
            out.append(dict(op="run", threads=1, batch=rng.choice([1, 2, 1000]), xmode=xmode, tmode=xmode,
                            groups=[("F", [1] * len(part))], tkind="F", tsize=1, rows=rows, cols=len(part), X=X, tcols=1, Y=Y,
                            samples=list(range(n)), W=W, b=b))
    return out


def gen_t4(rng, size):
    d1, d2, d3 = rng.choice([(1, 1, 1), (2, 1, 1), (1, 3, 1), (1, 1, 2), (2, 2, 1), (2, 3, 2), (3, 2, 2), (1, 2, 3), (2, 1, 3), (4, 2, 2)])
    rows = rng.range(1, 6) if size == "tiny" else rng.range(2, 30)
    samples = gen_samples(rng, rows)
    n = d1 * d2 * d3
    columns = [gen_column(rng, rows, samples)[0] for _ in range(n)]
    if rng.chance(0.3):                      # boundary columns in some components
        bc = boundary_columns()
        for _ in range(rng.range(1, min(3, n))):
            nm, v = rng.choice(bc)
            j = rng.below(n)
            columns[j] = [(v[samples.index(i)] if (i in samples and samples.index(i) < len(v)) else NAN) for i in range(rows)]
    Y = [[columns[j][i] for j in range(n)] for i in range(rows)]
    return dict(op="t4", batch=rng.choice([1, 2, 3, 7, 1000]), tmode=rng.below(4), d1=d1, d2=d2, d3=d3, rows=rows, Y=Y, samples=samples)


def gen_xclass(rng):
    kind = rng.choice(["S", "M"])
    classes = rng.range(2, 6) if kind == "S" else rng.range(1, 4)
    astarget = 1 if rng.chance(0.3) else 0
    rows = rng.range(1, 8) if rng.chance(0.5) else rng.range(8, 40)
    pm = 0.0 if astarget else rng.choice([0.0, 0.1, 0.5, 1.0])
    skew = rng.chance(0.5)
    labels = []
    for _ in range(rows):
        if rng.chance(pm):
            labels.append([-1] if kind == "S" else [-1] + [0] * (classes - 1))
        elif kind == "S":
            labels.append([0 if (skew and rng.chance(0.7)) else rng.below(classes)])
        else:
            labels.append([(1 if rng.chance(0.2 if skew else 0.5) else 0) for _ in range(classes)])
    return dict(op="xclass", kind=kind, classes=classes, astarget=astarget, rows=rows, labels=labels, samples=gen_samples(rng, rows))


def gen(rng, tier):
    ops = []
    cp = os.path.join(vlib.VERIF, "corpus", "C14", "ops.txt")
    if os.path.exists(cp):
        ops += [l.strip() for l in open(cp) if l.strip() and not l.startswith("#")]
    # every (mode, N, range / deviation regime) of ::done, boundaries hit exactly
    for c in regime_cases(rng, tier):
        ops.append(fmt(c))
    # exhaustive-small: constant columns, N = 2..10, every mode (inputs) x a cycling mode (targets)
    k = 0
    for n in range(2, 11):
        for xmode in range(4):
            for part in range(2 if tier == "thorough" else 1):
                ops.append(fmt(const_sweep(rng, n, xmode, (xmode + k) % 4, part))); k += 1
    # every 4x4 mode pair on tiny and small cases, every degenerate column kind
    for xmode in range(4):
        for tmode in range(4):
            for size in (["tiny", "small", "small"] if tier == "quick" else ["tiny", "small", "large"] * 6):
                ops.append(fmt(gen_case(rng, size, xmode=xmode, tmode=tmode)))
    for colkind in ["constant", "near", "single", "allmissing", "nans", "offset", "mixedmag", "two", "ints"]:
        for _ in range(20 if tier == "quick" else 150):
            ops.append(fmt(gen_case(rng, rng.choice(["tiny", "small"]), colkind=colkind)))
    nrand = dict(quick=(600, 900, 150, 200), thorough=(6000, 9000, 1200, 1500))[tier]
    for _ in range(nrand[0]):
        ops.append(fmt(gen_case(rng, "tiny")))
    for _ in range(nrand[1]):
        ops.append(fmt(gen_case(rng, "small")))
    for _ in range(nrand[2]):
        ops.append(fmt(gen_case(rng, "large")))
    for _ in range(nrand[3]):
        ops.append(fmt(gen_case(rng, rng.choice(["tiny", "small", "small"]), op="feature")))
    for _ in range(120 if tier == "quick" else 1500):
        ops.append(fmt(gen_t4(rng, rng.choice(["tiny", "small"]))))
    for _ in range(150 if tier == "quick" else 2000):
        ops.append(fmt(gen_xclass(rng)))
    return ops


# ---------------------------------------------------------------------------------------------------------
# the independent evaluation of the property statement

class ColStat:
    """exact statistics of the finite values of one column over the selected samples"""
    def __init__(self, values):
        v = [x for x in values if fin(x)]
        self.n = len(v)
        self.values = v
        if self.n:
            fr = [Fraction(x) for x in v]
            s1 = sum(fr); s2 = sum(x * x for x in fr)
            self.mn, self.mx = min(v), max(v)
            self.mean = float(s1 / self.n)
            self.S = float(s2 - s1 * s1 / self.n)            # sum of squared deviations, exact then rounded
            self.sumsq = float(s2)
            self.meanabs = float(sum(abs(x) for x in fr) / self.n)
            self.maxabs = max(abs(x) for x in v)
            self.var = self.S / (self.n - 1) if self.n > 1 else 0.0
        else:
            self.mn = self.mx = self.mean = self.S = self.sumsq = self.meanabs = self.maxabs = self.var = 0.0
        self.constant = self.n >= 2 and self.mn == self.mx


def read_stats(r):
    n = r.ints()
    names = ["mn", "mx", "mean", "sd", "div_range", "mul_range", "div_sd", "mul_sd"]
    st = dict(n=n)
    for nm in names:
        st[nm] = r.fs()
    return st


def tagged(key, msg):
    return f"[{key}] {msg}"


def nan_constant(cs, st, j):
    """the repaired defect 455b2cb: NaN standard deviation of a column that is constant, or constant up to the rounding of
    the accumulated sums (the square root of a tiny negative rounded variance)"""
    numerically_constant = cs.n >= 2 and cs.S <= 1e-15 * (cs.n + 10) * cs.sumsq
    return (cs.constant or numerically_constant) and any(st[k][j] != st[k][j] for k in ("sd", "div_sd", "mul_sd"))


def centre_den(mode, st, j):
    """(centre, divisor, multiplier) the advertised scaling of the mode uses"""
    if mode == 1:
        return st["mean"][j], st["div_range"][j], st["mul_range"][j]
    if mode == 2:
        return st["mn"][j], st["div_range"][j], st["mul_range"][j]
    if mode == 3:
        return st["mean"][j], st["div_sd"][j], st["mul_sd"][j]
    return 0.0, 1.0, 1.0


def check_block(what, data, sel, enabled, mode, st, S, Uv, eps):
    """statistics + scale + upscale of one matrix (inputs or targets); returns None or (key, why)"""
    rows = len(data); cols = len(enabled)
    for j in range(cols):
        col = [data[i][j] for i in range(rows)]
        cs = ColStat([col[i] for i in sel])
        name = f"{what} column {j}"

        def fail(key, msg):
            if nan_constant(cs, st, j):
                key = "constant-column-stdev-nan"
            return tagged(key, f"{name} (N={cs.n}, mode={mode}): {msg}")

        # -- the statistics ignore the missing values and are the advertised ones
        if st["n"][j] != cs.n:
            return fail("missing-counted", f"counts {st['n'][j]} samples, {cs.n} finite values were given")
        if not enabled[j]:
            ident = (st["mn"][j], st["mx"][j], st["mean"][j], st["sd"][j]) == (0.0, 0.0, 0.0, 0.0) and \
                    (st["div_range"][j], st["mul_range"][j], st["div_sd"][j], st["mul_sd"][j]) == (1.0, 1.0, 1.0, 1.0)
            if not ident:
                return fail("categorical-rescaled", "statistics of a categorical column are not the identity scaling")
        elif cs.n >= 1:
            if st["mn"][j] != cs.mn or st["mx"][j] != cs.mx:
                return fail("stats-minmax", f"min/max {st['mn'][j]!r}/{st['mx'][j]!r} != {cs.mn!r}/{cs.mx!r}")
            if not abs(st["mean"][j] - cs.mean) <= 1e-15 * (cs.n + 10) * cs.meanabs + 1e-300:
                return fail("stats-mean", f"mean {st['mean'][j]!r} != {cs.mean!r}")
            if cs.n >= 2:
                if not abs(st["sd"][j] ** 2 * (cs.n - 1) - cs.S) <= 1e-15 * (cs.n + 10) * cs.sumsq + 1e-300:
                    return fail("stats-stdev", f"stdev {st['sd'][j]!r}, exact {math.sqrt(cs.var)!r}")
            elif st["sd"][j] != 0.0:
                return fail("stats-stdev", f"stdev {st['sd'][j]!r} of a single sample")
        # -- the (de)normalisers, regime by regime: div * mul = 1 always; identity for N <= 1 and for categorical columns; for
        #    N >= 2 the multiplier is the range (resp. the deviation) when it reaches epsilon and epsilon below that
        dr, mr, dsd, msd = st["div_range"][j], st["mul_range"][j], st["div_sd"][j], st["mul_sd"][j]
        if not (abs(dr * mr - 1.0) <= 4 * U and abs(dsd * msd - 1.0) <= 4 * U):
            return fail("div-mul-one", f"div_range*mul_range = {dr * mr!r}, div_stdev*mul_stdev = {dsd * msd!r}")
        if not (mr > 0.0 and msd > 0.0):
            return fail("div-mul-one", f"multipliers {mr!r}, {msd!r} are not positive")
        if not enabled[j] or cs.n <= 1:
            if (dr, mr, dsd, msd) != (1.0, 1.0, 1.0, 1.0):
                return fail("guard-identity", f"N={cs.n}: (de)normalisers {(dr, mr, dsd, msd)!r} instead of 1")
        else:
            rng_ = cs.mx - cs.mn                    # both are doubles of the data: the code forms the same difference
            want = rng_ if rng_ >= eps else eps
            if mr != want or dr != 1.0 / want:
                return fail("guard-range", f"range {rng_!r} (eps {eps!r}): mul_range {mr!r}, div_range {dr!r}; advertised {want!r}, {1.0 / want!r}")
            sd = st["sd"][j]
            want = sd if sd >= eps else eps
            if sd == sd and (msd != want or dsd != 1.0 / want):
                return fail("guard-stdev", f"stdev {sd!r} (eps {eps!r}): mul_stdev {msd!r}, div_stdev {dsd!r}; advertised {want!r}, {1.0 / want!r}")
        # -- cell by cell: missing -> 0, categorical untouched, upscale(scale(x)) = x
        for i in range(rows):
            x = col[i]; s = S[i][j]; u = Uv[i][j]
            if not fin(x):
                if not (s == 0.0):
                    return fail("missing-not-zero", f"row {i}: missing value scaled to {s!r}")
                continue
            if not enabled[j] or mode == 0:
                if s != x or u != x:
                    return fail("categorical-rescaled" if not enabled[j] else "none-not-identity",
                                f"row {i}: x={x!r} scaled {s!r} upscaled {u!r}")
                continue
            if not abs(u - x) <= 1e-12 * (abs(x) + cs.maxabs) + 1e-300:
                return fail(f"roundtrip-mode{mode}", f"row {i}: x={x!r} scaled {s!r} upscale(scale(x))={u!r}")
        # -- advertised range / mean / deviation of the scaled column (over the samples the statistics were computed from)
        if enabled[j] and mode != 0 and cs.n >= 2:
            sv = [S[i][j] for i in sel if fin(col[i])]
            rng_ = cs.mx - cs.mn
            den = max(rng_, eps) if mode in (1, 2) else max(math.sqrt(cs.var), eps)
            lo, hi = min(sv), max(sv)
            m = math.fsum(sv) / cs.n
            mtol = 1e-15 * (cs.n + 10) * cs.maxabs * abs(centre_den(mode, st, j)[1]) + 1e-300
            if mode == 2:
                want_hi = 1.0 if rng_ >= eps else rng_ / eps
                if lo != 0.0 or not abs(hi - want_hi) <= 1e-12:
                    return fail("minmax-range", f"scaled values span [{lo!r}, {hi!r}], advertised [0, {want_hi!r}]")
            if mode == 1:
                want = 1.0 if rng_ >= eps else rng_ / eps
                if not abs((hi - lo) - want) <= 1e-12 or not abs(m) <= mtol:
                    return fail("mean-centred", f"scaled values: mean {m!r}, range {hi - lo!r}; advertised 0 and {want!r}")
            if mode == 3:
                if not abs(m) <= mtol:
                    return fail("standard-mean", f"scaled values have mean {m!r} (tolerance {mtol!r})")
                delta = 1e-15 * (cs.n + 10) * cs.sumsq / (cs.n - 1)
                if cs.var > 0 and delta <= 0.1 * cs.var and math.sqrt(cs.var) >= eps * (1 + 1e-6):
                    fs = [Fraction(v) for v in sv]
                    s1 = sum(fs); s2 = sum(v * v for v in fs)
                    v2 = float((s2 - s1 * s1 / cs.n) / (cs.n - 1))
                    if not abs(v2 - 1.0) <= 2 * delta / cs.var + 1e-12:
                        return fail("standard-unit", f"scaled values have variance {v2!r}, advertised 1")
    return None


def oracle_xclass(c, res):
    """xclass_stats_t: classes = the distinct labelings of the present selected samples (in increasing hash order), counts, class
    index per sample (-1 and weight 0 for a missing one), weights = 1 / (count_c * sum_c' 1/count_c'): positive, every class carries
    the same total weight; continuous features / targets refused"""
    r = Toks(res)
    if r.s() != "ok":
        return tagged("xclass", f"implementation did not answer ok: {res[:80]}")
    sel = c["samples"]
    keys = [tuple(c["labels"][i]) for i in sel]
    present = [k[0] >= 0 for k in keys]
    pairs = c["pairs"]
    if pairs is None or len(pairs) != len(sel):
        return tagged("xclass", "the harness did not report the hashes")
    # the reported hashes must separate the labelings (collision = a different finding) and presence must agree
    h_of = {}
    for k, p, (pp, h) in zip(keys, present, pairs):
        if bool(pp) != p:
            return tagged("xclass-present", f"labeling {k} reported present={pp}")
        if p:
            if h_of.setdefault(k, h) != h:
                return tagged("xclass-hash", f"labeling {k} hashed to two values")
    if len(set(h_of.values())) != len(h_of):
        return tagged("xclass-hash-collision", "two distinct labelings share a hash")
    if c["kind"] == "S" and any(h_of[k] != k[0] for k in h_of):
        return tagged("xclass-hash", "single-label hash is not the label")
    order = sorted(h_of, key=lambda k: h_of[k])
    counts = [sum(1 for k, p in zip(keys, present) if p and k == o) for o in order]
    for blk in range(1 + c["astarget"]):
        n = r.int(); hashes = [int(r.s()) for _ in range(n)]
        csamples = r.ints(); sclasses = r.ints(); weights = r.fs()
        name = "feature" if blk == 0 else "target"
        if hashes != [h_of[o] for o in order]:
            return tagged("xclass-hashes", f"{name}: class hashes {hashes[:6]} are not the sorted distinct hashes of the present samples")
        if any(a >= b for a, b in zip(hashes, hashes[1:])):
            return tagged("xclass-hashes", f"{name}: class hashes not strictly increasing")
        if csamples != counts:
            return tagged("xclass-counts", f"{name}: class counts {csamples} != {counts}")
        if len(sclasses) != len(sel) or len(weights) != len(sel):
            return tagged("xclass-sizes", f"{name}: per-sample outputs have the wrong length")
        inv = sum(Fraction(1, n_) for n_ in counts) if counts else None
        tot = [0.0] * len(order)
        for i, (k, p) in enumerate(zip(keys, present)):
            if not p:
                if sclasses[i] != -1 or weights[i] != 0.0:
                    return tagged("xclass-missing", f"{name}: missing sample {i} got class {sclasses[i]} weight {weights[i]!r}")
                continue
            ci = order.index(k)
            if sclasses[i] != ci:
                return tagged("xclass-class", f"{name}: sample {i} ({k}) got class {sclasses[i]}, expected {ci}")
            want = float(1 / (inv * counts[ci]))
            if not (weights[i] > 0.0 and abs(weights[i] - want) <= 1e-12 * want):
                return tagged("xclass-weight", f"{name}: sample {i} weight {weights[i]!r}, advertised {want!r}")
            tot[ci] += weights[i]
        if tot and max(tot) - min(tot) > 1e-12 * max(tot):
            return tagged("xclass-balance", f"{name}: total weight per class {tot} not balanced")
        if blk == 0 and r.int() != c["astarget"]:
            return tagged("xclass", "target flag")
    if r.int() != 2:
        return tagged("xclass-refuse", "a continuous feature / target was accepted by xclass_stats_t")
    return None if r.done() else tagged("xclass", "trailing tokens")


def oracle(aug, res):
    c = parse(aug)
    if c["op"] == "xclass":
        return oracle_xclass(c, res)
    eps = c["eps"]
    r = Toks(res)
    head = r.s()
    fl = feats(c)
    sel = c["samples"]
    if c["op"] == "feature":
        k, s = fl[c["ifeature"]]
        if k in "SM":
            return None if res.strip() == "throw critical" else tagged("feature-stats", f"categorical feature accepted: {res[:60]}")
        if head != "ok":
            return tagged("feature-stats", f"implementation did not answer ok: {res[:80]}")
        st = read_stats(r)
        off = sum(fcols(*f) for f in fl[:c["ifeature"]])
        n = fcols(k, s)
        data = [row[off:off + n] for row in c["X"]]
        # only the statistics are answered: mode none makes the cell checks of check_block trivially true
        S = [[(x if fin(x) else 0.0) for x in row] for row in data]
        return check_block("feature", data, sel, [True] * n, 0, st, S, S, eps)
    if c["op"] == "t4":
        if head != "ok":
            return tagged("t4", f"implementation did not answer ok: {res[:80]}")
        dims = (r.int(), r.int(), r.int())
        if dims != (c["d1"], c["d2"], c["d3"]):
            return tagged("t4-dims", f"target_dims {dims} != {(c['d1'], c['d2'], c['d3'])}")
        tst = read_stats(r); fst2 = read_stats(r)
        rows, n = c["rows"], c["cols"]
        SY = chunk(r.fs(), n, rows); UY = chunk(r.fs(), n, rows); SF = chunk(r.fs(), n, rows)
        if not r.done():
            return tagged("t4", "trailing tokens in the answer")
        # component (i, j, k) is column (i*d2 + j)*d3 + k of the rows: statistics and scaling are checked per component, each
        # against the values of that component alone
        why = check_block("target component", c["Y"], sel, [True] * n, c["tmode"], tst, SY, UY, eps)
        if why:
            return why
        # the feature's tensor is only scaled by the harness: the round-trip slot gets the raw values (trivially equal)
        return check_block("feature component", c["Y"], sel, [True] * n, c["tmode"], fst2, SF, c["Y"], eps)
    if head != "ok":
        return tagged("run", f"implementation did not answer ok: {res[:80]}")
    flag = r.int()
    fst = read_stats(r); tst = read_stats(r)
    rows, cols, tcols = c["rows"], c["cols"], c["tcols"]
    SX = chunk(r.fs(), cols, rows); UX = chunk(r.fs(), cols, rows)
    SY = chunk(r.fs(), tcols, rows); UY = chunk(r.fs(), tcols, rows)
    PS = chunk(r.fs(), tcols, rows); PU = chunk(r.fs(), tcols, rows)
    W2 = chunk(r.fs(), cols, tcols); B2 = r.fs()
    PR = chunk(r.fs(), tcols, rows)
    if not r.done():
        return tagged("run", "trailing tokens in the answer")
    xm, tm = c["xmode"], c["tmode"]
    en = mask(c)
    ten = [c["tkind"] in "FT"] * tcols
    why = check_block("input", c["X"], sel, en, xm, fst, SX, UX, eps)
    if why:
        return why
    why = check_block("target", c["Y"], sel, ten, tm, tst, SY, UY, eps)
    if why:
        return why
    if flag != 1:
        return tagged("iterator", "flatten_iterator_t statistics / scaled values differ from the direct calls")
    # -- the converted model on raw finite inputs = up-scaled prediction of the original model on the scaled inputs
    W, b = c["W"], c["b"]
    xs = [centre_den(xm, fst, j) for j in range(cols)]
    tsc = [centre_den(tm, tst, o) for o in range(tcols)]
    for i in range(rows):
        x = c["X"][i]
        if not all(fin(v) for v in x):
            continue
        for o in range(tcols):
            terms = [W2[o][j] * x[j] for j in range(cols)]
            lhs = math.fsum(terms + [B2[o]])
            ct, _, mt = tsc[o]
            mag = sum(abs(t) for t in terms) + abs(B2[o]) + abs(ct) + abs(mt) * (
                abs(b[o]) + sum(abs(W[o][j]) * (abs(x[j]) + abs(xs[j][0])) * abs(xs[j][1]) for j in range(cols)))
            tol = 1e-9 * mag
            for nm, rhs in (("W'x+b' (exact sum)", lhs), ("linear::predict", PR[i][o])):
                if not abs(rhs - PU[i][o]) <= tol:
                    key = "affine-predictor"
                    css = [ColStat([c["X"][s_][j] for s_ in sel]) for j in range(cols)]
                    cst = [ColStat([c["Y"][s_][q] for s_ in sel]) for q in range(tcols)]
                    if any(nan_constant(css[j], fst, j) for j in range(cols)) or any(nan_constant(cst[q], tst, q) for q in range(tcols)):
                        key = "constant-column-stdev-nan"
                    return tagged(key, f"row {i} output {o} (modes {xm}/{tm}): {nm} of the converted model = {rhs!r}, up-scaled "
                                       f"prediction of the original model on the scaled input = {PU[i][o]!r} (tolerance {tol!r})")
    return None


def classify(op, kind, detail):
    if kind == "oracle" and detail.startswith("["):
        return detail[1:detail.index("]")]
    t = op.split()
    return f"{kind}-{t[1]}" if len(t) > 1 else None


# ---------------------------------------------------------------------------------------------------------
# correspondence comparator: bit-exact except the two Eigen matrix products (converted bias, linear::predict)

def eqbits(a, b):
    return a == b


def compare(aug, impl, model):
    if impl == model:
        return True
    a, m = impl.split(), model.split()
    if len(a) != len(m) or not a or a[0] != "ok":
        return False
    c = parse(aug)
    if c["op"] == "xclass":
        # the weights divide by an Eigen reduction (sum of 1/count): relative 1e-12; everything else exact
        for x, y in zip(a, m):
            if x != y and not (vlib.is_hexf(x) and vlib.is_hexf(y) and len(x) == 16 and len(y) == 16 and vlib.close(h2f(x), h2f(y), 1e-12, 0.0)):
                return False
        return True
    if c["op"] != "run":
        return False
    rows, cols, tcols = c["rows"], c["cols"], c["tcols"]
    n_exact = len(a) - (1 + tcols) - (1 + rows * tcols)      # everything before `b'` list
    if a[:n_exact] != m[:n_exact]:
        return False
    # tolerances from the model's own numbers
    r = Toks(model); r.s(); r.int()
    fst = read_stats(r); tst = read_stats(r)
    for _ in range(2):
        r.fs()
    for _ in range(4):
        r.fs()
    W2 = chunk(r.fs(), cols, tcols)
    xm, tm = c["xmode"], c["tmode"]

    def mk(mode, st, j):
        ce, d, _ = centre_den(mode, st, j)
        return (d, -ce * d) if mode else (1.0, 0.0)
    fsc = [mk(xm, fst, j) for j in range(cols)]
    tsc = [mk(tm, tst, o) for o in range(tcols)]
    W, b = c["W"], c["b"]
    ib = n_exact + 1
    btol = []
    for o in range(tcols):
        tw, tb = tsc[o]
        mag = (sum(abs(W[o][j] * fsc[j][1]) for j in range(cols)) + abs(b[o]) + abs(tb)) / abs(tw) if tw == tw and tw != 0 else NAN
        btol.append(1e-12 * mag)
        x, y = a[ib + o], m[ib + o]
        if x != y and not (vlib.is_hexf(x) and vlib.is_hexf(y) and vlib.close(h2f(x), h2f(y), 0.0, btol[o])):
            return False
    ip = ib + tcols + 1
    for i in range(rows):
        xr = [(v if fin(v) else 0.0) for v in c["X"][i]]
        for o in range(tcols):
            x, y = a[ip + i * tcols + o], m[ip + i * tcols + o]
            if x == y:
                continue
            tol = 1e-12 * (sum(abs(W2[o][j] * xr[j]) for j in range(cols))) + 2 * btol[o] + 1e-12 * abs(h2f(y))
            if not (vlib.is_hexf(x) and vlib.is_hexf(y) and vlib.close(h2f(x), h2f(y), 0.0, tol)):
                return False
    return True


# ---------------------------------------------------------------------------------------------------------
# bookkeeping

def column_kind(c, col, sel):
    v = [col[i] for i in sel if fin(col[i])]
    if not v:
        return "all-missing"
    if len(v) == 1:
        return "single-sample"
    d = set(v)
    if len(d) == 1:
        return "constant"
    if len(d) == 2 and math.nextafter(min(d), INF) == max(d):
        return "near-constant"
    return "regular"


def nontrivial(op):
    c = parse(op)
    if c["op"] == "xclass":
        return len({tuple(c["labels"][i]) for i in c["samples"] if c["labels"][i][0] >= 0}) >= 2
    if c["op"] == "t4":
        return c["d1"] * c["d2"] * c["d3"] > 1 and len(c["samples"]) >= 1
    en = mask(c)
    sel = c["samples"]
    for j in range(c["cols"]):
        if not en[j]:
            continue
        k = column_kind(c, [r[j] for r in c["X"]], sel)
        if k != "regular" or c["op"] == "feature" or c["xmode"] != 0:
            return True
    return False


def distribution(ops):
    d = {}
    def inc(k):
        d[k] = d.get(k, 0) + 1
    for op in ops:
        c = parse(op)
        inc("op/" + c["op"])
        if c["op"] == "xclass":
            inc(f"xclass/{c['kind']}{'-target' if c['astarget'] else ''}")
            inc("xclass-missing/" + ("some" if any(c["labels"][i][0] < 0 for i in c["samples"]) else "none"))
            continue
        if c["op"] == "t4":
            inc(f"t4dims/{c['d1']}x{c['d2']}x{c['d3']}")
        for j in range(c["cols"]):
            if mask(c)[j]:
                v = [c["X"][i][j] for i in c["samples"] if fin(c["X"][i][j])]
                inc("N/" + (str(len(v)) if len(v) <= 3 else ">3"))
                if len(v) >= 2:
                    r_ = max(v) - min(v)
                    inc("regime/range" + ("=eps" if r_ == EPS else "<eps" if r_ < EPS else ">eps"))
                    sd = onepass_sd(v)
                    inc("regime/sd" + ("=eps" if sd == EPS else "<eps" if sd < EPS else ">eps"))
        if c["op"] == "run":
            inc(f"modes/{c['xmode']}{c['tmode']}")
            inc("target/" + c["tkind"])
        inc("rows/" + ("1" if c["rows"] == 1 else "2-10" if c["rows"] <= 10 else "11-40" if c["rows"] <= 40 else "41-300"))
        inc("selected/" + ("0" if not c["samples"] else "1" if len(c["samples"]) == 1 else "2-10" if len(c["samples"]) <= 10 else ">10"))
        en = mask(c)
        inc("mask/" + ("mixed" if (True in en and False in en) else "all-continuous" if True in en else "all-categorical"))
        for j in range(c["cols"]):
            if en[j]:
                inc("column/" + column_kind(c, [r[j] for r in c["X"]], c["samples"]))
            else:
                inc("column/categorical")
    return d


def shrink_candidates(op):
    c = parse(op)
    out = []
    if c["op"] == "xclass":
        for i in range(min(len(c["samples"]), 24)):
            n = dict(c); n["samples"] = c["samples"][:i] + c["samples"][i + 1:]
            out.append(fmt(n))
        return out
    if c["op"] == "t4":
        for i in range(c["rows"]):
            if c["rows"] > 1:
                keep = [k for k in range(c["rows"]) if k != i]
                idx = {old: new for new, old in enumerate(keep)}
                n = dict(c); n["rows"] = len(keep); n["Y"] = [c["Y"][k] for k in keep]
                n["samples"] = [idx[s_] for s_ in c["samples"] if s_ in idx]
                out.append(fmt(n))
        return out
    rows = c["rows"]

    def keep_rows(keep):
        if not keep:
            return
        idx = {old: new for new, old in enumerate(keep)}
        n = dict(c)
        n["rows"] = len(keep)
        n["X"] = [c["X"][i] for i in keep]; n["Y"] = [c["Y"][i] for i in keep]
        n["samples"] = [idx[s] for s in c["samples"] if s in idx]
        out.append(fmt(n))
    if rows > 1:
        keep_rows(list(range(rows // 2)))
        keep_rows(list(range(rows // 2, rows)))
        if rows <= 16:
            for i in range(rows):
                keep_rows([k for k in range(rows) if k != i])
    if len(c["samples"]) > 1:
        for i in range(min(len(c["samples"]), 16)):
            n = dict(c); n["samples"] = c["samples"][:i] + c["samples"][i + 1:]
            out.append(fmt(n))
    # drop one input feature (and its columns of X and W)
    fl = feats(c)
    if len(fl) > 1 and c["op"] == "run":
        off = 0
        for fi, (k, s) in enumerate(fl):
            w = fcols(k, s)
            n = dict(c)
            keepc = [j for j in range(c["cols"]) if not (off <= j < off + w)]
            n["X"] = [[r[j] for j in keepc] for r in c["X"]]
            n["W"] = [[r[j] for j in keepc] for r in c["W"]]
            n["cols"] = len(keepc)
            groups, cnt = [], 0
            for gk, sizes in c["groups"]:
                ns = [sz for q, sz in enumerate(sizes) if cnt + q != fi]
                cnt += len(sizes)
                if ns:
                    groups.append((gk, ns))
            n["groups"] = groups
            out.append(fmt(n))
            off += w
    if c["op"] == "run" and c["threads"] != 1:
        n = dict(c); n["threads"] = 1; out.append(fmt(n))
    return out
